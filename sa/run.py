#!/venv/bin/python
"""CLI:  run.py check Cxx [--tier quick|thorough] [--root DIR]
         run.py replay <violation.json>
Exit 0: every decided obligation holds (unknowns are listed, never alarmed)
Exit 1: a definite violation not listed in known_findings.json (prints VIOLATION line)
Exit 2: ANALYSIS-ERROR (vanished anchor, unparsable tree, internal error) - never a pass
"""
import importlib
import json
import os
import sys
import time
import traceback

HERE = os.path.dirname(os.path.abspath(__file__))
sys.path.insert(0, os.path.dirname(HERE))
sys.setrecursionlimit(10000)

from sa.core import Ctx, finish          # noqa: E402
from sa.model import AnalysisError      # noqa: E402


def run_check(prop, tier, root):
    t0 = time.time()
    mod = importlib.import_module("sa.rules." + prop)
    ctx = Ctx(root)
    extra = mod.check(ctx, tier) or {}
    if tier == "thorough" and os.environ.get("VERIF_NO_SELFTEST") != "1":
        from sa import selftest
        extra.update(selftest.run(prop, root))
    floor = getattr(mod, "MIN_OBLIGATIONS", 1)
    decided = sum(1 for o in ctx.obligations if o.status != "unknown")
    if decided < floor:
        raise AnalysisError("%s: only %d decided obligations (floor %d): rule anchors no longer match the tree"
                            % (prop, decided, floor))
    seed = int(os.environ.get("VERIF_SEED", "0") or 0)
    return finish(prop, ctx, tier, t0, mod.LEVEL_TEXT, mod.ASSUMPTIONS, extra, seed)


def main(argv):
    if len(argv) >= 2 and argv[0] == "check":
        prop = argv[1]
        tier = os.environ.get("VERIF_TIER", "quick")
        root = "/repo"
        i = 2
        while i < len(argv):
            if argv[i] == "--tier":
                tier = argv[i + 1]
                i += 2
            elif argv[i] == "--root":
                root = argv[i + 1]
                i += 2
            else:
                i += 1
        if tier not in ("quick", "thorough"):
            tier = "quick"
        try:
            rc = run_check(prop, tier, root)
        except AnalysisError as e:
            print("ANALYSIS-ERROR property=%s %s" % (prop, e))
            return 2
        except Exception:
            print("ANALYSIS-ERROR property=%s internal error" % prop)
            traceback.print_exc()
            return 2
        return rc
    if len(argv) >= 2 and argv[0] == "replay":
        d = json.load(open(argv[1]))
        prop = d["property"]
        root = d.get("root", "/repo")
        keys = set((v["rule"], v["function"], v["key"]) for v in d["violations"])
        try:
            mod = importlib.import_module("sa.rules." + prop)
            ctx = Ctx(root)
            mod.check(ctx, "quick")
        except Exception as e:
            print("ANALYSIS-ERROR replay %s" % e)
            return 2
        still = [o for o in ctx.obligations if o.status == "violated" and (o.rule, o.func, o.key) in keys]
        for o in still:
            print("REPRODUCED %s %s:%s %s: %s -- %s" % (o.rule, o.file, o.line, o.func, o.what, o.detail))
        if still:
            print("VIOLATION property=%s replay=%s" % (prop, argv[1]))
            return 1
        print("not reproduced on %s" % root)
        return 0
    print(__doc__)
    return 2


if __name__ == "__main__":
    rc = main(sys.argv[1:])
    sys.stdout.flush()
    os._exit(rc)
