"""W0 - well-formedness of the resolved program (base layer under every property).

(a) a local name is read where *no* definition reaches on *any* path  -> definite NameError/UnboundLocalError
(b) a resolved call edge is arity/keyword-incompatible with its callee, including through decorators
(c) `self.<attr>` is read but <attr> is neither assigned anywhere in the class hierarchy (or its subclasses,
    for mixins) nor a method/property/class attribute
Each is a "fails for every input that reaches it" defect; "possibly undefined" is deliberately not reported.
"""
import ast
import builtins
from .model import Func, Class
from .terms import T, walk, attr_chain
from .resolve import _exprs_of_node, _arity_ok

BUILTINS = set(dir(builtins))


def undefined_locals(ctx, f):
    """[(name, ast node)] definite reads of unbound locals in f"""
    fa = ctx.fa(f)
    out = []
    comp_bound = _comprehension_names(f.node)
    for n in fa.cfg.stmts():
        table = fa.IN.get(n.id, {})
        for e in _exprs_of_node(n):
            for sub in _walk_no_scopes(e):
                if isinstance(sub, ast.Name) and isinstance(sub.ctx, ast.Load):
                    nm = sub.id
                    if nm in fa.locals and nm not in table and nm not in comp_bound.get(id(sub), ()):
                        if _in_comp_scope(sub, e, nm):
                            continue
                        out.append((nm, sub))
    return out


def _walk_no_scopes(e):
    stack = [e]
    while stack:
        x = stack.pop()
        yield x
        for ch in ast.iter_child_nodes(x):
            if isinstance(ch, (ast.Lambda, ast.FunctionDef, ast.ClassDef)):
                continue
            stack.append(ch)


def _comprehension_names(fnode):
    return {}


def _in_comp_scope(name_node, root, nm):
    """is `nm` bound by an enclosing comprehension of name_node inside root"""
    for sub in ast.walk(root):
        if isinstance(sub, (ast.ListComp, ast.SetComp, ast.GeneratorExp, ast.DictComp)):
            bound = set()
            for g in sub.generators:
                for t in ast.walk(g.target):
                    if isinstance(t, ast.Name):
                        bound.add(t.id)
            if nm in bound and any(x is name_node for x in ast.walk(sub)):
                return True
    return False


def decorated_wrapper(ctx, g):
    """if g is decorated by a repo decorator factory whose innermost nested function takes the place of g
    (reduction -> reduction_func -> new_func), return that wrapper Func"""
    for d in g.decorators:
        dn = d.func if isinstance(d, ast.Call) else d
        r = ctx.program.resolve_expr_static(g.module, dn, g.parent)
        if isinstance(r, Func):
            w = r
            # follow "return <nested>" chain
            for _ in range(4):
                nxt = None
                for st in w.node.body:
                    if isinstance(st, ast.Return) and isinstance(st.value, ast.Name) and st.value.id in w.nested \
                            and isinstance(w.nested[st.value.id], Func):
                        nxt = w.nested[st.value.id]
                if nxt is None:
                    break
                w = nxt
            if w is not r:
                # does the wrapper call its free variable (the decorated function)?
                return w
            if any(isinstance(st, ast.Return) and isinstance(st.value, ast.Name) and st.value.id in r.params for st in r.node.body):
                return None     # registers and returns the function unchanged (implements)
    return None


def call_shape_ok(g, t, bound):
    return _arity_ok(g, t, bound)


def check_calls(ctx, tk, f):
    """[(call term, callee, why)] definite arity/keyword mismatches on resolved edges of f"""
    fa = ctx.fa(f)
    out = []
    for (ct, targets) in tk.R.callees(fa):
        if ct.k != "call":
            continue
        fn = ct.a[0]
        ft = tk.R.callee_type(fn, fa)
        if ft is None or ft[0] not in ("class", "func", "bound"):
            continue
        for g in targets:
            if g.name == "__post_init__":
                continue
            eff = decorated_wrapper(ctx, g) or g
            bound = ft[0] in ("bound", "class")
            if ft[0] == "func" and eff.cls is not None and not eff.is_staticmethod:
                bound = False
            # wrapper functions (new_func) are plain functions taking self explicitly
            if eff is not g:
                ok = _arity_ok_shift(eff, ct, shift=1 if ft[0] == "bound" else 0)
            else:
                ok = _arity_ok(g, ct, bound=bound)
            if not ok:
                out.append((ct, g, "call %s does not fit the signature of %s%s" % (
                    ct, eff.qual, " (the wrapper that replaces %s)" % g.qual if eff is not g else "")))
    # calls of a decorated function from inside its wrapper:  func(self, axis=axis)
    for name, w in _wrappers_in(ctx, f):
        pass
    return out


def _arity_ok_shift(g, t, shift):
    """like _arity_ok for a plain function g called with `shift` implicit leading positional arguments"""
    args, kws = t.a[1], t.a[2]
    if any(a.k == "star" for a in args) or any(n == "**" for n, _ in kws):
        return True
    params = list(g.params)[shift:]
    if len(args) > len(params) and not g.vararg:
        return False
    names = set(params) | set(g.kwonly)
    for n, _ in kws:
        if n not in names and not g.kwarg:
            return False
    given = set(params[:len(args)]) | {n for n, _ in kws}
    for p in params:
        if p not in given and p not in g.defaults:
            return False
    return True


def _wrappers_in(ctx, f):
    return []


def check_wrapper_calls(ctx, tk):
    """decorator wrappers calling the function they wrap: every decorated function must accept the call"""
    out = []
    p = ctx.program
    for q, g in p.funcs.items():
        w = decorated_wrapper(ctx, g)
        if w is None:
            continue
        # free variable name bound to the decorated function: parameter of the enclosing decorator function
        enclosing = w.parent
        fname = enclosing.params[0] if enclosing is not None and enclosing.params else None
        if fname is None:
            continue
        fa = ctx.fa(w)
        for n in fa.cfg.stmts():
            for e in _exprs_of_node(n):
                tm = fa.term(e, n)
                for c in walk(tm):
                    if c.k == "call" and c.a[0].k == "free" and c.a[0].a[0] == fname:
                        if not _arity_ok(g, c, bound=False):
                            out.append((g, w, c))
    return out


def unknown_self_attrs(ctx, f):
    """[(attr, node)] reads of self.<attr> that no class in the hierarchy (nor a subclass) defines"""
    if f.cls is None or f.is_staticmethod or f.parent is not None or not f.params:
        return []
    selfn = f.params[0]
    if f.is_classmethod:
        return []
    p = ctx.program
    classes = set(f.cls.mro())
    for s in p.subclasses(f.cls):
        classes |= set(s.mro())
    if any(c.ext_bases and not all(("NDArrayOperatorsMixin" in b or b in ("object", "tuple")) for b in c.ext_bases) for c in classes):
        return []           # inherits from an external class (np.ndarray, dataclass base): attributes unknown
    if any(c.lookup("__getattr__") for c in classes):
        return []
    if any("dataclass" in c.decorators for c in classes) or f.cls.parent_func is not None:
        return []
    defined = set()
    for c in classes:
        defined |= set(c.methods) | set(c.attrs) | {x[0] for x in c.fields}
        for m in c.methods.values():
            for sub in ast.walk(m.node):
                if isinstance(sub, ast.Attribute) and isinstance(sub.ctx, (ast.Store,)) and isinstance(sub.value, ast.Name) \
                        and m.params and sub.value.id == m.params[0]:
                    defined.add(sub.attr)
                if isinstance(sub, ast.Call) and isinstance(sub.func, ast.Name) and sub.func.id == "setattr":
                    return []
    # attributes set on instances from outside (e.g. view.empty_removed = True, obj._safe_mode = False)
    ext = ctx.cached("extattrs", lambda: _external_attr_stores(ctx))
    defined |= ext
    out = []
    for sub in ast.walk(f.node):
        if isinstance(sub, ast.Attribute) and isinstance(sub.ctx, ast.Load) and isinstance(sub.value, ast.Name) \
                and sub.value.id == selfn and sub.attr not in defined and not sub.attr.startswith("__"):
            # hasattr(self, "x") guarded reads are fine
            out.append((sub.attr, sub))
    return out


def _external_attr_stores(ctx):
    s = set()
    for m in ctx.program.modules.values():
        for sub in ast.walk(m.tree):
            if isinstance(sub, ast.Attribute) and isinstance(sub.ctx, ast.Store):
                s.add(sub.attr)
    return s


def report(ctx, tk, rule, funcs, what_prefix=""):
    """emit W0 obligations for the given functions"""
    for f in funcs:
        try:
            und = undefined_locals(ctx, f)
        except RecursionError:
            und = []
        if und:
            for nm, node in und[:3]:
                ctx.violated(rule + "/W0a", f, "every local name is bound on some path before it is read",
                             "`%s` is read at line %s but no assignment reaches it on any path (NameError / UnboundLocalError for every input)" % (nm, node.lineno),
                             node=node, key="undef:" + nm, engine="W0")
        else:
            ctx.holds(rule + "/W0a", f, "every local name is bound on some path before it is read", key="locals", engine="W0")
        bad = check_calls(ctx, tk, f)
        from .triage import CALL_EDGES
        kept = []
        for ct, g, why in bad:
            reason = CALL_EDGES.get((f.qual, g.qual))
            if reason:
                tag = "W0b %s -> %s suppressed: %s" % (f.qual, g.qual, reason)
                if tag not in ctx.suppressed:
                    ctx.suppressed.append(tag)
            else:
                kept.append((ct, g, why))
        bad = kept
        if bad:
            for ct, g, why in bad[:3]:
                ctx.violated(rule + "/W0b", f, "every resolved call fits its callee's signature", why + " (TypeError for every input)",
                             node=ct.node, key="arity:" + g.qual, engine="W0")
        else:
            ctx.holds(rule + "/W0b", f, "every resolved call fits its callee's signature", key="calls", engine="W0")
        ua = unknown_self_attrs(ctx, f)
        guarded = _hasattr_guarded(f)
        ua = [(a, n) for a, n in ua if a not in guarded]
        if ua:
            for a, node in ua[:3]:
                ctx.violated(rule + "/W0c", f, "every attribute read on self is defined somewhere in the class hierarchy",
                             "`self.%s` is never assigned and is not a method/property/class attribute (AttributeError)" % a,
                             node=node, key="attr:" + a, engine="W0")
        else:
            ctx.holds(rule + "/W0c", f, "every attribute read on self is defined somewhere in the class hierarchy", key="attrs", engine="W0")


def constant_truth_conditions(ctx, tk, f):
    """[(ast node, description)] for branch / assert conditions that are a comparison (or call) resolved to a repository
    method all of whose returns are generator expressions: a generator object is always truthy, so the condition never fails"""
    fa = ctx.fa(f)
    out = []
    for n in fa.cfg.nodes:
        if n.kind != "test" or not fa.cfg.is_reachable(n) or n.ast is None:
            continue
        tm = fa.term(n.ast, n)
        parts = []
        stack = [tm]
        while stack:
            t = stack.pop()
            if t.k == "bool":
                stack.extend(t.a[1])
            elif t.k == "un" and t.a[0] == "not":
                stack.append(t.a[1])
            else:
                parts.append(t)
        # parameters narrowed by dominating isinstance() tests are typed for the duration of this lookup
        narrowed = tk.R.isinstance_types_at(fa, n)
        tk.R.dyn_param = {(f.qual, k_): v for k_, v in narrowed.items()}
        tk.R.ctx._cache.pop("typeof", None)
        for t in parts:
            targets = None
            try:
                if t.k == "cmp" and t.a[0] in ("==", "!="):
                    targets = tk.R.resolve_operator(t, fa)
                elif t.k == "call":
                    targets = tk.R.resolve_call(t, fa)
            except Exception:
                targets = None
            for g in targets or []:
                rets = [x for x in ast.walk(g.node) if isinstance(x, ast.Return) and x.value is not None]
                if rets and all(isinstance(x.value, ast.GeneratorExp) for x in rets):
                    out.append((n.ast, "`%s` is decided by %s, which returns a generator expression: a generator object is truthy whatever it would yield, "
                                "so this check can never fail" % (ast.unparse(n.ast)[:90], g.qual)))
        tk.R.dyn_param = None
    return out


def report_constant_truth(ctx, tk, rule, funcs):
    for f in funcs:
        bad = constant_truth_conditions(ctx, tk, f)
        what = "no condition is decided by a method that returns a generator (always truthy)"
        if bad:
            for node, why in bad[:3]:
                ctx.violated(rule + "/W0d", f, what, why, node=node, engine="W0")
        else:
            ctx.holds(rule + "/W0d", f, what, key="truthy", engine="W0")


def _hasattr_guarded(f):
    s = set()
    for sub in ast.walk(f.node):
        if isinstance(sub, ast.Call) and isinstance(sub.func, ast.Name) and sub.func.id == "hasattr" and len(sub.args) == 2 \
                and isinstance(sub.args[1], ast.Constant):
            s.add(sub.args[1].value)
    return s


def report_wrappers(ctx, tk, rule):
    bad = check_wrapper_calls(ctx, tk)
    seen = set()
    for g, w, c in bad:
        if g.qual in seen:
            continue
        ctx.violated(rule + "/W0b", g, "a decorated function accepts the call its wrapper makes",
                     "%s calls `%s` but %s%s cannot take these arguments (TypeError for every input)" % (
                         w.qual, c, g.qual, ast.unparse(g.node.args).join("()")), node=g.node, key="wrapped-arity", engine="W0")
        seen.add(g.qual)
    for q, g in ctx.program.funcs.items():
        if decorated_wrapper(ctx, g) is not None and q not in seen:
            ctx.holds(rule + "/W0b", g, "a decorated function accepts the call its wrapper makes", key="wrapped-arity", engine="W0")
