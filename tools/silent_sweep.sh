#!/bin/bash
# run every silent variant against every property, in parallel
cd /verif
/venv/bin/python - <<'PY'
import sys, os, shutil, tempfile, subprocess, json
sys.path.insert(0,'/verif')
from sa import selftest
from concurrent.futures import ThreadPoolExecutor
props=["C%02d"%i for i in range(1,20)]
def one(name):
    tmp=tempfile.mkdtemp(prefix="sil_%s_"%name)
    out=[]
    try:
        selftest.make_variant(name,'/repo',tmp)
        for p in props:
            rc,viol,head,err=selftest.run_check(p,tmp,os.path.join(tmp,'ev'))
            if rc!=0:
                out.append((name,p,rc,viol[:2],err[-300:]))
    except Exception as e:
        out.append((name,'-', 'exc', str(e)))
    finally:
        shutil.rmtree(tmp,ignore_errors=True)
    return out
with ThreadPoolExecutor(8) as ex:
    for r in ex.map(one, list(selftest.VARIANTS)):
        for x in r: print(x)
print("done")
PY
