#!/venv/bin/python
"""Regenerate /verif/MANIFEST.json from the rule modules present in sa/rules (claimed) and the
not-applicable table below (everything else)."""
import importlib
import json
import os
import sys

VERIF = "/verif"
sys.path.insert(0, VERIF)

TECH = {
    "C01": "custom AST/CFG static analysis: must-guard with truth tables over the size check (E1), prefix-sum sequence algebra and (start,length) code-layout agreement (E5/E6), view-coherence typestate (E2)",
    "C02": "custom static analysis: guard truth tables + landmark-interval analysis of index bounds and slice normalisation (E1/E8), unit inference over view column arithmetic (E5), typestate of raw gathers (E2), operand routing (E4), case-partitioned interval interpretation of the column-slice arithmetic for rows of 0-3 cells against Python's slice semantics (E9)",
    "C03": "custom static analysis: effect/ownership analysis of buffer writers (E3), typestate for write-through (E2 VC4), guard truth tables (E1), dispatch-shape rules, interval interpretation of the addressed column range (E9)",
    "C04": "custom static analysis: must-guard in the operand loop (E1), operand-flow and weak-scalar analysis (E4), effect analysis (E3), table/idiom agreement for the XOR broadcast (E6/KB)",
    "C05": "custom static analysis: reduceat-hazard path rules and identity patch-up polarity (E1), registry/call-compatibility through decorators (E6/W0), dtype-class feasibility",
    "C06": "custom static analysis: view-coherence typestate (materialised vs lazy view) over all RaggedArray code (E2), field-propagation/unit rules for view-of-view composition (E5), alias-exposure analysis (E3), interval interpretation of column slices (E9)",
    "C07": "custom static analysis: extent-safe boundary gathers and prefix-sum alignment (E5/E8), lexsort key roles, row-boundary barriers, table agreement (E6), numpy-hazard rules",
    "C08": "custom static analysis: comprehension parallelism/sibling agreement (E6), searchsorted side rules (E5/U4), wrap/clamp idioms (E8), typestate (E2), operand order (E4)",
    "C09": "custom static analysis: dtype-class feasibility over the bincount branches, divisor/branch agreement (E6), unit rules for bincount operands (E5), typestate (E2)",
    "C10": "custom static analysis: interprocedural freshness/alias and in-place-effect summaries over the whole call graph (E3); alias-exposure rule (EF4); view-coherence typestate and deferred-effect (generator) rule (E2)",
    "C11": "custom static analysis: ownership/who-may-write (E3), must-guard for the absent-key refusal (E1), co-permutation and sibling agreement of the lookup routines (E6), numpy-hazard rules",
    "C12": "custom static analysis: typestate flag empty_removed (E1), co-selection and sibling-branch agreement of the three count branches (E6), buffered-update hazard (KB), ownership of the counts buffer (E3)",
    "C13": "custom static analysis: unit inference over register/entry/bit arithmetic (E5), guard and truncation must-pass rules (E1), effect analysis of pack (E3)",
    "C14": "custom static analysis: constructor-invariant guards with strictness atoms (E1), sanitizer-order typestate (remove_empty_intervals before join_runs), reinterpretation-width table (E6), numpy-hazard rules",
    "C15": "custom static analysis: landmark-interval analysis of slice bounds (E8), searchsorted side rules (U4), ceil-rescale and co-reversal order rules (U3), dispatch exhaustiveness, effect analysis (E3)",
    "C16": "custom static analysis: operand-flow through the three ufunc branches and the boundary merge (E4), equal-length guard (E1), effect analysis (E3), reduction-shape rules, dtype-kind path rules from the numpy knowledge base (promotion of int64*uint64, integer mean accumulator)",
    "C17": "custom static analysis: operand-flow (E4), co-selection of boundaries and values (E6), encoder barriers and complementary-slice rules (U6), landmark intervals for column ranges (E8), dtype-class feasibility",
    "C18": "custom static analysis: must-pass of the equal-length check (E1), field-uniformity rules over every per-field operation (E6), zero-initialised right-aligned padding (E3/E5)",
    "C19": "custom static analysis: totality/contiguity of the width-dependent gather over index kinds (E7/KB), configuration-store coherence over the class hierarchy (E6), sibling-branch layout agreement, memoisation / exported-width rules for the mutable index dtype",
}

NOTE = ("Decides structural necessary conditions of the property from /repo's current source on every path "
        "(no repository code is imported or executed); value-level equality with numpy is NOT decided "
        "(DESIGN.md section 7). Trusted base: the numpy knowledge base sa/npkb.py, Python's ast module, "
        "the rule tables in sa/rules. assert statements count as refusals; _safe_mode at its default.")

NOT_YET = "check not built yet (construction in progress); planned static rules are in DESIGN.md section 4"


def main():
    props = [json.loads(l)["id"] for l in open(os.path.join(VERIF, "properties.jsonl"))]
    checks, na = [], []
    for p in props:
        path = os.path.join(VERIF, "sa", "rules", p + ".py")
        if os.path.exists(path):
            mod = importlib.import_module("sa.rules." + p)
            checks.append({
                "property_id": p,
                "quick_cmd": "/venv/bin/python sa/run.py check %s --tier quick" % p,
                "thorough_cmd": "/venv/bin/python sa/run.py check %s --tier thorough" % p,
                "evidence_file": "/verif/evidence/%s.json" % p,
                "replay_cmd_template": "/venv/bin/python sa/run.py replay {path}",
                "engine": "sa",
                "level_claimed": {"category": "other", "text": mod.LEVEL_TEXT, "design_ref": "DESIGN.md section 4 (%s)" % p},
                "level_note": NOTE + " Assumptions of this check: " + "; ".join(mod.ASSUMPTIONS),
                "technique": TECH[p],
            })
        else:
            na.append({"property_id": p, "reason": NOT_YET})
    m = {
        "version": 1,
        "setup_cmd": "true",
        "hooks": {
            "guard": "NPSTRUCTURES_VERIF",
            "enable": "none needed: the checks are static analysis over /repo's sources; no hook or instrumentation commit exists",
            "baseline_off_cmd": "cd /repo && /venv/bin/python -m pytest -ra -q -p no:cacheprovider --timeout=900 --continue-on-collection-errors",
            "source_commits": [],
            "add_only": True,
        },
        "engines": [{"name": "sa", "path": "/verif/sa", "serves_properties": [c["property_id"] for c in checks],
                     "kind_free_text": "pure-stdlib Python static analyser specific to npstructures: program model, CFG, def-use terms, "
                                       "call graph, and the engines E1-E8 of DESIGN.md; run with /venv/bin/python; never imports /repo code"}],
        "checks": checks,
        "notes": "All checks are static analysis (family: static analysis). Exit 0 = every decided obligation holds; exit 1 + VIOLATION line = "
                 "definite structural breach not listed in known_findings.json; exit 2 = ANALYSIS-ERROR (vanished anchor / internal error).",
        "not_applicable": na,
    }
    json.dump(m, open(os.path.join(VERIF, "MANIFEST.json"), "w"), indent=1)
    print("claimed:", [c["property_id"] for c in checks], "na:", [n["property_id"] for n in na])


if __name__ == "__main__":
    main()
