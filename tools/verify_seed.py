#!/venv/bin/python
"""Confirm sub-agent seeded changes independently and import them into /verif/seeded/.

For each /tmp/seed_out/<Cxx>/m<k>/ : in a fresh scratch worktree of /repo HEAD (under /tmp, removed
afterwards) check that (1) the patch applies, (2) the pinned suite still passes with it, (3) the demo
fails with it, (4) the demo passes without it.  Only then copy to /verif/seeded/<Cxx>-m<k>/.
"""
import json
import os
import shutil
import subprocess
import sys
from concurrent.futures import ThreadPoolExecutor

SRC = sys.argv[1] if len(sys.argv) > 1 else "/tmp/seed_out"
DST = "/verif/seeded"
PY = "/venv/bin/python"
ROUND = os.environ.get("SEED_ROUND", "")     # e.g. r9 -> ids Cxx-r9m<k>


def run(cmd, cwd=None, env=None, timeout=900):
    e = dict(os.environ)
    if env:
        e.update(env)
    p = subprocess.run(cmd, cwd=cwd, env=e, capture_output=True, text=True, timeout=timeout)
    return p.returncode, (p.stdout + p.stderr)


def one(item):
    prop, mk, d = item
    sid = "%s-%s%s" % (prop, ROUND, mk)
    out = {"id": sid}
    patch = os.path.join(d, "patch.diff")
    demo = os.path.join(d, "demo.py")
    if not (os.path.exists(patch) and os.path.exists(demo)):
        out["status"] = "incomplete"
        return out
    wt = "/tmp/vs_%s" % sid
    run(["git", "-C", "/repo", "worktree", "remove", "--force", wt])
    rc, o = run(["git", "-C", "/repo", "worktree", "add", "-q", "--detach", wt, "HEAD"])
    try:
        rc0, o0 = run([PY, demo], cwd="/tmp", env={"PYTHONPATH": wt})
        out["demo_without"] = rc0
        rc, o = run(["git", "apply", patch], cwd=wt)
        if rc != 0:
            out["status"] = "patch does not apply: " + o[-200:]
            return out
        rc1, o1 = run([PY, "-m", "pytest", "-q", "-p", "no:cacheprovider", "--timeout=900"], cwd=wt)
        tail = o1.strip().splitlines()[-1] if o1.strip() else ""
        out["suite"] = tail
        rc2, o2 = run([PY, demo], cwd="/tmp", env={"PYTHONPATH": wt})
        out["demo_with"] = rc2
        out["demo_with_tail"] = o2.strip().splitlines()[-1][:200] if o2.strip() else ""
        ok = rc0 == 0 and rc1 == 0 and "141 passed" in tail and rc2 != 0
        out["status"] = "confirmed" if ok else "rejected"
        if ok:
            dd = os.path.join(DST, sid)
            os.makedirs(dd, exist_ok=True)
            shutil.copy(patch, os.path.join(dd, "patch.diff"))
            shutil.copy(demo, os.path.join(dd, "demo.py"))
            meta = {}
            mp = os.path.join(d, "meta.json")
            if os.path.exists(mp):
                try:
                    meta = json.load(open(mp))
                except Exception:
                    meta = {"raw": open(mp).read()}
            meta["id"] = sid
            meta["property"] = prop
            meta["confirmed_by"] = {
                "what_i_ran": "scratch worktree of /repo HEAD under /tmp: demo without patch (exit %d), git apply, pinned suite (%s), demo with patch (exit %d)" % (rc0, tail, rc2),
                "repo_head": subprocess.check_output(["git", "-C", "/repo", "rev-parse", "--short", "HEAD"], text=True).strip(),
            }
            json.dump(meta, open(os.path.join(dd, "meta.json"), "w"), indent=1)
    finally:
        run(["git", "-C", "/repo", "worktree", "remove", "--force", wt])
        shutil.rmtree(wt, ignore_errors=True)
    return out


def main():
    items = []
    only = set(sys.argv[2:])
    for prop in sorted(os.listdir(SRC)):
        pd = os.path.join(SRC, prop)
        if not os.path.isdir(pd):
            continue
        for mk in sorted(os.listdir(pd)):
            d = os.path.join(pd, mk)
            if os.path.isdir(d) and mk.startswith("m"):
                sid = "%s-%s%s" % (prop, ROUND, mk)
                if only and sid not in only and prop not in only:
                    continue
                if os.path.exists(os.path.join(DST, sid, "meta.json")) and not only:
                    continue
                items.append((prop, mk, d))
    with ThreadPoolExecutor(8) as ex:
        for r in ex.map(one, items):
            print(json.dumps(r))
    run(["git", "-C", "/repo", "worktree", "prune"])


if __name__ == "__main__":
    main()
