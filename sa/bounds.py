"""E8 - landmark intervals.  A bound is a*N + b with a in {-1,0,1} and small integer b, or +-inf, where N is
a symbolic non-negative length (a row length, an array length).  Values whose bounds cannot be ordered are
unknown (None); nothing unknown is ever reported."""
from .terms import T, alts, walk, attr_chain, np_call, is_const

INF = ("inf",)
NINF = ("-inf",)


MODE = ["any"]     # "any": N >= 0 ; "pos": N >= 1 ; "zero": N == 0 (N-terms evaluate to the constant 0)


class mode:
    def __init__(self, m):
        self.m = m

    def __enter__(self):
        self.old = MODE[0]
        MODE[0] = self.m

    def __exit__(self, *a):
        MODE[0] = self.old


def le(x, y):
    """x <= y for every admissible N ?  True / False (x > y for every N) / None"""
    if x is None or y is None:
        return None
    if x == NINF or y == INF:
        return True
    if x == INF or y == NINF:
        return True if x == y else False
    a1, b1 = x
    a2, b2 = y
    if a1 == a2:
        return b1 <= b2
    nmin = 1 if MODE[0] == "pos" else 0
    d = a2 - a1            # y - x = d*N + (b2 - b1)
    c = b2 - b1
    if d > 0:
        if d * nmin + c >= 0:
            return True
        return None
    # d < 0: y - x decreases with N
    if d * nmin + c < 0:
        return False
    return None


def bmin(x, y):
    r = le(x, y)
    if r is True:
        return x
    r2 = le(y, x)
    if r2 is True:
        return y
    return None


def bmax(x, y):
    r = le(x, y)
    if r is True:
        return y
    r2 = le(y, x)
    if r2 is True:
        return x
    return None


def add(x, c):
    if x in (INF, NINF) or x is None:
        return x
    return (x[0], x[1] + c)


def addb(x, y):
    if x is None or y is None:
        return None
    if x in (INF, NINF):
        return x if y not in (INF, NINF) or y == x else None
    if y in (INF, NINF):
        return y
    a = x[0] + y[0]
    if a not in (-1, 0, 1):
        return None
    return (a, x[1] + y[1])


def neg(x):
    if x is None:
        return None
    if x == INF:
        return NINF
    if x == NINF:
        return INF
    return (-x[0], -x[1])


def show(b):
    if b is None:
        return "?"
    if b == INF:
        return "+inf"
    if b == NINF:
        return "-inf"
    a, c = b
    s = {0: "", 1: "N", -1: "-N"}[a]
    if a == 0:
        return str(c)
    return s + ("%+d" % c if c else "")


class Intervals:
    def __init__(self, is_N, param_facts=None, fa=None, is_subject=None):
        """is_N(term) -> True when the term denotes the symbolic length N.
        param_facts: dict term-repr -> (lo, hi) refinements from dominating branch conditions.
        fa/is_subject: when given, each alternative of a phi is evaluated under the branch facts that
        dominate its defining statement (refinements of subject terms only)"""
        self.is_N = is_N
        self.refine = param_facts or {}
        self.fa = fa
        self.is_subject = is_subject

    def iv(self, t, depth=0):
        """(lo, hi) or None"""
        if depth > 30:
            return None
        rec = lambda x: self.iv(x, depth + 1)
        if self.is_N(t):
            return ((0, 0), (0, 0)) if MODE[0] == "zero" else ((1, 0), (1, 0))
        key = repr(t)
        if key in self.refine:
            return self.refine[key]
        k = t.k
        if k == "const":
            v = t.a[0]
            if isinstance(v, bool) or not isinstance(v, int):
                return None
            return ((0, v), (0, v))
        if k in ("phi", "ifexp"):
            parts = []
            for x in (t.a[0] if k == "phi" else (t.a[1], t.a[2])):
                if k == "phi" and self.fa is not None and self.is_subject is not None and x.node is not None:
                    node = self.fa.node_of(x.node)
                    if node is not None:
                        from .guards import facts_at
                        ref = refine_from_facts(facts_at(self.fa, node), self.is_subject)
                        if ref:
                            merged = dict(self.refine)
                            merged.update(ref)
                            parts.append(Intervals(self.is_N, merged, self.fa, self.is_subject).iv(x, depth + 1))
                            continue
                parts.append(rec(x))
            if any(p is None for p in parts):
                return None
            lo, hi = parts[0]
            for p in parts[1:]:
                lo = bmin(lo, p[0])
                hi = bmax(hi, p[1])
                if lo is None or hi is None:
                    return None
            return (lo, hi)
        if k == "bin" and t.a[0] in ("+", "-"):
            a, b = rec(t.a[1]), rec(t.a[2])
            if a is None or b is None:
                return None
            if t.a[0] == "-":
                b = (neg(b[1]), neg(b[0]))
            lo, hi = addb(a[0], b[0]), addb(a[1], b[1])
            if lo is None or hi is None:
                return None
            return (lo, hi)
        if k == "un" and t.a[0] == "-":
            a = rec(t.a[1])
            return None if a is None else (neg(a[1]), neg(a[0]))
        if k == "call":
            nm = np_call(t, {"minimum", "maximum", "where", "asanyarray", "asarray", "clip"})
            gl = t.a[0].a[0] if t.a[0].k == "global" else None
            args = t.a[1]
            if (nm in ("minimum",) or gl == "min") and len(args) == 2:
                a, b = rec(args[0]), rec(args[1])
                if a is None and b is None:
                    return None
                a = a or (NINF, INF)
                b = b or (NINF, INF)
                lo, hi = bmin(a[0], b[0]), bmin(a[1], b[1])
                if hi is None:
                    hi = b[1] if a[1] == INF else a[1]      # min(x, y) <= x and <= y: either bound is valid
                if lo is None:
                    return None
                return (lo, hi)
            if (nm in ("maximum",) or gl == "max") and len(args) == 2:
                a, b = rec(args[0]), rec(args[1])
                if a is None and b is None:
                    return None
                a = a or (NINF, INF)
                b = b or (NINF, INF)
                lo, hi = bmax(a[0], b[0]), bmax(a[1], b[1])
                if lo is None:
                    lo = b[0] if a[0] == NINF else a[0]     # max(x, y) >= x and >= y: either bound is valid
                if hi is None:
                    return None
                return (lo, hi)
            if nm == "where" and len(args) == 3:
                return self._where(args[0], args[1], args[2], depth)
            if nm in ("asanyarray", "asarray") and args:
                return rec(args[0])
            if gl == "int" and args:
                return rec(args[0])
            return None
        if k == "param":
            return (NINF, INF)
        if k == "attr" and t.a[1] in ("start", "stop"):
            return (NINF, INF)
        return None

    def _where(self, cond, a, b, depth):
        """np.where(x < 0, N + x, x)-style: refine x in each branch when the condition compares x with 0"""
        ra = rb = None
        if cond.k == "cmp" and cond.a[2].k == "const" and isinstance(cond.a[2].a[0], int):
            x, c, op = cond.a[1], cond.a[2].a[0], cond.a[0]
            base = self.iv(x, depth + 1) or (NINF, INF)
            if op == "<":
                t_iv, f_iv = (base[0], bmin(base[1], (0, c - 1)) or (0, c - 1)), (bmax(base[0], (0, c)) or (0, c), base[1])
            elif op == "<=":
                t_iv, f_iv = (base[0], bmin(base[1], (0, c)) or (0, c)), (bmax(base[0], (0, c + 1)) or (0, c + 1), base[1])
            elif op == ">=":
                f_iv, t_iv = (base[0], bmin(base[1], (0, c - 1)) or (0, c - 1)), (bmax(base[0], (0, c)) or (0, c), base[1])
            elif op == ">":
                f_iv, t_iv = (base[0], bmin(base[1], (0, c)) or (0, c)), (bmax(base[0], (0, c + 1)) or (0, c + 1), base[1])
            else:
                t_iv = f_iv = base
            ra = Intervals(self.is_N, dict(self.refine, **{repr(x): t_iv})).iv(a, depth + 1)
            rb = Intervals(self.is_N, dict(self.refine, **{repr(x): f_iv})).iv(b, depth + 1)
        else:
            ra, rb = self.iv(a, depth + 1), self.iv(b, depth + 1)
        if ra is None or rb is None:
            return None
        lo, hi = bmin(ra[0], rb[0]), bmax(ra[1], rb[1])
        if lo is None or hi is None:
            return None
        return (lo, hi)


def refine_from_facts(facts, is_subject):
    """dominating conditions `x < c`, `x >= c`, `x is None` on a subject term -> {repr(x): (lo, hi)}"""
    out = {}
    for t, truth, _ in facts:
        if t.k != "cmp" or not (t.a[2].k == "const" and isinstance(t.a[2].a[0], int) and not isinstance(t.a[2].a[0], bool)):
            continue
        x, c, op = t.a[1], t.a[2].a[0], t.a[0]
        if not is_subject(x):
            continue
        if not truth:
            op = {"<": ">=", "<=": ">", ">": "<=", ">=": "<", "==": "!=", "!=": "=="}.get(op, op)
        lo, hi = out.get(repr(x), (NINF, INF))
        if op == "<":
            hi = bmin(hi, (0, c - 1)) or hi
        elif op == "<=":
            hi = bmin(hi, (0, c)) or hi
        elif op == ">":
            lo = bmax(lo, (0, c + 1)) or lo
        elif op == ">=":
            lo = bmax(lo, (0, c)) or lo
        elif op == "==":
            lo, hi = (0, c), (0, c)
        out[repr(x)] = (lo, hi)
    return out
