"""C09 - column aggregates count every row that reaches the column, once.

Decided: the bincount operands are aligned (bins are the column offsets of the flat elements, weights the flat
data); dtype-case coverage of the column sum (bool / signed / unsigned / floating each get the cast numpy
uses); the divisor of the column mean is col_counts(); the licensing mask of get_column_values; geometry is read
only from a materialised array (E2).  Not decided: sums, the histogram-difference trick in col_counts.
"""
import ast
from ..lib import Toolkit
from ..guards import find_calls, facts_at, reachable_under, subject_dtype_of
from ..terms import alts, attr_chain, walk, is_const, call_name, np_call
from ..coherence import Coherence, report
from . import C05
from .. import wellformed as W

LEVEL_TEXT = ("static dtype-class feasibility analysis of the column-sum branches, operand-role rules for np.bincount (E5), "
              "divisor/branch agreement (E6), strictness of the column-licence mask (E8) and typestate (E2); a thin structural "
              "claim: necessary conditions of C09, not the sums")
ASSUMPTIONS = ["np.bincount(x, weights, minlength): x are bin indices, same length as weights",
               "numpy sums bool/signed integers in int64 and unsigned integers in uint64"]
MIN_OBLIGATIONS = 10
RA = "raggedarray.RaggedArray."


def check(ctx, tier):
    tk = Toolkit(ctx)
    column_sum(ctx, tk)
    C05.mean_rules(ctx, tk)
    for o in ctx.obligations:
        if o.rule == "C05.e":
            o.rule = "C09.b"
    col_counts(ctx, tk)
    from .. import viewrules
    viewrules.column_units(ctx, tk, "C09.f")
    viewrules.int_column_bounds(ctx, tk, "C09.f")
    from .. import layout
    layout.boundary_gather_rules(ctx, tk, "C09.d", [ctx.func("raggedarray.indexablearray.IndexableArray.get_column_values"), ctx.func(RA + "sum"), ctx.func(RA + "mean")])
    column_values(ctx, tk)
    coh = ctx.cached("coherence", lambda: Coherence(tk))
    fs = [RA + n for n in ("sum", "mean", "col_counts")] + ["raggedarray.indexablearray.IndexableArray.get_column_values"]
    report(coh, "C09.e", funcs=fs)
    W.report(ctx, tk, "C09.e", [ctx.func(q) for q in fs])
    tk.purity("C09.p", [ctx.func(q) for q in ['raggedarray.RaggedArray.sum', 'raggedarray.RaggedArray.mean', 'raggedarray.RaggedArray.col_counts', 'raggedarray.indexablearray.IndexableArray.get_column_values']], "the operation does not write into its operands' buffers", content_only=True)
    from .. import hazards as _hz, scopes as _sc
    _hz.generic(ctx, tk, "C09.z", _sc.scope(tk, "C09", depth=1))
    _hz.h27_positional_arguments_dropped(ctx, tk, "C09.z/H27", [f_ for f_ in (ctx.program.funcs.get(q_) for q_ in ['arrayfunctions.get_ra_func']) if f_ is not None])
    return {}


def column_sum(ctx, tk):
    f = ctx.func(RA + "sum")
    fa = ctx.fa(f)
    selfn = f.params[0]
    subj = subject_dtype_of(selfn)
    calls = find_calls(fa, lambda c: np_call(c, {"bincount"}))
    if not calls:
        ctx.unknown("C09.a", f, "column sums are accumulated with np.bincount over column offsets", "bincount not found", engine="E5")
        return
    for n, c in calls:
        bins = c.a[1][0] if c.a[1] else None
        kw = dict(c.a[2])
        w = kw.get("weights", c.a[1][1] if len(c.a[1]) > 1 else None)
        ml = kw.get("minlength", c.a[1][2] if len(c.a[1]) > 2 else None)
        # bins derive from the *column* component of unravel_multi_index(arange(size))
        base = bins
        masked = None
        if base is not None and base.k == "sub":
            masked = base.a[1]
            base = base.a[0]
        ok = None
        if base is not None and base.k == "item" and base.a[0].k == "call" and base.a[0].a[0].k == "attr" and base.a[0].a[0].a[1] == "unravel_multi_index":
            ok = base.a[1] == 1
            arg = base.a[0].a[1][0] if base.a[0].a[1] else None
            full = arg is not None and np_call(arg, {"arange"}) and arg.a[1] and arg.a[1][0].k == "attr" and arg.a[1][0].a[1] == "size"
            ctx.decide("C09.a", f, "column offsets are computed for every flat position 0..size-1", True if full else None, node=c.node, key="positions:%s" % c.lineno, engine="E5")
        ctx.decide("C09.a", f, "bincount bins are the column offsets (second component of the flat->(row, col) map)", ok,
                   "bins are the row numbers: the result would be row sums indexed by row", node=c.node, key="bins:%s" % ("mask" if w is None else "weights"), engine="E5")
        if w is not None:
            roots = any(x.k == "call" and x.a[0].k == "attr" and x.a[0].a[1] == "ravel" and attr_chain(x.a[0].a[0]) == (selfn,) for x in walk(w))
            ctx.decide("C09.a", f, "bincount weights are the flat data (same positions as the bins)", True if roots else None, node=c.node, key="weights", engine="E5")
        elif masked is not None:
            okm = masked.k == "call" and masked.a[0].k == "attr" and masked.a[0].a[1] == "ravel" and attr_chain(masked.a[0].a[0]) == (selfn,)
            ctx.decide("C09.a", f, "for booleans the bins of the true cells are counted (bins selected by the flat data)", True if okm else None, node=c.node, key="bool-mask", engine="E5")
        if ml is not None:
            okl = bool(np_call(ml, {"max", "amax"}) and ml.a[1] and (attr_chain(ml.a[1][0]) or ("",))[-1] == "lengths")
            ctx.decide("C09.a", f, "the result has one entry per column up to the longest row", True if okl else None, node=c.node, key="minlength:%s" % c.lineno, engine="E5")
        else:
            ctx.violated("C09.a", f, "the result has one entry per column up to the longest row", "bincount without minlength: trailing columns whose cells are all false/absent are dropped",
                         node=c.node, key="minlength:%s" % c.lineno, engine="E5")
    # dtype cases: which cast reaches the weighted bincount for each dtype kind
    wcalls = [(n, c) for n, c in calls if dict(c.a[2]).get("weights") is not None or len(c.a[1]) > 1]
    bcalls = [(n, c) for n, c in calls if (n, c) not in wcalls]
    want = {"signed": {"int64", "int", "int_", "intp", "longlong"}, "unsigned": {"uint64", "uint", "ulonglong"}}
    for kind in ("bool", "signed", "unsigned", "floating"):
        reach = reachable_under(fa, kind, subj)
        what = "column sum of %s data uses numpy's accumulator type" % kind
        if kind == "bool":
            okb = any(n.id in reach for n, _ in bcalls) and bcalls and not any(
                n.id in reachable_under(fa, kind, subj, avoid=[bn for bn, _ in bcalls]) for n, _ in wcalls)
            if not bcalls:
                # no dedicated bool branch: then bool must be widened like signed integers
                okb = None
            ctx.decide("C09.c", f, "boolean data is summed by counting its true cells per column", True if okb else (False if okb is False else None),
                       "boolean arrays reach the weighted bincount without being counted", key="dtype:bool", engine="E1")
            continue
        casts = set()
        for n in fa.cfg.stmts():
            if n.id in reach and n.kind == "stmt" and isinstance(n.ast, ast.Assign):
                for x in ast.walk(n.ast.value):
                    if isinstance(x, ast.Call) and isinstance(x.func, ast.Attribute) and x.func.attr == "astype" and x.args:
                        t = fa.term(x.args[0], n)
                        # evaluate the dtype operand under this kind: follow only reachable definitions
                        for a in alts(t):
                            if a.node is not None and fa.node_of(a.node) is not None and fa.node_of(a.node).id not in reach:
                                continue
                            nm = (attr_chain(a) or (None,))[-1] if a.k != "global" else a.a[0]
                            if a.k == "attr" and a.a[1] == "dtype":
                                nm = "same"
                            casts.add(nm)
        if kind == "floating":
            ctx.decide("C09.c", f, what, True if not (casts - {"same"}) else False, "floating data is cast to %s before summing" % sorted(casts - {"same"}),
                       key="dtype:floating", engine="E1")
        else:
            real = casts - {"same", None}
            ok = True if (real and real <= want[kind]) else (False if real and not (real & want[kind]) else (False if not real else None))
            ctx.decide("C09.c", f, what, ok, "%s data is accumulated as %s (numpy uses %s): %s" % (
                kind, sorted(real) or "its own narrow dtype", "uint64" if kind == "unsigned" else "int64",
                "values >= 2**63 turn negative" if kind == "unsigned" and real else "sums wrap or lose precision"), key="dtype:" + kind, engine="E1")


def col_counts(ctx, tk):
    f = ctx.func(RA + "col_counts")
    fa = ctx.fa(f)
    selfn = f.params[0]
    # counts[j] = n_rows - #(rows of length <= j):  -bincount(lengths); counts[0] += n_rows; cumsum; [:-1]
    steps = {"neg-hist": False, "plus-rows": False, "cumsum": False, "cut": False}
    for n in fa.cfg.stmts():
        if n.kind != "stmt":
            continue
        if isinstance(n.ast, ast.Assign):
            tm = fa.term(n.ast.value, n)
            if tm.k == "un" and tm.a[0] == "-" and np_call(tm.a[1], {"bincount"}) and tm.a[1].a[1] and (attr_chain(tm.a[1].a[1][0]) or ("",))[-1] == "lengths":
                steps["neg-hist"] = True
        if isinstance(n.ast, ast.AugAssign) and isinstance(n.ast.target, ast.Subscript) and isinstance(n.ast.op, ast.Add):
            idx = n.ast.target.slice
            val = fa.term(n.ast.value, n)
            if isinstance(idx, ast.Constant) and idx.value == 0 and ((val.k == "call" and call_name(val) == "len") or (attr_chain(val) or ("",))[-1] == "n_rows"):
                steps["plus-rows"] = True
        if isinstance(n.ast, ast.Expr):
            tm = fa.term(n.ast.value, n)
            if np_call(tm, {"cumsum"}) and "out" in dict(tm.a[2]):
                steps["cumsum"] = True
        if isinstance(n.ast, ast.Return):
            tm = fa.term(n.ast.value, n)
            if tm.k == "sub" and tm.a[1].k == "slice" and is_const(tm.a[1].a[1], -1) and is_const(tm.a[1].a[0], None):
                steps["cut"] = True
    ok = all(steps.values())
    ctx.decide("C09.d", f, "col_counts is n_rows minus the running histogram of row lengths, cut to the longest row", True if ok else None,
               "steps recognised: %s" % steps, key="col_counts", engine="E6")


def column_values(ctx, tk):
    f = ctx.func("raggedarray.indexablearray.IndexableArray.get_column_values")
    fa = ctx.fa(f)
    colp = f.params[1]
    for r in fa.cfg.returns():
        tm = fa.term(r.ast.value, r)
        what = "column j is read from exactly the rows with more than j elements"
        ok = None
        if tm.k == "sub" and tm.a[1].k == "tuple" and len(tm.a[1].a[0]) == 2:
            mask, col = tm.a[1].a[0]
            if mask.k == "cmp" and col.k == "param" and col.a[0] == colp:
                op, l, rr = mask.a
                if rr.k == "param" and rr.a[0] == colp:
                    ok = op == ">"
                elif l.k == "param" and l.a[0] == colp:
                    ok = op == "<"
                if ok is False and op in (">=", "<="):
                    pass
        ctx.decide("C09.d", f, what, ok, "row licence is %s: rows of length exactly j are included and the column index is refused / reads a neighbour" % (tm,),
                   node=r.ast, key="licence", engine="E8")
