"""Generate mutants of live functions of npstructures, by category. Output: mutants.json
Each mutant: {id, cat, file, func, line, desc, src} where src is the whole mutated module text."""
import ast, copy, json, pathlib, sys
ROOT = pathlib.Path("/repo/npstructures")
DEAD = {"simple_build_indices","c_extract_segments","native_extract_segments","view_cols","_build_indices","row_slice",
        "_RunLengthArray__apply_binary_func","__apply_binary_func","__from_intervals","_reduce_invertable","__get_col_reverse",
        "std","cumprod","_IndexableArray__build_data_from_indices_generator","__build_data_from_indices_generator",
        "bincount2d","as_strided","unsafe_extend_right_2d","set_backend","__repr__","__str__","_proper_repr","__dir__","__getattr__"}
FILES = ["raggedshape.py","raggedarray/__init__.py","raggedarray/base.py","raggedarray/indexablearray.py","raggedarray/raggedslice.py",
         "arrayfunctions.py","hashtable.py","bitarray.py","runlengtharray.py","npdataclasses.py","mixin.py","util.py"]
ATTR_SWAP = {"starts":["ends","lengths"],"ends":["starts"],"lengths":["starts"],"_indices":["_values"],"_values":["_indices"],
             "_events":["_values"],"_starts":["_ends"],"_keys":["_values"]}
CMP = {ast.Eq:[ast.NotEq], ast.NotEq:[ast.Eq], ast.Lt:[ast.LtE, ast.Gt], ast.LtE:[ast.Lt], ast.Gt:[ast.GtE, ast.Lt], ast.GtE:[ast.Gt]}
AOR = {ast.Add:[ast.Sub], ast.Sub:[ast.Add], ast.Mult:[ast.FloorDiv], ast.FloorDiv:[ast.Mult, ast.Mod], ast.Mod:[ast.FloorDiv],
       ast.LShift:[ast.RShift], ast.RShift:[ast.LShift], ast.BitOr:[ast.BitAnd], ast.BitAnd:[ast.BitOr], ast.BitXor:[ast.BitOr]}
WRAPPERS = {"copy","maximum","minimum","ascontiguousarray","atleast_1d","unsafe_extend_left","unsafe_extend_right","abs","join_runs","remove_empty_intervals","flatnonzero"}
out = []
def unreachable_after(body):
    # indexes of statements after an unconditional return/raise in same block
    dead=set(); hit=False
    for i,s in enumerate(body):
        if hit: dead.add(id(s))
        if isinstance(s,(ast.Return, ast.Raise)): hit=True
    return dead
for rel in FILES:
    text = (ROOT/rel).read_text()
    tree = ast.parse(text)
    funcs = []
    for node in ast.walk(tree):
        if isinstance(node, ast.FunctionDef) and node.name not in DEAD:
            funcs.append(node)
    # collect dead statement ids
    deadids=set()
    for node in ast.walk(tree):
        for fld in ("body","orelse","finalbody"):
            b = getattr(node, fld, None)
            if isinstance(b, list): deadids |= unreachable_after(b)
    def in_dead(n, parents):
        return any(id(p) in deadids for p in parents)
    # enumerate mutation points with a path so we can re-find them in a deepcopy: use (lineno,col,type) keys
    def key(n): return (type(n).__name__, getattr(n,"lineno",None), getattr(n,"col_offset",None), getattr(n,"end_lineno",None), getattr(n,"end_col_offset",None))
    points = []
    for fn in funcs:
        # skip nested duplicates: only direct walk but mark function name by innermost
        stack=[(fn,[])]
        def walk(n, parents, fname):
            for ch in ast.iter_child_nodes(n):
                if isinstance(ch, ast.FunctionDef) and ch is not fn:
                    continue
                if id(ch) in deadids: continue
                yield ch, parents+[n]
                yield from walk(ch, parents+[n], fname)
        for n, parents in walk(fn, [], fn.name):
            if isinstance(n, ast.Expr) and isinstance(n.value, ast.Constant): continue  # docstring
            if isinstance(n, (ast.Expr, ast.Assign, ast.AugAssign)) :
                cat = "SDL"
                if isinstance(n, ast.Expr) and isinstance(n.value, ast.Call) and isinstance(n.value.func, ast.Attribute) and n.value.func.attr in ("ravel","_flatten_myself"):
                    cat = "SDL-mat"
                points.append((cat, fn.name, key(n), "delete "+ast.unparse(n)[:60], None))
            if isinstance(n, ast.Assert):
                points.append(("SDL-assert", fn.name, key(n), "delete "+ast.unparse(n)[:60], None))
            if isinstance(n, ast.Raise):
                points.append(("SDL-raise", fn.name, key(n), "raise->pass "+ast.unparse(n)[:50], None))
            if isinstance(n, ast.Call) and len(n.args)>=2 and not any(isinstance(a, ast.Starred) for a in n.args[:2]):
                points.append(("ARGSWAP", fn.name, key(n), "swap args "+ast.unparse(n)[:60], None))
            if isinstance(n, ast.Tuple) and len(n.elts)==2 and isinstance(n.ctx, ast.Load) and parents and isinstance(parents[-1], ast.Call):
                points.append(("TUPSWAP", fn.name, key(n), "swap tuple "+ast.unparse(n)[:60], None))
            if isinstance(n, ast.Attribute) and n.attr in ATTR_SWAP and isinstance(n.ctx, ast.Load):
                for alt in ATTR_SWAP[n.attr]:
                    points.append(("ATTR", fn.name, key(n), f"{ast.unparse(n)} -> .{alt}", alt))
            if isinstance(n, ast.Compare) and len(n.ops)==1 and type(n.ops[0]) in CMP:
                for alt in CMP[type(n.ops[0])]:
                    points.append(("CMP", fn.name, key(n), f"{ast.unparse(n)[:50]} -> {alt.__name__}", alt))
            if isinstance(n, ast.UnaryOp) and isinstance(n.op, ast.Not):
                points.append(("NOT", fn.name, key(n), f"drop not: {ast.unparse(n)[:50]}", None))
            if isinstance(n, ast.BinOp) and type(n.op) in AOR:
                for alt in AOR[type(n.op)]:
                    points.append(("AOR", fn.name, key(n), f"{ast.unparse(n)[:50]} -> {alt.__name__}", alt))
            if isinstance(n, ast.Constant) and isinstance(n.value, int) and not isinstance(n.value, bool) and -2 <= n.value <= 8:
                for alt in ({0:[1], 1:[0,2], -1:[0,-2], 2:[1,3]}.get(n.value, [n.value+1])):
                    points.append(("CONST", fn.name, key(n), f"{n.value} -> {alt}", alt))
            if isinstance(n, ast.keyword) and n.arg=="side" and isinstance(n.value, ast.Constant):
                points.append(("SIDE", fn.name, key(n.value), f"side {n.value.value} flip", "left" if n.value.value=="right" else "right"))
            if isinstance(n, ast.Call):
                f=n.func; nm = f.attr if isinstance(f, ast.Attribute) else (f.id if isinstance(f, ast.Name) else None)
                if nm in WRAPPERS and (n.args or isinstance(f, ast.Attribute)):
                    points.append(("UNWRAP", fn.name, key(n), f"unwrap {ast.unparse(n)[:60]}", nm))
            if isinstance(n, ast.Subscript) and isinstance(n.slice, ast.Slice):
                s=n.slice
                if s.lower is None and s.upper is None and isinstance(s.step,(ast.UnaryOp)):
                    points.append(("REV", fn.name, key(n), f"drop reverse {ast.unparse(n)[:50]}", None))
                if s.step is None and s.lower is None and isinstance(s.upper, ast.UnaryOp):  # [:-1]
                    points.append(("SHIFT", fn.name, key(n), f"{ast.unparse(n)[:50]} [:-1]->[1:]", "lo"))
                if s.step is None and s.upper is None and isinstance(s.lower, ast.Constant) and s.lower.value==1:
                    points.append(("SHIFT", fn.name, key(n), f"{ast.unparse(n)[:50]} [1:]->[:-1]", "hi"))
    for cat, fname, k, desc, alt in points:
        t2 = copy.deepcopy(tree)
        target=None
        for n in ast.walk(t2):
            if key(n)==k: target=n; break
        if target is None: continue
        class Rep(ast.NodeTransformer):
            def generic_visit(self, node):
                return super().generic_visit(node)
            def visit(self, node):
                if node is target:
                    return mutate(node)
                return super().visit(node)
        def mutate(node):
            if cat.startswith("SDL"):
                return ast.Pass()
            if cat=="ARGSWAP":
                node.args[0], node.args[1] = node.args[1], node.args[0]; return node
            if cat=="TUPSWAP":
                node.elts[0], node.elts[1] = node.elts[1], node.elts[0]; return node
            if cat=="ATTR": node.attr = alt; return node
            if cat=="CMP": node.ops=[alt()]; return node
            if cat=="NOT": return node.operand
            if cat=="AOR": node.op = alt(); return node
            if cat in ("CONST","SIDE"): node.value = alt; return node
            if cat=="UNWRAP":
                if node.args: return node.args[0]
                return node.func.value
            if cat=="REV": return node.value
            if cat=="SHIFT":
                if alt=="lo": node.slice = ast.Slice(lower=ast.Constant(1), upper=None, step=None)
                else: node.slice = ast.Slice(lower=None, upper=ast.UnaryOp(ast.USub(), ast.Constant(1)), step=None)
                return node
            return node
        t3 = Rep().visit(t2)
        ast.fix_missing_locations(t3)
        try:
            src = ast.unparse(t3)
            compile(src, rel, "exec")
        except Exception as e:
            continue
        out.append(dict(id=len(out), cat=cat, file=rel, func=fname, line=k[1], desc=desc, src=src))
json.dump(out, open("mutants.json","w"))
import collections
print(len(out), collections.Counter(m["cat"] for m in out))
