#!/venv/bin/python
"""Fast false-alarm screen for freshly added hazard / property rules: apply every behaviour-preserving change of
/verif/equivalent to a scratch copy of the package (under /tmp, removed afterwards) and run ONLY the rules named in RULES over
ALL functions of the program (a superset of every property's scope).  Prints each alarm; exit 1 when there is one.
The full tools/try_equivalent.py run remains the reference."""
import os
import shutil
import subprocess
import sys
import tempfile
from concurrent.futures import ProcessPoolExecutor
sys.path.insert(0, "/verif")
sys.setrecursionlimit(10000)


def one(eid):
    from sa.core import Ctx
    from sa.lib import Toolkit
    from sa import hazards as H
    tmp = tempfile.mkdtemp(prefix="sn_", dir="/tmp")
    try:
        shutil.copytree("/repo/npstructures", os.path.join(tmp, "npstructures"), ignore=shutil.ignore_patterns("__pycache__"))
        if eid != "CLEAN":
            p = subprocess.run(["patch", "-p1", "-s", "-i", "/verif/equivalent/%s/patch.diff" % eid], cwd=tmp, capture_output=True, text=True)
            if p.returncode != 0:
                return eid, ["PATCH-FAILED"]
        ctx = Ctx(tmp)
        tk = Toolkit(ctx)
        fs = [f for _q, f in sorted(ctx.program.funcs.items())]
        H.h34_shallow_copy_keeps_memos(ctx, tk, "S/H34", fs)
        H.h62_positions_in_a_narrow_type(ctx, tk, "S/H62", fs)
        H.h64_memo_handed_to_a_derived_object(ctx, tk, "S/H64", fs)
        H.h65_selector_cast_to_index_dtype(ctx, tk, "S/H65", fs)
        H.h66_key_dtype_as_value_dtype(ctx, tk, "S/H66", fs)
        H.h67_reshape_inferred_dimension(ctx, tk, "S/H67", fs)
        H.h68_input_normalised_in_one_width_branch(ctx, tk, "S/H68", fs)
        from sa.rules import C14, C15, C17
        C14.encoder_keeps_element_type(ctx, tk)
        C15.mask_branch_is_bool_only(ctx, tk)
        for q in ("raggedarray.RaggedArray.argmax", "raggedarray.RaggedArray.argmin"):
            C17.first_match(ctx, "S/first", ctx.func(q))
        return eid, ["%s %s:%s %s -- %s" % (o.rule, o.file, o.line, o.func, o.detail[:140]) for o in ctx.obligations if o.status == "violated"]
    except Exception as e:     # noqa
        return eid, ["ERROR %r" % (e,)]
    finally:
        shutil.rmtree(tmp, ignore_errors=True)


if __name__ == "__main__":
    ids = ["CLEAN"] + sorted(d for d in os.listdir("/verif/equivalent") if os.path.isdir("/verif/equivalent/" + d))
    bad = 0
    with ProcessPoolExecutor(16) as ex:
        for eid, al in ex.map(one, ids):
            for a in al:
                bad += 1
                print(eid, a)
    print("screened %d trees, %d alarms" % (len(ids), bad))
    sys.exit(1 if bad else 0)
