import numpy as np, warnings
warnings.simplefilter("ignore")
import npstructures; assert "scratch" in npstructures.__file__
from npstructures import RaggedArray, RaggedShape
from npstructures.raggedshape import ViewBase
from npstructures.runlengtharray import RunLengthArray, RunLength2dArray
def t(label, f, exp=None):
    try:
        r = f(); r = r.tolist() if hasattr(r, "tolist") else r
        print(("OK  " if exp is None or r == exp else "BAD ") + label, "->", r, "" if exp is None else f"(exp {exp})")
    except Exception as e:
        print(("OK  " if exp == "raise" else "BAD ") + label, "-> EXC", type(e).__name__, str(e)[:80])
ra = RaggedArray([[0,1,2],[3,4],[5,6,7,8],[9]])
mask = RaggedArray([[False, True],[True,False,False,True]])
t("F1 argmax", lambda: ra.argmax(axis=-1), [2,1,3,0])
t("F1 argmin", lambda: ra.argmin(axis=-1), [0,0,0,0])
t("F2 ra[1:3][0]", lambda: ra[1:3][0], [3,4])
t("F2 ra[:, ::2][2]", lambda: ra[:, ::2][2], [5,7])
t("F3 ra[:, ::2][0,1]", lambda: ra[:, ::2][0,1], 2)
t("F4 ra[1:3][mask]", lambda: ra[1:3][mask], [4,5,8])
t("F5 ra[1:3][...]", lambda: ra[1:3][...], [[3,4],[5,6,7,8]])
t("F5 ra[1:3][()]", lambda: ra[1:3][()], [[3,4],[5,6,7,8]])
t("F6 ra[1:3].sum(axis=0)", lambda: ra[1:3].sum(axis=0), [8,10,7,8])
t("F7 ra[[2,1]].as_padded_matrix()", lambda: ra[[2,1]].as_padded_matrix(), [[5,6,7,8],[3,4,0,0]])
rb = RaggedArray([[0,1,2],[5,6,7,8]])
t("F8 rb[:, ::2][:, 1]", lambda: rb[:, ::2][:, 1], [2,7])
t("F8 rb[:, ::-1][:, 1]", lambda: rb[:, ::-1][:, 1], [1,7])
t("F8 rb[:, ::2][:, -2]", lambda: rb[:, ::2][:, -2], [0,5])
t("F8 rb[:, ::-1][:, -1]", lambda: rb[:, ::-1][:, -1], [0,5])
t("F8 rb[:, 1]", lambda: rb[:, 1], [1,6])
t("F8 rb[:, -1]", lambda: rb[:, -1], [2,8])
t("F9 ra[1,-3]", lambda: ra[1,-3], "raise")
t("F9 ra[1,-2]", lambda: ra[1,-2], 3)
t("F10 ra[:, -4]", lambda: ra[:, -4], "raise")
t("F10 rb[:, -3]", lambda: rb[:, -3], [0,6])
rc = RaggedArray([[1,2],[],[3],[]])
t("F11 add.accumulate", lambda: np.add.accumulate(rc, axis=-1), [[1,3],[],[3],[]])
t("F11 subtract.accumulate", lambda: np.subtract.accumulate(RaggedArray([[5,2,1],[],[3,1],[]]), axis=-1), [[5,3,2],[],[3,2],[]])
t("F11 xor.accumulate all empty", lambda: np.bitwise_xor.accumulate(RaggedArray([[],[]], dtype=int), axis=-1), [[],[]])
m = RunLength2dArray.from_array(np.array([[1,1,2],[3,3,3]]))
t("F12 5 - m", lambda: (5 - m).to_array(), [[4,4,3],[2,2,2]])
t("F12 m - 5", lambda: (m - 5).to_array(), [[-4,-4,-3],[-2,-2,-2]])
RaggedShape.set_dtype(np.int32)
try:
    r32 = RaggedArray([[0,1,2],[3,4],[5,6,7,8],[9]])
    t("F13 r32[::2]", lambda: r32[::2], [[0,1,2],[5,6,7,8]])
    t("F13 r32[::-1]", lambda: r32[::-1], [[9],[5,6,7,8],[3,4],[0,1,2]])
    t("F14 r32[1:3]", lambda: r32[1:3], [[3,4],[5,6,7,8]])
    t("F14 r32[[0,2],1:]", lambda: r32[[0,2],1:], [[1,2],[6,7,8]])
finally:
    ViewBase.set_dtype(np.int64)
