#!/venv/bin/python
"""Run the registered checks against every kept seeded change (scratch copy of /repo's package under
/tmp, removed afterwards; /repo itself is never touched).  Prints a detection matrix and writes
/verif/seeded/RESULTS.json.   usage: try_seeded.py [ids...] [--props C01,C02] [--merge]"""
import json
import os
import shutil
import subprocess
import sys
import tempfile
from concurrent.futures import ThreadPoolExecutor

VERIF = "/verif"
PY = "/venv/bin/python"


def available_props():
    d = os.path.join(VERIF, "sa", "rules")
    return sorted(f[:-3] for f in os.listdir(d) if f.startswith("C") and f.endswith(".py"))


def one(args):
    sid, props = args
    sd = os.path.join(VERIF, "seeded", sid)
    tmp = tempfile.mkdtemp(prefix="ts_%s_" % sid, dir="/tmp")
    try:
        shutil.copytree("/repo/npstructures", os.path.join(tmp, "npstructures"),
                        ignore=shutil.ignore_patterns("__pycache__"))
        p = subprocess.run(["patch", "-p1", "-s", "-i", os.path.join(sd, "patch.diff")], cwd=tmp, capture_output=True, text=True)
        if p.returncode != 0:
            return sid, {"error": "patch failed: " + (p.stdout + p.stderr)[-200:]}
        res = {}
        env = dict(os.environ, VERIF_EVIDENCE_DIR=os.path.join(tmp, "ev"))
        for prop in props:
            q = subprocess.run([PY, os.path.join(VERIF, "sa", "run.py"), "check", prop, "--root", tmp],
                               capture_output=True, text=True, env=env, cwd=VERIF)
            viol = [l.strip() for l in q.stdout.splitlines() if l.strip().startswith("VIOLATED")]
            res[prop] = {"rc": q.returncode, "violated": viol[:4]}
            if q.returncode == 2:
                res[prop]["err"] = q.stdout[-300:]
        return sid, res
    finally:
        shutil.rmtree(tmp, ignore_errors=True)


def main():
    argv = sys.argv[1:]
    props = available_props()
    ids = []
    merge = False
    i = 0
    while i < len(argv):
        if argv[i] == "--merge":
            merge = True
            i += 1
        elif argv[i] == "--props":
            props = argv[i + 1].split(",")
            i += 2
        else:
            ids.append(argv[i])
            i += 1
    all_ids = sorted(d for d in os.listdir(os.path.join(VERIF, "seeded")) if os.path.isdir(os.path.join(VERIF, "seeded", d)))
    if ids:
        all_ids = [d for d in all_ids if d in ids or d.split("-")[0] in ids]
    out = {}
    with ThreadPoolExecutor(14) as ex:
        for sid, res in ex.map(one, [(d, props) for d in all_ids]):
            out[sid] = res
            if "error" in res:
                print(sid, res["error"])
                continue
            fired = [p for p, r in res.items() if r["rc"] == 1]
            errs = [p for p, r in res.items() if r["rc"] == 2]
            own = sid.split("-")[0]
            mark = "CAUGHT" if fired else "missed"
            print("%-8s %-7s by=%s%s" % (sid, mark, ",".join(fired) or "-", (" ERR=" + ",".join(errs)) if errs else ""))
            for p in fired[:2]:
                for v in res[p]["violated"][:1]:
                    print("           %s" % v[:230])
    rp = os.path.join(VERIF, "seeded", "RESULTS.json")
    if not ids:
        json.dump(out, open(rp, "w"), indent=1)
    elif merge and props == available_props():
        # a run over some changes with every check: replace just their rows
        full = json.load(open(rp)) if os.path.exists(rp) else {}
        full.update(out)
        json.dump(dict(sorted(full.items())), open(rp, "w"), indent=1)
    n = sum(1 for r in out.values() if any(v.get("rc") == 1 for v in r.values() if isinstance(v, dict)))
    print("caught %d / %d" % (n, len(out)))


if __name__ == "__main__":
    main()
