"""E0 - reaching definitions and symbolic def-use expansion ("terms").

A term is the value expression of an AST expression at a program point, with
local names replaced by the expansion of their reaching definitions (phi when
several reach).  Rules are written against terms, so renaming a local,
inlining or extracting a temporary, or reordering independent statements does
not change what a rule sees.
"""
import ast
from .cfg import CFG

BINOPS = {ast.Add: "+", ast.Sub: "-", ast.Mult: "*", ast.Div: "/", ast.FloorDiv: "//",
          ast.Mod: "%", ast.Pow: "**", ast.LShift: "<<", ast.RShift: ">>", ast.BitOr: "|",
          ast.BitXor: "^", ast.BitAnd: "&", ast.MatMult: "@"}
UNOPS = {ast.Invert: "~", ast.Not: "not", ast.UAdd: "+", ast.USub: "-"}
CMPOPS = {ast.Eq: "==", ast.NotEq: "!=", ast.Lt: "<", ast.LtE: "<=", ast.Gt: ">", ast.GtE: ">=",
          ast.Is: "is", ast.IsNot: "is not", ast.In: "in", ast.NotIn: "not in"}


FLIP = {"==": "==", "!=": "!=", "<": ">", ">": "<", "<=": ">=", ">=": "<=", "is": "is", "is not": "is not"}


class T:
    """immutable term; k = kind, a = tuple of children / payload, node = originating ast"""
    __slots__ = ("k", "a", "node", "_h")

    def __init__(self, k, a=(), node=None):
        self.k = k
        self.a = tuple(a)
        self.node = node
        self._h = None

    def __eq__(self, o):
        return isinstance(o, T) and self.k == o.k and self.a == o.a

    def __hash__(self):
        if self._h is None:
            try:
                self._h = hash((self.k, self.a))
            except TypeError:
                self._h = hash((self.k, len(self.a)))
        return self._h

    @property
    def lineno(self):
        return getattr(self.node, "lineno", 0)

    def __repr__(self):
        return show(self)


def subst(t, mapping):
    """replace parameter terms by the terms in `mapping` (name -> T) throughout t"""
    def rec(x):
        if isinstance(x, T):
            if x.k == "param" and x.a and x.a[0] in mapping:
                return mapping[x.a[0]]
            return T(x.k, tuple(rec(y) for y in x.a), x.node)
        if isinstance(x, tuple):
            return tuple(rec(y) for y in x)
        if isinstance(x, list):
            return [rec(y) for y in x]
        return x
    return rec(t)


def show(t, depth=0):
    if not isinstance(t, T):
        return repr(t)
    if depth > 6:
        return "..."
    k, a = t.k, t.a
    s = lambda x: show(x, depth + 1)
    if k == "const":
        return repr(a[0])
    if k in ("param", "global", "free"):
        return a[0]
    if k == "attr":
        return "%s.%s" % (s(a[0]), a[1])
    if k == "call":
        args = [s(x) for x in a[1]] + ["%s=%s" % (n, s(v)) for n, v in a[2]]
        return "%s(%s)" % (s(a[0]), ", ".join(args))
    if k == "bin":
        return "(%s %s %s)" % (s(a[1]), a[0], s(a[2]))
    if k == "un":
        return "(%s %s)" % (a[0], s(a[1]))
    if k == "cmp":
        return "(%s %s %s)" % (s(a[1]), a[0], s(a[2]))
    if k == "bool":
        return "(" + (" %s " % a[0]).join(s(x) for x in a[1]) + ")"
    if k == "sub":
        return "%s[%s]" % (s(a[0]), s(a[1]))
    if k == "slice":
        return ":".join("" if (x.k == "const" and x.a[0] is None) else s(x) for x in a)
    if k in ("tuple", "list", "set"):
        return ("(%s)" if k == "tuple" else "[%s]") % ", ".join(s(x) for x in a[0])
    if k == "phi":
        return "phi(" + " | ".join(s(x) for x in a[0]) + ")"
    if k == "elem":
        return "elem(%s)" % s(a[0])
    if k == "item":
        return "%s.%s" % (s(a[0]), a[1])
    if k == "upd":
        return "upd(%s)[%s]%s=%s" % (s(a[0]), s(a[1]), a[3] or "", s(a[2]))
    if k == "ifexp":
        return "(%s if %s else %s)" % (s(a[1]), s(a[0]), s(a[2]))
    if k == "star":
        return "*" + s(a[0])
    if k == "comp":
        return "<%s %s for %s>" % (a[0], s(a[1]), ", ".join(s(x) for x in a[2]))
    if k == "unk":
        return "?" + str(a[0])
    return "%s%r" % (k, a)


def const(v, node=None):
    return T("const", (v,), node)


NONE = const(None)


class Def:
    """one definition of a local name"""
    __slots__ = ("name", "node", "kind", "payload", "idx")

    def __init__(self, name, node, kind, payload=None, idx=None):
        self.name = name
        self.node = node          # CFG node
        self.kind = kind          # param | assign | aug | substore | for | with | except | import | def | unpack
        self.payload = payload
        self.idx = idx


def target_names(t):
    if isinstance(t, ast.Name):
        return [t.id]
    if isinstance(t, (ast.Tuple, ast.List)):
        r = []
        for e in t.elts:
            r += target_names(e)
        return r
    if isinstance(t, ast.Starred):
        return target_names(t.value)
    return []


def base_name(t):
    """for a Subscript/Attribute store target return the root Name (x in x[i].a[j])"""
    while isinstance(t, (ast.Subscript, ast.Attribute)):
        t = t.value
    return t.id if isinstance(t, ast.Name) else None


class FuncAnalysis:
    """CFG + reaching definitions + term expansion for one function"""

    def __init__(self, func, program=None):
        self.func = func
        self.program = program
        self.cfg = CFG(func.node)
        self.params = func.all_params()
        self._collect_defs()
        self._reaching()
        self._memo = {}
        self._stack = set()

    # -- definitions -------------------------------------------------------
    def _collect_defs(self):
        self.defs_at = {}          # cfg node id -> [Def]
        self.locals = set(self.params)
        for n in self.cfg.nodes:
            ds = []
            st = n.ast
            if n.kind == "stmt":
                if isinstance(st, ast.Assign):
                    for t in st.targets:
                        ds += self._target_defs(t, n, st.value)
                elif isinstance(st, ast.AnnAssign) and st.value is not None:
                    ds += self._target_defs(st.target, n, st.value)
                elif isinstance(st, ast.AugAssign):
                    if isinstance(st.target, ast.Name):
                        ds.append(Def(st.target.id, n, "aug", st))
                    else:
                        b = base_name(st.target)
                        if b and isinstance(st.target, ast.Subscript) and isinstance(st.target.value, ast.Name):
                            ds.append(Def(b, n, "substore", st))
                elif isinstance(st, (ast.Import, ast.ImportFrom)):
                    for a in st.names:
                        ds.append(Def((a.asname or a.name).split(".")[0], n, "import", st))
                elif isinstance(st, (ast.FunctionDef, ast.AsyncFunctionDef, ast.ClassDef)):
                    ds.append(Def(st.name, n, "def", st))
                # walrus in any expression statement
                for w in _walrus(st):
                    ds.append(Def(w.target.id, n, "assign", w.value))
            elif n.kind == "test":
                for w in _walrus(st):
                    ds.append(Def(w.target.id, n, "assign", w.value))
            elif n.kind == "edge" and n.info[0].kind == "for" and n.info[1] is True:
                f = n.info[0].ast
                for nm in target_names(f.target):
                    ds.append(Def(nm, n, "for", f))
            elif n.kind == "with":
                for it in st.items:
                    if it.optional_vars is not None:
                        for nm in target_names(it.optional_vars):
                            ds.append(Def(nm, n, "with", it))
            elif n.kind == "handler":
                if st.name:
                    ds.append(Def(st.name, n, "except", st))
            if ds:
                self.defs_at[n.id] = ds
                for d in ds:
                    if d.kind != "substore":
                        self.locals.add(d.name)
        # names declared global/nonlocal are not locals
        for st in ast.walk(self.func.node):
            if isinstance(st, (ast.Global, ast.Nonlocal)):
                for nm in st.names:
                    self.locals.discard(nm)
        # a subscript store into a name that is never bound locally updates a global / free variable
        for nid in list(self.defs_at):
            self.defs_at[nid] = [d for d in self.defs_at[nid] if d.kind != "substore" or d.name in self.locals]
            if not self.defs_at[nid]:
                del self.defs_at[nid]

    def _target_defs(self, t, n, value):
        if isinstance(t, ast.Name):
            return [Def(t.id, n, "assign", value)]
        if isinstance(t, (ast.Tuple, ast.List)):
            out = []
            for i, e in enumerate(t.elts):
                if isinstance(e, ast.Name):
                    out.append(Def(e.id, n, "unpack", value, (i, len(t.elts))))
                elif isinstance(e, (ast.Tuple, ast.List)):
                    for nm in target_names(e):
                        out.append(Def(nm, n, "unpack", value, None))
                elif isinstance(e, ast.Starred):
                    for nm in target_names(e):
                        out.append(Def(nm, n, "unpack", value, None))
                elif isinstance(e, ast.Subscript) and isinstance(e.value, ast.Name):
                    out.append(Def(e.value.id, n, "substore", ast.Assign(targets=[e], value=ast.Constant(value=None)), None))
            return out
        if isinstance(t, ast.Subscript) and isinstance(t.value, ast.Name):
            return [Def(t.value.id, n, "substore", ast.Assign(targets=[t], value=value))]
        return []

    def _reaching(self):
        cfg = self.cfg
        order = cfg.rpo()
        entry_defs = {p: frozenset([Def(p, cfg.entry, "param")]) for p in self.params}
        self.param_defs = {p: next(iter(v)) for p, v in entry_defs.items()}
        IN = {n.id: {} for n in order}
        OUT = {n.id: {} for n in order}
        OUT[cfg.entry.id] = dict(entry_defs)
        changed = True
        while changed:
            changed = False
            for n in order:
                if n is cfg.entry:
                    continue
                m = {}
                for p in n.pred:
                    if p.id not in OUT:
                        continue
                    for k, v in OUT[p.id].items():
                        if k in m:
                            if m[k] is not v:
                                m[k] = m[k] | v
                        else:
                            m[k] = v
                # a name missing on one predecessor = "maybe undefined" there; tracked separately
                IN[n.id] = m
                o = m
                ds = self.defs_at.get(n.id)
                if ds:
                    o = dict(m)
                    for d in ds:
                        o[d.name] = frozenset([d])
                if o != OUT[n.id]:
                    OUT[n.id] = o
                    changed = True
        self.IN, self.OUT = IN, OUT

    # -- expansion ---------------------------------------------------------
    def node_of(self, astnode):
        """CFG node whose statement/test contains `astnode`"""
        if not hasattr(self, "_owner"):
            self._owner = {}
            for n in self.cfg.nodes:
                root = n.ast
                if root is None:
                    continue
                if n.kind == "for":
                    roots = [root.iter, root.target]
                elif n.kind == "with":
                    roots = [i for it in root.items for i in (it.context_expr, it.optional_vars) if i is not None]
                elif n.kind == "handler":
                    roots = [root.type] if root.type is not None else []
                elif n.kind == "stmt" and isinstance(root, (ast.FunctionDef, ast.AsyncFunctionDef, ast.ClassDef)):
                    roots = list(root.decorator_list)
                else:
                    roots = [root]
                for r in roots:
                    for sub in ast.walk(r):
                        self._owner.setdefault(id(sub), n)
        return self._owner.get(id(astnode))

    def term(self, expr, at=None, env=None, depth=0):
        """term of ast expression `expr` evaluated at CFG node `at`"""
        if at is None:
            at = self.node_of(expr)
        return self._t(expr, at, env or {}, depth)

    def name_term(self, name, at, use_out=False, depth=0):
        table = (self.OUT if use_out else self.IN).get(at.id, {})
        return self._name(name, table, at, {}, depth, None)

    def _name(self, name, table, at, env, depth, node):
        if name in env:
            return env[name]
        if name not in self.locals:
            return self._global(name, node)
        defs = table.get(name)
        if not defs:
            return T("undef", (name,), node)
        if depth > 40:
            return T("unk", ("deep:" + name,), node)
        alts = []
        for d in sorted(defs, key=lambda d: d.node.id):
            alts.append(self._def_term(d, depth + 1))
        uniq = []
        for a in alts:
            if a not in uniq:
                uniq.append(a)
        if len(uniq) == 1:
            return uniq[0]
        return T("phi", (tuple(uniq),), node)

    def _global(self, name, node):
        f = self.func.parent
        while f is not None:       # free variable of an enclosing function
            if name in f.all_params() or name in f.nested:
                return T("free", (name,), node)
            f = f.parent
        return T("global", (name,), node)

    def _def_term(self, d, depth):
        key = (id(d), )
        if key in self._memo:
            return self._memo[key]
        if key in self._stack:
            return T("unk", ("loop:" + d.name,), None)
        self._stack.add(key)
        try:
            r = self._def_term0(d, depth)
        finally:
            self._stack.discard(key)
        self._memo[key] = r
        return r

    def _def_term0(self, d, depth):
        n = d.node
        if d.kind == "param":
            return T("param", (d.name,), None)
        if d.kind == "assign":
            return self._t(d.payload, n, {}, depth)
        if d.kind == "unpack":
            v = self._t(d.payload, n, {}, depth)
            if d.idx is None:
                return T("item", (v, "?"), d.payload)
            i, ln = d.idx
            return unpack_item(v, i, ln, d.payload)
        if d.kind == "aug":
            st = d.payload
            prev = self._name(d.name, self.IN.get(n.id, {}), n, {}, depth, st.target)
            return T("bin", (BINOPS.get(type(st.op), "?"), prev, self._t(st.value, n, {}, depth), "inplace"), st)
        if d.kind == "substore":
            st = d.payload
            prev = self._name(d.name, self.IN.get(n.id, {}), n, {}, depth, None)
            if isinstance(st, ast.AugAssign):
                tgt, op = st.target, BINOPS.get(type(st.op), "?")
            else:
                tgt, op = st.targets[0], None
            return T("upd", (prev, self._t(tgt.slice, n, {}, depth), self._t(st.value, n, {}, depth), op), st)
        if d.kind == "for":
            f = d.payload
            it = T("elem", (self._t(f.iter, d.node.info[0], {}, depth),), f)
            return _destructure(f.target, it, d.name)
        if d.kind == "with":
            it = d.payload
            v = T("call", (T("attr", (self._t(it.context_expr, n, {}, depth), "__enter__")), (), ()), it.context_expr)
            return _destructure(it.optional_vars, v, d.name)
        if d.kind == "def":
            return T("localdef", (d.name,), d.payload)
        if d.kind == "import":
            return T("global", (d.name,), d.payload)
        return T("unk", (d.kind,), None)

    def _t(self, e, at, env, depth):
        tb = self.IN.get(at.id, {}) if at is not None else {}
        if at is not None and at.kind == "edge":
            tb = self.IN.get(at.id, {})
        rec = lambda x: self._t(x, at, env, depth)
        if e is None:
            return NONE
        if isinstance(e, ast.Constant):
            return T("const", (e.value,), e)
        if isinstance(e, ast.Name):
            return self._name(e.id, tb, at, env, depth, e)
        if isinstance(e, ast.Attribute):
            return T("attr", (rec(e.value), e.attr), e)
        if isinstance(e, ast.Call):
            args = []
            for a in e.args:
                if isinstance(a, ast.Starred):
                    args.append(T("star", (rec(a.value),), a))
                else:
                    args.append(rec(a))
            kws = []
            for k in e.keywords:
                kws.append((k.arg if k.arg else "**", rec(k.value)))
            return T("call", (rec(e.func), tuple(args), tuple(kws)), e)
        if isinstance(e, ast.BinOp):
            return T("bin", (BINOPS.get(type(e.op), "?"), rec(e.left), rec(e.right)), e)
        if isinstance(e, ast.UnaryOp):
            if isinstance(e.op, ast.USub) and isinstance(e.operand, ast.Constant) and isinstance(e.operand.value, (int, float)):
                return T("const", (-e.operand.value,), e)
            return T("un", (UNOPS.get(type(e.op), "?"), rec(e.operand)), e)
        if isinstance(e, ast.Compare):
            parts = []
            left = e.left
            for op, right in zip(e.ops, e.comparators):
                o, l, r = CMPOPS.get(type(op), "?"), rec(left), rec(right)
                # canonical orientation: a literal constant operand goes to the right (0 == x -> x == 0, 0 > x -> x < 0)
                if l.k == "const" and r.k != "const" and o in FLIP:
                    o, l, r = FLIP[o], r, l
                parts.append(T("cmp", (o, l, r), e))
                left = right
            if len(parts) == 1:
                return parts[0]
            return T("bool", ("and", tuple(parts)), e)
        if isinstance(e, ast.BoolOp):
            return T("bool", ("and" if isinstance(e.op, ast.And) else "or", tuple(rec(v) for v in e.values)), e)
        if isinstance(e, ast.Subscript):
            return T("sub", (rec(e.value), rec(e.slice)), e)
        if isinstance(e, ast.Slice):
            return T("slice", (rec(e.lower), rec(e.upper), rec(e.step)), e)
        if isinstance(e, (ast.Tuple, ast.List, ast.Set)):
            kind = {ast.Tuple: "tuple", ast.List: "list", ast.Set: "set"}[type(e)]
            elts = []
            for x in e.elts:
                if isinstance(x, ast.Starred):
                    elts.append(T("star", (rec(x.value),), x))
                else:
                    elts.append(rec(x))
            return T(kind, (tuple(elts),), e)
        if isinstance(e, ast.Dict):
            ks = tuple(rec(k) if k is not None else T("star", (NONE,)) for k in e.keys)
            vs = tuple(rec(v) for v in e.values)
            return T("dict", (ks, vs), e)
        if isinstance(e, ast.IfExp):
            return T("ifexp", (rec(e.test), rec(e.body), rec(e.orelse)), e)
        if isinstance(e, (ast.ListComp, ast.GeneratorExp, ast.SetComp, ast.DictComp)):
            env2 = dict(env)
            iters = []
            conds = []
            for g in e.generators:
                it = self._t(g.iter, at, env2, depth)
                iters.append(it)
                el = T("elem", (it,), g)
                for nm, tm in _destructure_all(g.target, el):
                    env2[nm] = tm
                for c in g.ifs:
                    conds.append(self._t(c, at, env2, depth))
            if isinstance(e, ast.DictComp):
                elt = T("tuple", ((self._t(e.key, at, env2, depth), self._t(e.value, at, env2, depth)),), e)
            else:
                elt = self._t(e.elt, at, env2, depth)
            kind = {ast.ListComp: "listcomp", ast.GeneratorExp: "genexp", ast.SetComp: "setcomp", ast.DictComp: "dictcomp"}[type(e)]
            return T("comp", (kind, elt, tuple(iters), tuple(conds)), e)
        if isinstance(e, ast.Lambda):
            env2 = dict(env)
            for a in e.args.posonlyargs + e.args.args + e.args.kwonlyargs:
                env2[a.arg] = T("lparam", (a.arg,), a)
            if e.args.vararg:
                env2[e.args.vararg.arg] = T("lparam", (e.args.vararg.arg,), e)
            if e.args.kwarg:
                env2[e.args.kwarg.arg] = T("lparam", (e.args.kwarg.arg,), e)
            return T("lambda", (self._t(e.body, at, env2, depth),), e)
        if isinstance(e, ast.JoinedStr):
            return T("fstr", (), e)
        if isinstance(e, ast.NamedExpr):
            return rec(e.value)
        if isinstance(e, ast.Starred):
            return T("star", (rec(e.value),), e)
        if isinstance(e, ast.Await):
            return rec(e.value)
        return T("unk", (type(e).__name__,), e)


def _walrus(st):
    out = []
    if st is None:
        return out
    for sub in ast.walk(st):
        if isinstance(sub, ast.NamedExpr) and isinstance(sub.target, ast.Name):
            out.append(sub)
        if isinstance(sub, (ast.FunctionDef, ast.AsyncFunctionDef, ast.Lambda, ast.ClassDef)) and sub is not st:
            pass
    return out


def unpack_item(v, i, ln, node=None):
    if v.k in ("tuple", "list") and len(v.a[0]) == ln and not any(x.k == "star" for x in v.a[0]):
        return v.a[0][i]
    if v.k == "phi":
        return T("phi", (tuple(unpack_item(x, i, ln, node) for x in v.a[0]),), node)
    if v.k == "ifexp":
        return T("ifexp", (v.a[0], unpack_item(v.a[1], i, ln, node), unpack_item(v.a[2], i, ln, node)), v.node)
    if v.k == "comp" and v.a[0] in ("genexp", "listcomp"):
        # (f(v) for v in (a, b))  unpacked element-wise
        its = v.a[2]
        if len(its) == 1 and its[0].k in ("tuple", "list") and len(its[0].a[0]) == ln:
            return subst_elem(v.a[1], its[0], its[0].a[0][i])
    return T("item", (v, i), node)


def subst_elem(t, iterable, repl):
    """replace elem(iterable) by repl inside t"""
    if not isinstance(t, T):
        return t
    if t.k == "elem" and t.a[0] == iterable:
        return repl
    new = []
    ch = False
    for x in t.a:
        if isinstance(x, T):
            y = subst_elem(x, iterable, repl)
        elif isinstance(x, tuple):
            y = tuple(subst_elem(z, iterable, repl) if isinstance(z, T) else
                      (tuple(subst_elem(w, iterable, repl) if isinstance(w, T) else w for w in z) if isinstance(z, tuple) else z)
                      for z in x)
        else:
            y = x
        if y is not x and y != x:
            ch = True
        new.append(y)
    return T(t.k, new, t.node) if ch else t


def _destructure(target, value, name):
    for nm, tm in _destructure_all(target, value):
        if nm == name:
            return tm
    return T("unk", ("destructure",), None)


def _destructure_all(target, value):
    if isinstance(target, ast.Name):
        return [(target.id, value)]
    if isinstance(target, (ast.Tuple, ast.List)):
        out = []
        n = len(target.elts)
        for i, e in enumerate(target.elts):
            if isinstance(e, ast.Starred):
                out += _destructure_all(e.value, T("item", (value, "*"), e))
            else:
                out += _destructure_all(e, elem_item(value, i, n, e))
        return out
    return []


def elem_item(value, i, n, node):
    """i-th component of an element of zip(...) / enumerate(...) / items()"""
    if value.k == "elem":
        it = value.a[0]
        if it.k == "call" and it.a[0].k in ("global",) and it.a[0].a[0] == "zip" and len(it.a[1]) == n \
                and not any(x.k == "star" for x in it.a[1]):
            return T("elem", (it.a[1][i],), node)
        if it.k == "call" and it.a[0].k == "global" and it.a[0].a[0] == "enumerate" and n == 2 and it.a[1]:
            if i == 0:
                return T("index", (it.a[1][0],), node)
            return T("elem", (it.a[1][0],), node)
    return T("item", (value, i), node)


# ---------------------------------------------------------------------------
# generic term helpers


def walk(t):
    """pre-order iteration over all sub-terms"""
    stack = [t]
    while stack:
        x = stack.pop()
        if isinstance(x, T):
            yield x
            for c in x.a:
                if isinstance(c, T):
                    stack.append(c)
                elif isinstance(c, tuple):
                    for z in c:
                        if isinstance(z, T):
                            stack.append(z)
                        elif isinstance(z, tuple):
                            for w in z:
                                if isinstance(w, T):
                                    stack.append(w)


def alts(t):
    """flatten phi / ifexp alternatives"""
    if t.k == "phi":
        out = []
        for x in t.a[0]:
            out += alts(x)
        return out
    if t.k == "ifexp":
        return alts(t.a[1]) + alts(t.a[2])
    return [t]


def is_const(t, v=...):
    return t.k == "const" and (v is ... or (t.a[0] == v and type(t.a[0]) == type(v)))


def attr_chain(t):
    """('self', '_shape', 'starts') for attr(attr(param self,_shape),starts); None otherwise"""
    names = []
    while t.k == "attr":
        names.append(t.a[1])
        t = t.a[0]
    if t.k in ("param", "global", "free", "lparam"):
        names.append(t.a[0])
        return tuple(reversed(names))
    return None


def call_name(t):
    """dotted name of the callee of a call term, e.g. 'np.minimum', 'self.ravel'; None if not simple"""
    if t.k != "call":
        return None
    c = attr_chain(t.a[0])
    return ".".join(c) if c else None


def method_call(t):
    """(receiver term, method name) for receiver.method(...) calls"""
    if t.k == "call" and t.a[0].k == "attr":
        return t.a[0].a[0], t.a[0].a[1]
    return None


def call_args(t):
    return t.a[1], dict(t.a[2])


def np_call(t, names):
    """is t a call np.<name>(...) / _np.<name> / numpy.<name> with name in names -> name"""
    if t.k != "call":
        return None
    c = attr_chain(t.a[0])
    if c and len(c) == 2 and c[0] in ("np", "_np", "numpy") and c[1] in names:
        return c[1]
    return None


def contains(t, pred):
    return any(pred(x) for x in walk(t))
