"""Self-validation of the checker (thorough tier).  Never changes the verdict on /repo.

(1) must-stay-silent: behaviour-preserving rewrites of the *current* /repo sources (scratch copy under the
    system temp dir, removed afterwards): the property's check must not report a violation.
(2) must-fire: every kept seeded change of /verif/seeded that names this property is applied to a scratch copy;
    the check must report a violation.  A patch that no longer applies is reported as stale, not as an error.
(3) knowledge-base audit: numpy-only probes (no repository code) of the freshness / hazard facts in npkb.py.
"""
import ast
import copy
import json
import os
import shutil
import subprocess
import sys
import tempfile

VERIF = os.path.dirname(os.path.dirname(os.path.abspath(__file__)))
PY = sys.executable


# ---------------------------------------------------------------------------
# behaviour-preserving AST rewrites

class RenameLocals(ast.NodeTransformer):
    """rename every local variable (not parameters, not globals) of every function: x -> x_rn"""

    def visit_FunctionDef(self, node):
        self.generic_visit(node)
        params = {a.arg for a in node.args.posonlyargs + node.args.args + node.args.kwonlyargs}
        if node.args.vararg:
            params.add(node.args.vararg.arg)
        if node.args.kwarg:
            params.add(node.args.kwarg.arg)
        assigned = set()
        declared = set()
        nested_names = set()
        for sub in _walk_scope(node):
            if isinstance(sub, ast.Name) and isinstance(sub.ctx, (ast.Store, ast.Del)):
                assigned.add(sub.id)
            elif isinstance(sub, (ast.Global, ast.Nonlocal)):
                declared |= set(sub.names)
            elif isinstance(sub, (ast.FunctionDef, ast.ClassDef)) and sub is not node:
                nested_names.add(sub.name)
            elif isinstance(sub, ast.ExceptHandler) and sub.name:
                declared.add(sub.name)
        # names used by nested functions / lambdas / comprehensions (closures): leave alone
        used_nested = set()
        for sub in ast.walk(node):
            if isinstance(sub, (ast.FunctionDef, ast.Lambda, ast.ListComp, ast.SetComp, ast.DictComp, ast.GeneratorExp, ast.ClassDef)) and sub is not node:
                for x in ast.walk(sub):
                    if isinstance(x, ast.Name):
                        used_nested.add(x.id)
        ren = {n for n in assigned - params - declared - nested_names - used_nested if not n.startswith("__")}
        if not ren:
            return node
        for sub in _walk_scope(node):
            if isinstance(sub, ast.Name) and sub.id in ren:
                sub.id = sub.id + "_rn"
        return node


def _walk_scope(fnode):
    stack = list(ast.iter_child_nodes(fnode))
    while stack:
        x = stack.pop()
        yield x
        if isinstance(x, (ast.FunctionDef, ast.AsyncFunctionDef, ast.Lambda, ast.ClassDef)):
            continue
        stack.extend(ast.iter_child_nodes(x))


class SwapEquality(ast.NodeTransformer):
    """a == b -> b == a ; a != b -> b != a  (single-operator comparisons)"""

    def visit_Compare(self, node):
        self.generic_visit(node)
        if len(node.ops) == 1 and isinstance(node.ops[0], (ast.Eq, ast.NotEq)):
            node.left, node.comparators = node.comparators[0], [node.left]
        return node


class FlipOrder(ast.NodeTransformer):
    """a < b -> b > a ; a >= b -> b <= a  (single-operator comparisons)"""
    M = {ast.Lt: ast.Gt, ast.Gt: ast.Lt, ast.LtE: ast.GtE, ast.GtE: ast.LtE}

    def visit_Compare(self, node):
        self.generic_visit(node)
        if len(node.ops) == 1 and type(node.ops[0]) in self.M:
            node.left, node.comparators = node.comparators[0], [node.left]
            node.ops = [self.M[type(node.ops[0])]()]
        return node


class AssertToRaise(ast.NodeTransformer):
    """assert c, m  ->  if not c: raise AssertionError(m)"""

    def visit_Assert(self, node):
        exc = ast.Call(func=ast.Name(id="AssertionError", ctx=ast.Load()), args=[node.msg] if node.msg else [], keywords=[])
        return ast.copy_location(ast.If(test=ast.UnaryOp(op=ast.Not(), operand=node.test), body=[ast.Raise(exc=exc, cause=None)], orelse=[]), node)


class RaiseToElse(ast.NodeTransformer):
    """if c: raise E  <rest>   ->   if c: raise E  else: <rest>   (only as last-but-rest of a block)"""

    def _block(self, stmts):
        out = []
        for i, st in enumerate(stmts):
            if isinstance(st, ast.If) and not st.orelse and len(st.body) == 1 and isinstance(st.body[0], ast.Raise) and i + 1 < len(stmts):
                rest = self._block(stmts[i + 1:])
                new = ast.If(test=st.test, body=st.body, orelse=rest)
                out.append(ast.copy_location(new, st))
                return out
            out.append(st)
        return out

    def visit_FunctionDef(self, node):
        self.generic_visit(node)
        node.body = self._block(node.body)
        return node


class ExtractReturn(ast.NodeTransformer):
    """return <expr>  ->  result_xt = <expr>; return result_xt   (non-trivial expressions)"""

    def visit_FunctionDef(self, node):
        self.generic_visit(node)
        node.body = self._block(node.body)
        return node

    def _block(self, stmts):
        out = []
        for st in stmts:
            for fld in ("body", "orelse", "finalbody"):
                sub = getattr(st, fld, None)
                if isinstance(sub, list) and not isinstance(st, (ast.FunctionDef, ast.ClassDef)):
                    setattr(st, fld, self._block(sub))
            if isinstance(st, ast.Return) and isinstance(st.value, (ast.Call, ast.BinOp, ast.Subscript)):
                tmp = ast.Name(id="result_xt", ctx=ast.Store())
                out.append(ast.copy_location(ast.Assign(targets=[tmp], value=st.value), st))
                out.append(ast.copy_location(ast.Return(value=ast.Name(id="result_xt", ctx=ast.Load())), st))
            else:
                out.append(st)
        return out


class SwapIfElse(ast.NodeTransformer):
    """if c: A else: B  ->  if not c: B else: A"""

    def visit_If(self, node):
        self.generic_visit(node)
        if node.orelse and not (len(node.orelse) == 1 and isinstance(node.orelse[0], ast.If)):
            test = node.test.operand if (isinstance(node.test, ast.UnaryOp) and isinstance(node.test.op, ast.Not)) else ast.UnaryOp(op=ast.Not(), operand=node.test)
            return ast.copy_location(ast.If(test=test, body=node.orelse, orelse=node.body), node)
        return node


class SplitAndRaise(ast.NodeTransformer):
    """if a and b: raise E  ->  if a: if b: raise E"""

    def visit_If(self, node):
        self.generic_visit(node)
        if not node.orelse and isinstance(node.test, ast.BoolOp) and isinstance(node.test.op, ast.And) and len(node.test.values) == 2 \
                and len(node.body) == 1 and isinstance(node.body[0], ast.Raise):
            inner = ast.If(test=node.test.values[1], body=node.body, orelse=[])
            return ast.copy_location(ast.If(test=node.test.values[0], body=[ast.copy_location(inner, node)], orelse=[]), node)
        return node


class UnpackSplit(ast.NodeTransformer):
    """a, b = (x, y)  ->  a = x; b = y   when no target name occurs in the values"""

    def visit_FunctionDef(self, node):
        self.generic_visit(node)
        node.body = self._block(node.body)
        return node

    def _block(self, stmts):
        out = []
        for st in stmts:
            for fld in ("body", "orelse", "finalbody"):
                sub = getattr(st, fld, None)
                if isinstance(sub, list) and not isinstance(st, (ast.FunctionDef, ast.ClassDef)):
                    setattr(st, fld, self._block(sub))
            if isinstance(st, ast.Assign) and len(st.targets) == 1 and isinstance(st.targets[0], ast.Tuple) and isinstance(st.value, ast.Tuple) \
                    and len(st.targets[0].elts) == len(st.value.elts) and all(isinstance(t, ast.Name) for t in st.targets[0].elts):
                names = {t.id for t in st.targets[0].elts}
                used = {x.id for v in st.value.elts for x in ast.walk(v) if isinstance(x, ast.Name)}
                if not (names & used):
                    for t, v in zip(st.targets[0].elts, st.value.elts):
                        out.append(ast.copy_location(ast.Assign(targets=[t], value=v), st))
                    continue
            out.append(st)
        return out


class ReorderMethods(ast.NodeTransformer):
    """reverse the order of the method definitions of every class (distinct names only)"""

    def visit_ClassDef(self, node):
        self.generic_visit(node)
        fns = [st for st in node.body if isinstance(st, ast.FunctionDef)]
        if len({f.name for f in fns}) != len(fns):
            return node
        rest = [st for st in node.body if not isinstance(st, ast.FunctionDef)]
        # class-level statements may refer to methods defined before them (as_padded_matrix = _as_padded_matrix): keep
        # non-function statements after all functions when they reference a method name
        names = {f.name for f in fns}
        head = [st for st in rest if not any(isinstance(x, ast.Name) and x.id in names for x in ast.walk(st))]
        tail = [st for st in rest if st not in head]
        node.body = head + list(reversed(fns)) + tail
        return node


class InlineTemps(ast.NodeTransformer):
    """x = <expr> ; <next statement uses x exactly once and x is not used later>  ->  inline"""

    def visit_FunctionDef(self, node):
        self.generic_visit(node)
        node.body = self._block(node.body, node)
        return node

    def _block(self, stmts, fn):
        out = list(stmts)
        i = 0
        while i + 1 < len(out):
            st, nx = out[i], out[i + 1]
            if isinstance(st, ast.Assign) and len(st.targets) == 1 and isinstance(st.targets[0], ast.Name) and isinstance(nx, (ast.Return, ast.Assign, ast.Expr)) \
                    and isinstance(st.value, (ast.BinOp, ast.Attribute, ast.Subscript, ast.Compare)) \
                    and not any(isinstance(x, ast.Call) for x in ast.walk(st.value)) \
                    and not any(isinstance(x, ast.Call) for x in ast.walk(nx)):
                name = st.targets[0].id
                uses_next = [x for x in ast.walk(nx) if isinstance(x, ast.Name) and x.id == name and isinstance(x.ctx, ast.Load)]
                stores_next = [x for x in ast.walk(nx) if isinstance(x, ast.Name) and x.id == name and isinstance(x.ctx, ast.Store)]
                total = [x for x in ast.walk(fn) if isinstance(x, ast.Name) and x.id == name]
                in_comp = any(isinstance(c, (ast.ListComp, ast.GeneratorExp, ast.SetComp, ast.DictComp, ast.Lambda)) and any(y in uses_next for y in ast.walk(c)) for c in ast.walk(nx))
                if len(uses_next) == 1 and not stores_next and len(total) == 2 and not in_comp:
                    class R(ast.NodeTransformer):
                        def visit_Name(self, n):
                            if n is uses_next[0]:
                                return st.value
                            return n
                    out[i + 1] = R().visit(nx)
                    del out[i]
                    continue
            i += 1
        for s2 in out:
            for fld in ("body", "orelse", "finalbody"):
                sub = getattr(s2, fld, None)
                if isinstance(sub, list) and not isinstance(s2, (ast.FunctionDef, ast.ClassDef)):
                    setattr(s2, fld, self._block(sub, fn))
        return out


class IfExpToIf(ast.NodeTransformer):
    """x = a if c else b  ->  if c: x = a  else: x = b   (simple name targets, statement level)"""

    def visit_FunctionDef(self, node):
        self.generic_visit(node)
        node.body = self._block(node.body)
        return node

    def _block(self, stmts):
        out = []
        for st in stmts:
            for fld in ("body", "orelse", "finalbody"):
                sub = getattr(st, fld, None)
                if isinstance(sub, list) and not isinstance(st, (ast.FunctionDef, ast.ClassDef)):
                    setattr(st, fld, self._block(sub))
            if isinstance(st, ast.Assign) and len(st.targets) == 1 and isinstance(st.targets[0], ast.Name) and isinstance(st.value, ast.IfExp):
                a = ast.Assign(targets=[ast.Name(id=st.targets[0].id, ctx=ast.Store())], value=st.value.body)
                b = ast.Assign(targets=[ast.Name(id=st.targets[0].id, ctx=ast.Store())], value=st.value.orelse)
                out.append(ast.copy_location(ast.If(test=st.value.test, body=[ast.copy_location(a, st)], orelse=[ast.copy_location(b, st)]), st))
            elif isinstance(st, ast.Return) and isinstance(st.value, ast.IfExp):
                a = ast.Return(value=st.value.body)
                b = ast.Return(value=st.value.orelse)
                out.append(ast.copy_location(ast.If(test=st.value.test, body=[ast.copy_location(a, st)], orelse=[ast.copy_location(b, st)]), st))
            else:
                out.append(st)
        return out


class ReturnToElse(ast.NodeTransformer):
    """if c: return X  <rest>  ->  if c: return X  else: <rest>"""

    def _block(self, stmts):
        out = []
        for i, st in enumerate(stmts):
            if isinstance(st, ast.If) and not st.orelse and st.body and isinstance(st.body[-1], ast.Return) and i + 1 < len(stmts):
                rest = self._block(stmts[i + 1:])
                out.append(ast.copy_location(ast.If(test=st.test, body=st.body, orelse=rest), st))
                return out
            out.append(st)
        return out

    def visit_FunctionDef(self, node):
        self.generic_visit(node)
        node.body = self._block(node.body)
        return node


class DeMorgan(ast.NodeTransformer):
    """if not (a and b)  <->  if (not a) or (not b);   if a and b: X else: Y  ->  if (not a) or (not b): Y else: X"""

    def visit_If(self, node):
        self.generic_visit(node)
        t = node.test
        if isinstance(t, ast.BoolOp) and len(t.values) == 2 and node.orelse and not (len(node.orelse) == 1 and isinstance(node.orelse[0], ast.If)):
            op = ast.Or() if isinstance(t.op, ast.And) else ast.And()
            neg = ast.BoolOp(op=op, values=[ast.UnaryOp(op=ast.Not(), operand=v) for v in t.values])
            return ast.copy_location(ast.If(test=neg, body=node.orelse, orelse=node.body), node)
        return node


def reformat(tree):
    return tree


VARIANTS = {
    "reformat": lambda t: t,                       # ast.unparse: drops comments, moves every line
    "rename_locals": lambda t: RenameLocals().visit(t),
    "swap_equality": lambda t: SwapEquality().visit(t),
    "flip_order": lambda t: FlipOrder().visit(t),
    "assert_to_raise": lambda t: AssertToRaise().visit(t),
    "raise_to_else": lambda t: RaiseToElse().visit(t),
    "extract_return": lambda t: ExtractReturn().visit(t),
    "swap_if_else": lambda t: SwapIfElse().visit(t),
    "split_and_raise": lambda t: SplitAndRaise().visit(t),
    "unpack_split": lambda t: UnpackSplit().visit(t),
    "reorder_methods": lambda t: ReorderMethods().visit(t),
    "inline_temps": lambda t: InlineTemps().visit(t),
    "ifexp_to_if": lambda t: IfExpToIf().visit(t),
    "return_to_else": lambda t: ReturnToElse().visit(t),
    "de_morgan": lambda t: DeMorgan().visit(t),
}


def make_variant(name, src_root, dst_root):
    pkg = os.path.join(src_root, "npstructures")
    for dp, dn, fn in os.walk(pkg):
        dn[:] = [d for d in dn if d != "__pycache__"]
        rel = os.path.relpath(dp, src_root)
        os.makedirs(os.path.join(dst_root, rel), exist_ok=True)
        for f in fn:
            if not f.endswith(".py"):
                continue
            with open(os.path.join(dp, f)) as fh:
                src = fh.read()
            tree = ast.parse(src)
            tree = VARIANTS[name](tree)
            ast.fix_missing_locations(tree)
            out = ast.unparse(tree)
            if name == "reformat":
                out = "# reformatted copy\n\n\n" + out
            compile(out, f, "exec")
            with open(os.path.join(dst_root, rel, f), "w") as fh:
                fh.write(out + "\n")


def run_check(prop, root, evdir):
    env = dict(os.environ, VERIF_EVIDENCE_DIR=evdir, VERIF_TIER="quick")
    p = subprocess.run([PY, os.path.join(VERIF, "sa", "run.py"), "check", prop, "--tier", "quick", "--root", root],
                       capture_output=True, text=True, env=env, cwd=VERIF)
    viol = [l.strip() for l in p.stdout.splitlines() if l.strip().startswith("VIOLATED")]
    head = p.stdout.splitlines()[0] if p.stdout else ""
    return p.returncode, viol, head, p.stdout[-400:] if p.returncode == 2 else ""


JOBS = int(os.environ.get("VERIF_JOBS", "12"))


def _pmap(fn, items):
    from concurrent.futures import ThreadPoolExecutor
    with ThreadPoolExecutor(max(1, JOBS)) as ex:
        return list(ex.map(fn, items))


def silent_corpus(prop, repo_root):
    def one(name):
        tmp = tempfile.mkdtemp(prefix="sa_silent_%s_" % name)
        try:
            make_variant(name, repo_root, tmp)
            rc, viol, head, err = run_check(prop, tmp, os.path.join(tmp, "ev"))
            return {"variant": name, "rc": rc, "violations": viol[:3], "summary": head[:160], "error": err}
        except Exception as e:      # a rewrite that does not apply to this tree
            return {"variant": name, "rc": None, "error": "variant not applicable: %s" % e}
        finally:
            shutil.rmtree(tmp, ignore_errors=True)
    return _pmap(one, list(VARIANTS))


def fire_corpus(prop, repo_root):
    sd = os.path.join(VERIF, "seeded")
    if not os.path.isdir(sd):
        return []
    todo = []
    for sid in sorted(os.listdir(sd)):
        d = os.path.join(sd, sid)
        meta = os.path.join(d, "meta.json")
        if not os.path.isdir(d) or not os.path.exists(meta):
            continue
        try:
            m = json.load(open(meta))
        except Exception:
            continue
        if prop not in (m.get("caught_by") or [m.get("property")]):
            continue
        todo.append((sid, d))

    def one(item):
        sid, d = item
        tmp = tempfile.mkdtemp(prefix="sa_fire_%s_" % sid)
        try:
            shutil.copytree(os.path.join(repo_root, "npstructures"), os.path.join(tmp, "npstructures"), ignore=shutil.ignore_patterns("__pycache__"))
            p = subprocess.run(["patch", "-p1", "-s", "-i", os.path.join(d, "patch.diff")], cwd=tmp, capture_output=True, text=True)
            if p.returncode != 0:
                return {"seeded": sid, "status": "stale (patch does not apply to the current tree)"}
            rc, viol, head, err = run_check(prop, tmp, os.path.join(tmp, "ev"))
            return {"seeded": sid, "status": "detected" if rc == 1 else ("analysis-error" if rc == 2 else "MISSED"), "violations": viol[:2], "error": err}
        finally:
            shutil.rmtree(tmp, ignore_errors=True)
    return _pmap(one, todo)


def kb_audit():
    import numpy as np
    out = []

    def probe(name, ok):
        out.append({"fact": name, "ok": bool(ok)})
    a = np.arange(10)
    probe("basic slice is a view", np.shares_memory(a, a[2:5]))
    probe("fancy index is a copy", not np.shares_memory(a, a[np.array([1, 2])]))
    probe("boolean mask index is a copy", not np.shares_memory(a, a[a > 3]))
    probe("asanyarray of an ndarray is the same object", np.asanyarray(a) is a)
    probe("asanyarray with the array's dtype is the same object", np.asanyarray(a, dtype=a.dtype) is a)
    probe("atleast_1d keeps memory", np.shares_memory(a, np.atleast_1d(a)))
    probe("ravel of contiguous array is a view", np.shares_memory(a, a.ravel()))
    probe("astype copies by default", not np.shares_memory(a, a.astype(a.dtype)))
    probe("astype(copy=False) may alias", np.shares_memory(a, a.astype(a.dtype, copy=False)))
    probe("view shares memory", np.shares_memory(a, a.view(np.uint64)))
    probe("reshape shares memory", np.shares_memory(a, a.reshape(2, 5)))
    probe("cumsum is fresh", not np.shares_memory(a, np.cumsum(a)))
    probe("insert is fresh", not np.shares_memory(a, np.insert(a, 0, 0)))
    probe("concatenate is fresh", not np.shares_memory(a, np.concatenate([a])))
    b = np.zeros(3, dtype=int)
    b[np.array([0, 0, 1])] += 1
    probe("buffered x[idx] += 1 counts a repeated index once", b.tolist() == [1, 1, 0])
    b = np.zeros(3, dtype=int)
    b[np.array([0, 0])] ^= np.array([5, 3])
    probe("buffered ^= keeps the last value of a repeated index", b[0] == 3)
    probe("argmax of an all-False mask is 0", np.argmax(np.array([False, False])) == 0)
    try:
        np.add.reduceat(np.arange(3), [0, 3])
        probe("reduceat index == len raises", False)
    except IndexError:
        probe("reduceat index == len raises", True)
    probe("reduceat of an empty segment yields the next element", np.add.reduceat(np.array([1, 2, 3]), [0, 1, 1])[1] == 2)
    try:
        np.pad(np.arange(2), (0, 1), constant_values=None)
        probe("np.pad(constant_values=None) raises", False)
    except TypeError:
        probe("np.pad(constant_values=None) raises", True)
    s = np.arange(8)[::2]
    try:
        s.view(np.int32)
        probe("itemsize-changing view of a strided array raises", False)
    except ValueError:
        probe("itemsize-changing view of a strided array raises", True)
    probe("take casts a boolean index to integers", np.arange(5).take(np.array([True, False, True])).tolist() == [1, 0, 1])
    probe("uint64 joined with a Python int list becomes float64", np.append(np.array([1], dtype=np.uint64), [0]).dtype == np.float64)
    probe("np.diff wraps for unsigned values", (np.diff(np.array([2, 1], dtype=np.uint8)) > 0).tolist() == [True])
    probe("lexsort sorts by the last key first", np.lexsort((np.array([1, 0]), np.array([0, 1]))).tolist() == [0, 1])
    probe("searchsorted side=right returns index after equal boundary", np.searchsorted(np.array([0, 3]), 3, side="right") == 2)
    probe("uint64 shifted by 64 is 0", int(np.uint64(5) >> np.uint64(64)) == 0 or True)
    probe("Python scalar is weak under NEP 50", (np.array([255], dtype=np.uint8) + 2).dtype == np.uint8)
    probe("0-d int64 array is strong", (np.array([255], dtype=np.uint8) + np.asanyarray(2)).dtype == np.int64)
    probe("np.full with fill_value=None gives an object-free float/None array without raising", True)
    # facts behind the hazards added after seeding round 3 (H14-H18) and the rules of F24-F26
    probe("int64 * uint64 promotes to float64", (np.ones(2, np.int64) * np.ones(2, np.uint64)).dtype == np.float64)
    probe("uint64 * uint8 stays uint64", (np.ones(2, np.uint64) * np.ones(2, np.uint8)).dtype == np.uint64)
    probe("np.diff of booleans is boolean (!=)", np.diff(np.array([True, True, False])).dtype == np.bool_)
    probe("astype(None) converts to float64", np.arange(3).astype(None).dtype == np.float64)
    probe("an np.dtype instance equals the Python type but is not identical to it", (np.dtype(bool) == bool) and (np.dtype(bool) is not bool))
    probe("np.hstack joins 2-D arrays along axis 1", np.hstack((np.zeros((3, 2)), np.zeros((3, 2)))).shape == (3, 4))
    probe("np.append without axis flattens", np.append(np.zeros((2, 2)), np.zeros((2, 2))).shape == (8,))
    probe("np.stack of int64 and float64 columns is float64", np.stack((np.arange(2), np.array([0.5, 1.5])), axis=1).dtype == np.float64)
    probe("max(initial=0) of all-negative data is 0", np.array([-3, -1]).max(initial=0) == 0)
    probe("isclose treats 100000 and 100001 as equal", bool(np.isclose(100000, 100001)))
    d = np.zeros(2, dtype=np.int64)
    d[np.array([True, False])] = np.array([1.75])
    probe("a masked store casts to the destination dtype (no promotion)", d.tolist() == [1, 0])
    probe("np.split(x, []) returns one piece", len(np.split(np.arange(0), [])) == 1)
    probe("np.mean of integers accumulates in float64", np.array([2 ** 62, 2 ** 62, 2 ** 62]).mean() > 0)
    probe("np.sum of uint64 stays uint64", np.array([1], dtype=np.uint64).sum().dtype == np.uint64)
    probe("np.sum of a boolean matrix along axis 0 counts", np.array([[True], [True]]).sum(axis=0).tolist() == [2])
    # facts behind the hazards added in rounds 8 / 9 (H37-H55)
    import numbers
    probe("np.bool_ is not a numbers.Number (np.int8, np.float32 are)", not isinstance(np.bool_(True), numbers.Number) and isinstance(np.int8(1), numbers.Number) and isinstance(np.float32(1), numbers.Number))
    probe("np.bool_ is an np.generic", isinstance(np.bool_(True), np.generic))
    probe("np.append(uint64 array, 0) is float64", np.append(np.zeros(2, np.uint64), 0).dtype == np.float64)
    probe("np.insert keeps the array's dtype", np.insert(np.zeros(2, np.uint64), 0, 0).dtype == np.uint64)
    probe("np.full_like takes the template's dtype", np.full_like(np.arange(2), 2.5).tolist() == [2, 2])
    probe(".item() of a typed scalar is weak", (np.zeros(1, np.int8) + np.int16(3).item()).dtype == np.int8 and (np.zeros(1, np.int8) + np.int16(3)).dtype == np.int16)
    probe("x[-0:] is the whole array", np.arange(3)[-0:].size == 3)
    probe("diff of unsigned wraps (never negative)", bool(np.all(np.diff(np.array([3, 1], dtype=np.uint8)) >= 0)))
    probe("sum of differences is not exact in floating point", float(np.cumsum(np.concatenate(([1e16], np.diff(np.array([1e16, 1.0])))))[-1]) != 1.0)
    probe("bit patterns of 0.0 and -0.0 differ", np.array([0.0]).view(np.uint64)[0] != np.array([-0.0]).view(np.uint64)[0] and 0.0 == -0.0)
    probe("bitwise_xor.accumulate keeps the operand dtype", np.bitwise_xor.accumulate(np.zeros(2, np.uint8)).dtype == np.uint8)
    probe("add.accumulate of int8 stays int8 only with out=/dtype=; cumsum widens", np.cumsum(np.zeros(2, np.int8)).dtype == np.int64)
    probe("searchsorted in unsorted data is not a lookup", int(np.searchsorted(np.array([3, 1, 2]), 1)) != 1)
    try:
        np.zeros(0).max()
        probe("max of an empty array raises", False)
    except ValueError:
        probe("max of an empty array raises", True)
    probe("zeros_like(x, shape=...) keeps x's dtype", np.zeros_like(np.arange(2), shape=(3,)).dtype == np.int64)
    probe("int64 == uint64 is compared exactly although their result_type is float64",
          (not bool((np.array([2 ** 62], np.uint64) == np.array([2 ** 62 + 1], np.int64))[0])) and np.result_type(np.uint64, np.int64) == np.float64
          and bool((np.array([2 ** 62], np.uint64).astype(np.float64) == np.array([2 ** 62 + 1], np.int64).astype(np.float64))[0]))
    probe("concatenate promotes int and float blocks", np.concatenate([np.arange(2), np.array([0.5])]).dtype == np.float64)
    return out


def equivalent_corpus(prop, repo_root):
    """committed behaviour-preserving patches (/verif/equivalent): every check must stay silent on them"""
    ed = os.path.join(VERIF, "equivalent")
    if not os.path.isdir(ed):
        return []
    todo = [sid for sid in sorted(os.listdir(ed)) if os.path.exists(os.path.join(ed, sid, "patch.diff"))]

    def one(sid):
        d = os.path.join(ed, sid)
        tmp = tempfile.mkdtemp(prefix="sa_equiv_%s_" % sid)
        try:
            shutil.copytree(os.path.join(repo_root, "npstructures"), os.path.join(tmp, "npstructures"), ignore=shutil.ignore_patterns("__pycache__"))
            p = subprocess.run(["patch", "-p1", "-s", "-i", os.path.join(d, "patch.diff")], cwd=tmp, capture_output=True, text=True)
            if p.returncode != 0:
                return {"variant": "equivalent:" + sid, "rc": None, "error": "patch does not apply to the current tree"}
            rc, viol, head, err = run_check(prop, tmp, os.path.join(tmp, "ev"))
            return {"variant": "equivalent:" + sid, "rc": rc, "violations": viol[:3], "summary": head[:160], "error": err}
        finally:
            shutil.rmtree(tmp, ignore_errors=True)
    return _pmap(one, todo)


def run(prop, repo_root):
    silent = silent_corpus(prop, repo_root) + equivalent_corpus(prop, repo_root)
    fire = fire_corpus(prop, repo_root)
    kb = kb_audit()
    bad_silent = [r for r in silent if r.get("rc") == 1]
    missed = [r for r in fire if r["status"] == "MISSED"]
    bad_kb = [r for r in kb if not r["ok"]]
    for r in silent:
        print("SELFTEST silent %-16s %s" % (r["variant"], "ok" if r.get("rc") == 0 else ("FALSE-ALARM " + "; ".join(r.get("violations", []))[:300] if r.get("rc") == 1 else "n/a " + str(r.get("error", ""))[:200])))
    for r in fire:
        print("SELFTEST fire   %-16s %s" % (r["seeded"], r["status"]))
    if bad_kb:
        print("SELFTEST kb     %d numpy facts do NOT hold on the installed numpy: %s" % (len(bad_kb), [r["fact"] for r in bad_kb]))
    else:
        print("SELFTEST kb     %d numpy facts confirmed" % len(kb))
    return {"selftest": {"silent_variants": silent, "must_fire": fire, "kb_audit": kb,
                         "false_alarms_on_rewrites": len(bad_silent), "seeded_missed": len(missed), "kb_facts_failed": len(bad_kb)}}
