"""E9 - case-partitioned interval interpretation of loop-free arithmetic helpers.

The column-slice arithmetic of RaggedView2 is a piecewise-linear function of (row length N, start, stop,
step).  For one fixed landmark value of N (N == 0: an empty row) every quantity in it is a plain integer
interval once the caller's selector is split into its sign cases (None / negative / non-negative for start
and stop, None / negative / positive for step).  This module evaluates a method *abstractly* - no code of
/repo is executed - for each of those finitely many cases:

  values   closed integer intervals [lo, hi] (bounds may be +-inf), optionally `k*S + [lo, hi]` with one
           symbol S (the step, known sign), None, three-valued booleans, tuples, objects (constructor calls)
  control  structured interpretation of the AST (if / assert / return / assignments / conditional
           expressions); a branch is followed when its condition is not definitely false; both arms of an
           undecided `np.where` are joined
  calls    methods of the same class are interpreted recursively (bounded depth); np.maximum / minimum /
           abs / sign / where / ones_like and the builtins min / max / abs / int / isinstance are modelled;
           anything else yields "unknown"

An obligation is *violated* only when the abstract result excludes the required value on some case (the
computed interval does not contain it); it is *unknown* when the interval merely fails to pin it.
"""
import ast
import math

INF = math.inf


class Iv:
    """k*S + [lo, hi]"""
    __slots__ = ("k", "lo", "hi")

    def __init__(self, lo, hi, k=0):
        self.k, self.lo, self.hi = k, lo, hi

    def __repr__(self):
        s = "[%s, %s]" % (self.lo, self.hi)
        return s if not self.k else "%d*S+%s" % (self.k, s)


class NoneV:
    def __repr__(self):
        return "None"


class BoolV:
    __slots__ = ("v",)

    def __init__(self, v):
        self.v = v          # True / False / None (unknown)

    def __repr__(self):
        return "bool:%s" % self.v


class Obj:
    """result of a constructor call: class marker + evaluated arguments"""
    def __init__(self, args, kwargs, node):
        self.args, self.kwargs, self.node = args, kwargs, node

    def __repr__(self):
        return "Obj(%s)" % (self.args,)


class SliceV:
    def __init__(self, start, stop, step, indices_result=None):
        self.start, self.stop, self.step = start, stop, step
        self.indices_result = indices_result      # constant (start, stop, step) of slice.indices(N) on this cell, if the caller knows it


TOP = None
NONE = NoneV()


class Refused:
    """every feasible path of the call ends in `raise` / a failing assert"""
    def __repr__(self):
        return "REFUSED"


REFUSED = Refused()


class EmptyArr:
    """an array without elements (a boolean selection that kept nothing)"""
    def __repr__(self):
        return "<empty array>"


EMPTY = EmptyArr()


class Infeasible(Exception):
    pass


class Returned(Exception):
    def __init__(self, v):
        self.v = v


class Interp:
    def __init__(self, ctx, cls, self_attrs, sym_range=None, max_depth=3):
        """self_attrs: dict attribute name -> abstract value for `self.<name>` reads.
        sym_range: (lo, hi) numeric range of the symbol S (None when no symbol is used)"""
        self.ctx = ctx
        self.cls = cls
        self.self_attrs = self_attrs
        self.sym = sym_range
        self.max_depth = max_depth
        self.undecided = 0       # branches taken both ways because their condition could not be evaluated: results are then one-sided
        self.widen_max = False   # True: np.max(<per-row quantity>) is only bounded below by the abstract row value (loses the empty-row decisions)
        self.unknown_reasons = []
        self.opaque_methods = set()
        self.calls = []          # (method name, evaluated positional args) of calls to opaque methods of self
        self.returned = []       # Return statements of the analysed method (depth 0) that were reached

    # ---- numeric helpers -------------------------------------------------
    def num(self, v):
        """numeric interval (lo, hi) of an Iv, substituting the symbol's range"""
        if not isinstance(v, Iv):
            return None
        if not v.k:
            return (v.lo, v.hi)
        if self.sym is None:
            return None
        a, b = self.sym
        cands = [v.k * a, v.k * b]
        return (min(cands) + v.lo, max(cands) + v.hi)

    def add(self, a, b, sign=1):
        if not (isinstance(a, Iv) and isinstance(b, Iv)):
            return TOP
        if sign == 1:
            return Iv(a.lo + b.lo, a.hi + b.hi, a.k + b.k)
        return Iv(a.lo - b.hi, a.hi - b.lo, a.k - b.k)

    def mul(self, a, b):
        if not (isinstance(a, Iv) and isinstance(b, Iv)):
            return TOP
        for x, y in ((a, b), (b, a)):
            if not x.k and x.lo == x.hi and x.lo not in (INF, -INF):
                c = x.lo
                if c == 0:
                    return Iv(0, 0)
                lo, hi = (y.lo * c, y.hi * c) if c > 0 else (y.hi * c, y.lo * c)
                return Iv(lo, hi, y.k * c)
        na, nb = self.num(a), self.num(b)
        if na is None or nb is None:
            return TOP
        cands = []
        for p in na:
            for q in nb:
                if (p in (INF, -INF) and q == 0) or (q in (INF, -INF) and p == 0):
                    cands.append(0)
                else:
                    cands.append(p * q)
        return Iv(min(cands), max(cands))

    def floordiv(self, a, b):
        if not (isinstance(a, Iv) and isinstance(b, Iv)):
            return TOP
        nb = self.num(b)
        if nb is None:
            return TOP
        # (k*S + c) // S  and  (k*S + c) // -S  with a pure-symbol divisor
        if a.k and b.k in (1, -1) and b.lo == 0 and b.hi == 0 and self.sym is not None:
            # value = k*S + c;  divide by d = b.k*S.  (k*S)/(b.k*S) = k/b.k exactly (integer since |b.k| == 1)
            q0 = a.k * b.k
            smin = min(abs(self.sym[0]), abs(self.sym[1]))
            sgn = 1 if (self.sym[0] > 0) == (b.k > 0) else -1       # sign of the divisor
            if smin in (0, INF):
                return TOP
            # c / d with |d| >= smin:  c/d in [-|c|/smin, |c|/smin]; floor of (q0 + c/d)
            lo_c, hi_c = a.lo, a.hi
            if sgn < 0:
                lo_c, hi_c = -hi_c, -lo_c
            # now divide c in [lo_c, hi_c] by positive D >= smin
            def fl(c):
                if c >= 0:
                    return (0, c // smin)
                return (-((-c + smin - 1) // smin), -1)
            r1, r2 = fl(lo_c), fl(hi_c)
            return Iv(q0 + min(r1[0], r2[0]), q0 + max(r1[1], r2[1]))
        na = self.num(a)
        if na is None:
            return TOP
        if nb[0] > 0:
            dlo, dhi = nb
        elif nb[1] < 0:
            # a // b == (-a) // (-b)
            na = (-na[1], -na[0])
            dlo, dhi = -nb[1], -nb[0]
        else:
            return TOP
        cands = []
        for p in na:
            for q in (dlo, dhi):
                if p in (INF, -INF):
                    cands.append(p)
                elif q == INF:
                    cands.append(0 if p >= 0 else -1)
                else:
                    cands.append(p // q)
        return Iv(min(cands), max(cands))

    def cmp(self, op, a, b):
        """three-valued comparison of two abstract numbers"""
        d = self.add(a, b, -1)          # a - b
        nd = self.num(d) if d is not TOP else None
        if nd is None:
            return BoolV(None)
        lo, hi = nd
        if op == "<":
            return BoolV(True if hi < 0 else (False if lo >= 0 else None))
        if op == "<=":
            return BoolV(True if hi <= 0 else (False if lo > 0 else None))
        if op == ">":
            return BoolV(True if lo > 0 else (False if hi <= 0 else None))
        if op == ">=":
            return BoolV(True if lo >= 0 else (False if hi < 0 else None))
        if op == "==":
            return BoolV(True if lo == hi == 0 else (False if (lo > 0 or hi < 0) else None))
        if op == "!=":
            return BoolV(False if lo == hi == 0 else (True if (lo > 0 or hi < 0) else None))
        return BoolV(None)

    def sign(self, a):
        n = self.num(a) if isinstance(a, Iv) else None
        if n is None:
            return TOP
        lo, hi = n
        s = lambda x: (x > 0) - (x < 0)
        return Iv(s(lo), s(hi))

    def absv(self, a):
        if not isinstance(a, Iv):
            return TOP
        n = self.num(a)
        if n is None:
            return TOP
        lo, hi = n
        if lo >= 0:
            return a
        if hi <= 0:
            return Iv(-a.hi, -a.lo, -a.k)
        return Iv(0, max(-lo, hi))

    def minmax(self, a, b, is_max):
        if not (isinstance(a, Iv) and isinstance(b, Iv)):
            return TOP
        c = self.cmp("<=", a, b).v
        if c is True:
            return b if is_max else a
        c2 = self.cmp("<=", b, a).v
        if c2 is True:
            return a if is_max else b
        na, nb = self.num(a), self.num(b)
        if na is None or nb is None:
            return TOP
        f = max if is_max else min
        return Iv(f(na[0], nb[0]), f(na[1], nb[1]))

    def join(self, a, b):
        if isinstance(a, Iv) and isinstance(b, Iv):
            if a.k == b.k:
                return Iv(min(a.lo, b.lo), max(a.hi, b.hi), a.k)
            na, nb = self.num(a), self.num(b)
            if na is None or nb is None:
                return TOP
            return Iv(min(na[0], nb[0]), max(na[1], nb[1]))
        if isinstance(a, BoolV) and isinstance(b, BoolV):
            return BoolV(a.v if a.v == b.v else None)
        if isinstance(a, NoneV) and isinstance(b, NoneV):
            return a
        return TOP

    def truth(self, v):
        if isinstance(v, BoolV):
            return v.v
        if isinstance(v, NoneV):
            return False
        if v is EMPTY:
            return False
        if isinstance(v, Iv):
            n = self.num(v)
            if n is None:
                return None
            if n[0] == n[1] == 0:
                return False
            if n[0] > 0 or n[1] < 0:
                return True
        return None

    # ---- expressions --------------------------------------------------------
    def ev(self, e, env, depth):
        if isinstance(e, ast.Constant):
            if e.value is None:
                return NONE
            if isinstance(e.value, bool):
                return BoolV(e.value)
            if isinstance(e.value, int):
                return Iv(e.value, e.value)
            return TOP
        if isinstance(e, ast.Name):
            return env.get(e.id, TOP)
        if isinstance(e, ast.Attribute):
            if isinstance(e.value, ast.Name) and e.value.id == env.get("__self__"):
                return self.self_attrs.get(e.attr, TOP)
            base = self.ev(e.value, env, depth)
            if isinstance(base, SliceV) and e.attr in ("start", "stop", "step"):
                return getattr(base, e.attr)
            return TOP
        if isinstance(e, ast.Tuple):
            return tuple(self.ev(x, env, depth) for x in e.elts)
        if isinstance(e, ast.UnaryOp):
            v = self.ev(e.operand, env, depth)
            if isinstance(e.op, ast.USub):
                return Iv(-v.hi, -v.lo, -v.k) if isinstance(v, Iv) else TOP
            if isinstance(e.op, ast.Not):
                t = self.truth(v)
                return BoolV(None if t is None else (not t))
            if isinstance(e.op, ast.Invert) and isinstance(v, BoolV):
                return BoolV(None if v.v is None else (not v.v))
            return TOP
        if isinstance(e, ast.BinOp):
            a, b = self.ev(e.left, env, depth), self.ev(e.right, env, depth)
            if isinstance(e.op, ast.Add):
                return self.add(a, b)
            if isinstance(e.op, ast.Sub):
                return self.add(a, b, -1)
            if isinstance(e.op, ast.Mult):
                return self.mul(a, b)
            if isinstance(e.op, ast.FloorDiv):
                return self.floordiv(a, b)
            if isinstance(e.op, (ast.BitAnd, ast.BitOr)) and isinstance(a, BoolV) and isinstance(b, BoolV):
                return self.boolop(isinstance(e.op, ast.BitAnd), [a.v, b.v])
            return TOP
        if isinstance(e, ast.BoolOp):
            vals = [self.truth(self.ev(x, env, depth)) for x in e.values]
            return self.boolop(isinstance(e.op, ast.And), vals)
        if isinstance(e, ast.Compare) and len(e.ops) == 1:
            a, b = self.ev(e.left, env, depth), self.ev(e.comparators[0], env, depth)
            op = e.ops[0]
            if isinstance(op, (ast.Is, ast.IsNot)):
                if isinstance(b, NoneV) or isinstance(a, NoneV):
                    other = a if isinstance(b, NoneV) else b
                    if other is TOP:
                        return BoolV(None)
                    same = isinstance(other, NoneV)
                    return BoolV(same if isinstance(op, ast.Is) else not same)
                return BoolV(None)
            name = {ast.Lt: "<", ast.LtE: "<=", ast.Gt: ">", ast.GtE: ">=", ast.Eq: "==", ast.NotEq: "!="}.get(type(op))
            if name and isinstance(a, Iv) and isinstance(b, Iv):
                return self.cmp(name, a, b)
            return BoolV(None)
        if isinstance(e, ast.Subscript) and not isinstance(e.slice, (ast.Slice, ast.Tuple)):
            base = self.ev(e.value, env, depth)
            idx = self.ev(e.slice, env, depth)
            if isinstance(base, Iv) and isinstance(idx, BoolV):
                # x[mask] over equally long rows: everything or nothing
                return base if idx.v is True else (EMPTY if idx.v is False else TOP)
        if isinstance(e, ast.IfExp):
            t = self.truth(self.ev(e.test, env, depth))
            if t is True:
                return self.ev(e.body, env, depth)
            if t is False:
                return self.ev(e.orelse, env, depth)
            return self.join(self.ev(e.body, env, depth), self.ev(e.orelse, env, depth))
        if isinstance(e, ast.Call):
            return self.call(e, env, depth)
        return TOP

    def boolop(self, is_and, vals):
        if is_and:
            if any(v is False for v in vals):
                return BoolV(False)
            return BoolV(True if all(v is True for v in vals) else None)
        if any(v is True for v in vals):
            return BoolV(True)
        return BoolV(False if all(v is False for v in vals) else None)

    def call(self, e, env, depth):
        fn = e.func
        args = [self.ev(a.value if isinstance(a, ast.Starred) else a, env, depth) for a in e.args]
        name = None
        if isinstance(fn, ast.Attribute) and isinstance(fn.value, ast.Name) and fn.value.id in ("np", "numpy"):
            name = "np." + fn.attr
        elif isinstance(fn, ast.Name):
            name = fn.id
        if name in ("np.maximum", "max") and len(args) == 2:
            return self.minmax(args[0], args[1], True)
        if name in ("np.minimum", "min") and len(args) == 2:
            return self.minmax(args[0], args[1], False)
        if name in ("np.any", "np.all") and len(args) == 1 and (isinstance(args[0], (BoolV, Iv)) or args[0] is EMPTY):
            # scenario of the model: every row of the array looks like the abstract row (N cells each).  Over such an array a
            # per-row predicate is the same in every row, so any() and all() are the predicate itself; a violation found here is
            # a concrete witness (an array of equally long rows), a `holds` speaks about that family only
            if args[0] is EMPTY:
                return BoolV(name == "np.all")
            return BoolV(self.truth(args[0]))
        if name in ("np.abs", "abs", "np.absolute") and len(args) == 1:
            return self.absv(args[0])
        if name == "np.sign" and len(args) == 1:
            return self.sign(args[0])
        if name in ("int", "np.asanyarray", "np.asarray") and len(args) >= 1:
            return args[0]
        if name == "np.ones_like" and len(args) == 1:
            return Iv(1, 1)
        if name == "np.zeros_like" and len(args) == 1:
            return Iv(0, 0)
        if name == "np.where" and len(args) == 3:
            t = self.truth(args[0])
            if t is True:
                return args[1]
            if t is False:
                return args[2]
            return self.join(args[1], args[2])
        if name == "slice" and len(args) <= 3:
            a = list(args) + [NONE] * (3 - len(args))
            if len(args) == 1:
                a = [NONE, args[0], NONE]
            return SliceV(*a)
        if name == "isinstance" and len(args) == 2:
            tn = ast.unparse(e.args[1])
            if isinstance(args[0], SliceV):
                return BoolV(True if "slice" in tn and "Number" not in tn else (False if "slice" not in tn else None))
            if isinstance(args[0], Iv):
                names = {x.id if isinstance(x, ast.Name) else x.attr for x in ast.walk(e.args[1]) if isinstance(x, (ast.Name, ast.Attribute))}
                num = names & {"Number", "int", "Integral", "integer"}
                return BoolV(True if num else (False if names <= {"slice", "list", "tuple", "ndarray", "np", "str"} else None))
            return BoolV(None)
        if name == "len" and args and args[0] is EMPTY:
            return Iv(0, 0)
        if name == "len" and e.args and isinstance(e.args[0], ast.Name) and e.args[0].id != env.get("__self__") and isinstance(args[0], Iv) and "len:rows" in self.self_attrs:
            return self.self_attrs["len:rows"]      # a per-row quantity held in a local: one entry per row
        if name == "len":
            a0 = e.args[0] if e.args else None
            if isinstance(a0, ast.Name) and a0.id == env.get("__self__"):
                return self.self_attrs.get("len:self", TOP)
            if isinstance(a0, ast.Attribute) and isinstance(a0.value, ast.Name) and a0.value.id == env.get("__self__"):
                return self.self_attrs.get("len:" + a0.attr, TOP)
            return TOP
        if name in ("np.max", "np.amax") and len(args) == 1 and isinstance(args[0], Iv) and not args[0].k and self.widen_max:
            # the abstract row is one of several: the longest row is at least as long (used for clamps such as max(lengths) + 1)
            return Iv(args[0].lo, INF)
        if name in ("np.min", "np.max", "np.amin", "np.amax") and len(args) == 1:
            return args[0] if isinstance(args[0], Iv) else TOP       # one abstract row stands for every row
        # constructor / method of the analysed class
        selfn = env.get("__self__")
        if isinstance(fn, ast.Attribute) and fn.attr == "indices" and len(e.args) == 1:
            base = self.ev(fn.value, env, depth)
            if isinstance(base, SliceV) and base.indices_result is not None:
                return tuple(Iv(v, v) for v in base.indices_result)
            return TOP
        if isinstance(fn, ast.Attribute) and isinstance(fn.value, ast.Name) and fn.value.id == selfn and fn.attr in self.opaque_methods:
            self.calls.append((fn.attr, args))
            return TOP
        if isinstance(fn, ast.Attribute) and isinstance(fn.value, ast.Name) and fn.value.id == selfn:
            if fn.attr == "__class__":
                return Obj(args, {k.arg: self.ev(k.value, env, depth) for k in e.keywords}, e)
            m = self.cls.lookup(fn.attr)
            if m is not None and depth < self.max_depth and isinstance(m.node, ast.FunctionDef):
                r = self.run(m, args, {k.arg: self.ev(k.value, env, depth) for k in e.keywords}, depth + 1)
                if r is REFUSED:
                    raise Infeasible()        # the callee raises on every path: so does this path of the caller
                return r
        if isinstance(fn, ast.Attribute) and fn.attr == "__class__":
            return TOP
        return TOP

    # ---- statements -----------------------------------------------------------
    def run(self, m, args, kwargs, depth=0):
        """abstract result of calling method m(self, *args): join of the values of all feasible returns"""
        node = m.node
        params = [a.arg for a in node.args.args]
        env = {"__self__": params[0] if params else None}
        defaults = node.args.defaults
        dmap = {}
        for p, d in zip(params[len(params) - len(defaults):], defaults):
            dmap[p] = d
        for i, p in enumerate(params[1:]):
            if i < len(args):
                env[p] = args[i]
            elif p in kwargs:
                env[p] = kwargs[p]
            elif p in dmap:
                env[p] = self.ev(dmap[p], env, depth)
            else:
                env[p] = TOP
        outs = []
        n_unknown = len(self.unknown_reasons)
        fell = self.block(node.body, env, depth, outs)
        if fell:
            outs.append(NONE)          # falling off the end returns None
        if not outs:
            return REFUSED if len(self.unknown_reasons) == n_unknown else TOP
        r = outs[0]
        for o in outs[1:]:
            if isinstance(r, Obj) or isinstance(o, Obj):
                r = _join_obj(self, r, o)
            else:
                r = self.join(r, o)
        return r

    def block(self, stmts, env, depth, outs):
        """interpret statements from `env`; returns the list of environments that fall through the end of the
        block (empty when every path returns, raises or is infeasible)"""
        envs = [env]
        for s in stmts:
            nxt = []
            for env in envs:
                nxt += self.stmt(s, env, depth, outs)
            envs = nxt
            if not envs:
                break
            if len(envs) > 64:
                self.unknown_reasons.append("too many paths")
                outs.append(TOP)
                return []
        return envs

    def stmt(self, s, env, depth, outs):
        try:
            return self._stmt(s, env, depth, outs)
        except Infeasible:
            return []

    def _stmt(self, s, env, depth, outs):
        if isinstance(s, ast.Pass):
            return [env]
        if isinstance(s, ast.Expr):
            self.ev(s.value, env, depth)
            return [env]
        if isinstance(s, ast.Return):
            outs.append(self.ev(s.value, env, depth) if s.value is not None else NONE)
            if depth == 0:
                self.returned.append(s)
            return []
        if isinstance(s, ast.Raise):
            return []
        if isinstance(s, ast.Assert):
            t = self.truth(self.ev(s.test, env, depth))
            if t is None:
                self.undecided += 1
            if t is False:
                return []
            self.refine(s.test, env, True, depth)
            return [env]
        if isinstance(s, ast.Assign):
            v = self.ev(s.value, env, depth)
            for tg in s.targets:
                self.assign(tg, v, env)
            return [env]
        if isinstance(s, ast.AugAssign) and isinstance(s.target, ast.Name):
            cur = env.get(s.target.id, TOP)
            v = self.ev(s.value, env, depth)
            if isinstance(s.op, (ast.BitOr, ast.BitAnd)) and isinstance(cur, BoolV) and isinstance(v, BoolV):
                env[s.target.id] = self.boolop(isinstance(s.op, ast.BitAnd), [cur.v, v.v])
            elif isinstance(s.op, ast.Add):
                env[s.target.id] = self.add(cur, v)
            elif isinstance(s.op, ast.Sub):
                env[s.target.id] = self.add(cur, v, -1)
            else:
                env[s.target.id] = TOP
            return [env]
        if isinstance(s, ast.If):
            t = self.truth(self.ev(s.test, env, depth))
            if t is None:
                self.undecided += 1
            out = []
            if t is not False:
                e1 = dict(env)
                self.refine(s.test, e1, True, depth)
                out += self.block(s.body, e1, depth, outs)
            if t is not True:
                e2 = dict(env)
                self.refine(s.test, e2, False, depth)
                out += self.block(s.orelse, e2, depth, outs)
            return out
        # anything else: give up on this path (unknown result)
        self.unknown_reasons.append("statement %s not modelled" % type(s).__name__)
        outs.append(TOP)
        return []

    def assign(self, tg, v, env):
        if isinstance(tg, ast.Name):
            env[tg.id] = v
        elif isinstance(tg, ast.Tuple) and isinstance(v, tuple) and len(v) == len(tg.elts):
            for t, x in zip(tg.elts, v):
                self.assign(t, x, env)
        elif isinstance(tg, ast.Tuple):
            for t in tg.elts:
                self.assign(t, TOP, env)

    def refine(self, test, env, truth, depth):
        """narrow a variable compared with a constant"""
        if isinstance(test, ast.UnaryOp) and isinstance(test.op, ast.Not):
            return self.refine(test.operand, env, not truth, depth)
        if isinstance(test, ast.Compare) and len(test.ops) == 1 and isinstance(test.left, ast.Name):
            cur = env.get(test.left.id, TOP)
            c = self.ev(test.comparators[0], env, depth)
            if isinstance(cur, Iv) and not cur.k and isinstance(c, Iv) and not c.k and c.lo == c.hi:
                k = c.lo
                op = type(test.ops[0])
                if not truth:
                    op = {ast.Lt: ast.GtE, ast.LtE: ast.Gt, ast.Gt: ast.LtE, ast.GtE: ast.Lt, ast.Eq: ast.NotEq, ast.NotEq: ast.Eq}.get(op, op)
                lo, hi = cur.lo, cur.hi
                if op is ast.Lt:
                    hi = min(hi, k - 1)
                elif op is ast.LtE:
                    hi = min(hi, k)
                elif op is ast.Gt:
                    lo = max(lo, k + 1)
                elif op is ast.GtE:
                    lo = max(lo, k)
                elif op is ast.Eq:
                    lo, hi = max(lo, k), min(hi, k)
                if lo <= hi:
                    env[test.left.id] = Iv(lo, hi)


def _join_obj(I, a, b):
    if isinstance(a, Obj) and isinstance(b, Obj) and len(a.args) == len(b.args):
        return Obj([I.join(x, y) if not (isinstance(x, Obj) or isinstance(y, Obj)) else TOP for x, y in zip(a.args, b.args)], {}, a.node)
    return TOP
