"""C19 - results do not depend on the index-width configuration.

Decided: the width-dependent row gather is total over index kinds (integer, slice with any step, integer
array, boolean mask): it subscripts (never take()), has no scalar fast path that breaks negative indices, and
makes the gather contiguous before the reinterpreting view (E7/KB); both branches return a flat interleaved
code array; the configuration store lands on the class every reader inherits from (E6); the index dtype is
threaded through the geometry constructors.  Not decided: value equality of whole operations under both widths.
"""
import ast
from ..lib import Toolkit
from ..guards import find_calls, facts_at
from ..terms import alts, attr_chain, walk, is_const, call_name, np_call
from .. import hazards
from .. import wellformed as W

LEVEL_TEXT = ("static contiguity/totality analysis of ViewBase._index_rows over index kinds (E7, numpy-hazard rules), sibling-branch "
              "layout agreement, configuration-store coherence over the class hierarchy (E6); structural necessary conditions of C19")
ASSUMPTIONS = ["ndarray.view(dtype) with a different itemsize needs a contiguous last axis; a stepped slice of a 1-D array is not contiguous",
               "ndarray.take / np.take cast a boolean index to integers", "x[2*i:2*i+2] is empty for i == -1"]
MIN_OBLIGATIONS = 8
VB = "raggedshape.ViewBase."


def _direct_dtype(y):
    """the call itself names the configured dtype: a dtype= keyword or a direct positional argument (astype/view)"""
    pos = list(y.a[1]) if len(y.a) > 1 else []
    kws = [v for _k, v in (y.a[2] if len(y.a) > 2 else [])]
    return any((attr_chain(v) or ("",))[-1] == "_dtype" for v in pos + kws)


def weak_bounds(ctx, tk):
    """NEP 50: a Python int combined with an array must fit the array's dtype - np.minimum(10**10, int32_lengths) raises
    OverflowError where the int64 configuration clamps silently.  The start / stop / step of a caller's slice therefore reach the
    index arithmetic only after they were clamped against a quantity derived from the row lengths (pure Python max / min, or a
    helper doing that): then every value that is combined with index-typed arrays is at most one longer than the longest row"""
    f = ctx.program.funcs.get("raggedshape.RaggedView2.col_slice")
    what = "the start / stop / step of a caller's column slice are clamped (in Python arithmetic) before they meet index-typed arrays"
    if f is None:
        ctx.unknown("C19.g", None, what, "RaggedView2.col_slice not found", engine="KB")
        return
    fa = ctx.fa(f)
    sp = f.params[1]
    raw, clamped = [], 0
    dtype_limit = []
    parents = {}
    for node in ast.walk(f.node):
        for ch in ast.iter_child_nodes(node):
            parents[ch] = node
    for n in fa.cfg.stmts():
        for e in _exprs_of(n):
            for x in ast.walk(e):
                if not (isinstance(x, ast.Attribute) and x.attr in ("start", "stop", "step") and isinstance(x.value, ast.Name) and x.value.id == sp):
                    continue
                t = fa.term(x, n)
                base = t.a[0] if t.k == "attr" else None
                if base is None or not any(a.k == "param" for a in alts(base)):
                    continue            # read from the re-bound (already clamped) slice object
                par = parents.get(x)
                ok = False
                if isinstance(par, ast.Call) and x in par.args:
                    fn = par.func
                    nm = fn.attr if isinstance(fn, ast.Attribute) else (fn.id if isinstance(fn, ast.Name) else "")
                    if nm in ("max", "min") or "clamp" in nm.lower() or "clip" in nm.lower():
                        ok = True
                        # the clamp has to be against the row lengths: a limit taken from the index dtype (np.iinfo(..).max) keeps the
                        # bound inside the dtype but not the sums and differences formed with it afterwards
                        for other in par.args:
                            if other is x:
                                continue
                            ot = fa.term(other, n)
                            from_lengths = any(y.k == "attr" and y.a[1] in ("lengths", "ends", "starts") for a in alts(ot) for y in walk(a))
                            from_dtype = any(y.k == "call" and (attr_chain(y.a[0]) or ("",))[-1] in ("iinfo", "finfo") for a in alts(ot) for y in walk(a)) or \
                                any(y.k == "const" and isinstance(y.a[0], int) and abs(y.a[0]) >= 2 ** 15 for a in alts(ot) for y in walk(a))
                            if from_dtype and not from_lengths:
                                dtype_limit.append(par)
                if isinstance(par, ast.Compare) and all(isinstance(c, ast.Constant) and c.value is None for c in par.comparators):
                    ok = True           # `is None` tests do no arithmetic
                if ok:
                    clamped += 1
                else:
                    raw.append(x)
    if dtype_limit:
        ctx.violated("C19.g", f, "column-slice bounds are clamped against the row lengths", "`%s` clamps against a constant of the index dtype: the bound fits, but `stop - start + step - 1` "
                     "formed with it wraps under 32-bit indices (ra[:, ::2**31-1] loses cells)" % ast.unparse(dtype_limit[0])[:100], node=dtype_limit[0], key="clamp-limit", engine="KB")
    ctx.decide("C19.g", f, what, False if raw else (True if clamped else None),
               "`%s` is used as it came from the caller: under 32-bit indices a bound such as 10**10 raises OverflowError (Python int out of bounds for int32) "
               "in np.minimum / np.maximum against the row lengths, under 64-bit it is clamped" % (ast.unparse(raw[0]) if raw else "",),
               node=(raw[0] if raw else None), key="weak-bounds", engine="KB")


def _exprs_of(n):
    if n.ast is None:
        return []
    if n.kind == "test":
        return [n.ast]
    return [n.ast] if isinstance(n.ast, ast.AST) else []


def check(ctx, tier):
    tk = Toolkit(ctx)
    gather(ctx, tk)
    config(ctx, tk)
    threading(ctx, tk)
    memoised_geometry(ctx, tk)
    exported_width(ctx, tk)
    coded_in_configured_width(ctx, tk)
    no_narrowing_before_validation(ctx, tk)
    weak_bounds(ctx, tk)
    fs = [ctx.func(VB + n) for n in ("_index_rows", "set_dtype", "__init__")] + [ctx.func("raggedshape.RaggedShape.__init__"), ctx.func("raggedshape.build_indices")]
    hazards.h4_take_with_unknown_index(ctx, tk, "C19.a", fs)
    W.report(ctx, tk, "C19.d", fs)
    from .. import hazards as _hz, scopes as _sc
    _hz.generic(ctx, tk, "C19.z", _sc.scope(tk, "C19", depth=1))
    # row numbers of the caller reach the index-width dependent gather through the whole __getitem__ family
    _hz.h65_selector_cast_to_index_dtype(ctx, tk, "C19.z/H65", [f_ for q_, f_ in sorted(ctx.program.funcs.items())
                                                                  if q_.startswith(("raggedarray.indexablearray.", "raggedshape.")) and f_ not in _sc.scope(tk, "C19", depth=1)])
    # width-specific code may sit anywhere in the geometry / slicing modules: field masks and narrowing casts are looked for in all of them
    geo = [f_ for q_, f_ in sorted(ctx.program.funcs.items()) if q_.startswith(("raggedshape.", "raggedarray.")) and f_ not in _sc.scope(tk, "C19", depth=1)]
    _hz.h52_mask_of_unusual_width(ctx, tk, "C19.z/H52", geo)
    _hz.h53_narrowed_before_clamped(ctx, tk, "C19.z/H53", geo)
    return {}


MEMO_DECORATORS = {"lru_cache", "cache", "cached_property"}
_MEMO_SAMPLE = """
import functools
from functools import lru_cache
class A:
    @classmethod
    @lru_cache(maxsize=8)
    def f(cls, x):
        return x
    @functools.cache
    def g(self):
        return 1
    @property
    def h(self):
        return 2
"""


def _memo_decorated(node):
    for d in getattr(node, "decorator_list", []):
        dn = d.func if isinstance(d, ast.Call) else d
        nm = dn.attr if isinstance(dn, ast.Attribute) else (dn.id if isinstance(dn, ast.Name) else None)
        if nm in MEMO_DECORATORS:
            return nm
    return None


def memoised_geometry(ctx, tk):
    """the index dtype is mutable global configuration: a memoised function whose result depends on it (reads
    `_dtype`, directly or in what it calls) hands out objects built under the previous configuration"""
    import ast as _ast
    smp = _ast.parse(_MEMO_SAMPLE).body[2]
    got = {m.name: _memo_decorated(m) for m in smp.body}
    if got != {"f": "lru_cache", "g": "cache", "h": None}:
        from ..model import AnalysisError
        raise AnalysisError("memo decorator recogniser failed its built-in sample")
    what = "no result that depends on the configured index dtype is memoised across set_dtype()"
    n = 0
    reads = {}
    for q, f in ctx.program.funcs.items():
        # the geometry's index dtype lives on ViewBase (module raggedshape); BitMask._dtype is that class's own register type
        reads[q] = f.module.short == "raggedshape" and any(isinstance(x, ast.Attribute) and x.attr == "_dtype" and isinstance(x.ctx, ast.Load) for x in ast.walk(f.node))
    for q, f in sorted(ctx.program.funcs.items()):
        nm = _memo_decorated(f.node)
        if nm is None:
            continue
        n += 1
        reach = tk.R.reachable([q])
        dep = sorted(r for r in reach if reads.get(r))
        # constructing a geometry object runs ViewBase.__init__, which reads _dtype
        ctx.decide("C19.e", f, what, False if dep else True,
                   "@%s keeps results of `%s`, which depend on the index dtype through %s: after set_dtype() a cached object built with the other width is "
                   "returned and its codes are reinterpreted" % (nm, f.name, ", ".join(dep[:3])), node=f.node, key="memo", engine="E3")
    if not n:
        ctx.holds("C19.e", VB + "set_dtype", what, key="memo:none", engine="E3", detail="no memoising decorator in the tree; recogniser exercised on the built-in sample")


def exported_width(ctx, tk):
    """codes handed out for storage (to_dict) and read back (from_dict) use the same width rule: both the configured
    dtype; a fixed width on one side only is reinterpreted by the other"""
    what = "the stored code array is neither widened nor narrowed to a fixed width (from_dict reinterprets it in the configured width)"
    for cq in ("raggedshape.RaggedShape", "raggedshape.RaggedView", "raggedshape.RaggedView2", "raggedshape.ViewBase"):
        c = ctx.program.classes.get(cq)
        if c is None:
            continue
        for m in c.methods.values():
            if m.name not in ("to_dict", "from_dict", "__getstate__", "__setstate__", "__reduce__"):
                continue
            fa = ctx.fa(m)
            for r in fa.cfg.returns():
                tm = fa.term(r.ast.value, r)
                fixed = []
                for x in walk(tm):
                    if x.k == "call":
                        dts = [v for k_, v in x.a[2] if k_ == "dtype"]
                        if x.a[0].k == "attr" and x.a[0].a[1] in ("astype", "view") and x.a[1]:
                            dts.append(x.a[1][0])
                        for d in dts:
                            nm = (attr_chain(d) or ("",))[-1] if d.k != "const" else d.a[0]
                            if nm in ("int64", "int32", "int", "intp", "int_", "uint64", "uint32", "i8", "i4"):
                                if any((attr_chain(y) or ("",))[-1] == "_codes" or (y.k == "sub" and y.a[0].k == "param") for y in walk(x)):
                                    fixed.append((x, nm))
                ctx.decide("C19.e", m, what, False if fixed else True,
                           "`%s` fixes the width to %s on one side of the save/load pair: under the other index width the loaded codes are reinterpreted "
                           "(twice as many rows, garbage starts)" % (fixed[0][0] if fixed else "", fixed[0][1] if fixed else ""), node=r.ast, key="width:" + m.name, engine="E6")


def gather(ctx, tk):
    f = ctx.func(VB + "_index_rows")
    fa = ctx.fa(f)
    ip = f.params[1]
    rets = fa.cfg.returns()
    narrow = []
    wide = []
    for r in rets:
        facts = facts_at(fa, r)
        is32 = [truth for t, truth, _ in facts if t.k == "cmp" and t.a[0] == "==" and any((attr_chain(y) or ("",))[-1] == "int32" for y in (t.a[1], t.a[2]))]
        (narrow if is32 == [True] else wide).append(r)
    what = "the 32-bit gather makes its result contiguous before reinterpreting (start, length) words as index pairs"
    if not narrow:
        ctx.unknown("C19.a", f, what, "32-bit branch not recognised", engine="E7")
    for r in narrow:
        tm = fa.term(r.ast.value, r)
        # extra dispatch inside the narrow branch (scalar fast paths etc.) must not bypass the general gather
        facts = facts_at(fa, r)
        extra = [t for t, truth, _ in facts if truth and t.k == "call" and call_name(t) == "isinstance" and t.a[1] and t.a[1][0].k == "param" and t.a[1][0].a[0] == ip]
        if extra:
            # a special case for some index kind: its addressing must handle negative indices like subscripting does
            sl = [x for x in walk(tm) if x.k == "sub" and x.a[1].k == "slice" and any(y.k == "param" and y.a[0] == ip for y in walk(x.a[1]))]
            if sl:
                ctx.violated("C19.a", f, "the 32-bit gather treats every index kind like plain subscripting does (negative integers count from the end, out-of-range integers are refused)",
                             "`%s` addresses row idx as the slice [2*idx : 2*idx+2]: for idx == -1 the slice is empty and for idx >= n_rows it is silently empty, "
                             "while the 64-bit configuration returns the last row / raises" % (tm,), node=r.ast, key="scalar-fast-path", engine="KB")
            else:
                ctx.unknown("C19.a", f, "special-cased index kind in the 32-bit gather", node=r.ast, engine="KB")
            continue
        if not (tm.k == "call" and tm.a[0].k == "attr" and tm.a[0].a[1] == "view"):
            ctx.unknown("C19.a", f, what, "reinterpreting view not recognised", node=r.ast, engine="E7")
            continue
        src = tm.a[0].a[0]
        contig = _contiguous(src, ip)
        ctx.decide("C19.a", f, what, contig, "`%s` may be a strided view (row slice with a step): ndarray.view cannot change the itemsize of a non-contiguous array, "
                   "so ra[::2] / ra[::-1] raise only under 32-bit indices" % (src,), node=r.ast, key="contiguous", engine="E7")
        subs = [x for x in walk(src) if x.k == "sub" and any(y.k == "param" and y.a[0] == ip for y in alts(x.a[1]))]
        ctx.decide("C19.a", f, "rows are selected by subscripting the packed words with the caller's index", True if subs else None, node=r.ast, key="subscript", engine="KB")
        width_ok = any(x.k == "call" and x.a[0].k == "attr" and x.a[0].a[1] == "view" and x.a[1] and (attr_chain(x.a[1][0]) or ("",))[-1] == "uint64" for x in walk(src))
        ctx.decide("C19.b", f, "a (start, length) pair of 32-bit indices is gathered as one 64-bit word", True if width_ok else None, node=r.ast, key="word", engine="E6")
        back = tm.a[1] and (attr_chain(tm.a[1][0]) or ("",))[-1] == "_dtype"
        ctx.decide("C19.b", f, "the gathered words are viewed back as the configured index dtype (a flat interleaved code array)", True if back else None, node=r.ast, key="view-back", engine="E6")
    for r in wide:
        tm = fa.term(r.ast.value, r)
        flat = tm.k == "call" and tm.a[0].k == "attr" and tm.a[0].a[1] in ("ravel", "flatten")
        pairs = any(x.k == "call" and x.a[0].k == "attr" and x.a[0].a[1] == "reshape" and len(x.a[1]) == 2 and is_const(x.a[1][1], 2) for x in walk(tm))
        ctx.decide("C19.b", f, "the 64-bit gather selects whole (start, length) pairs and returns them flat, like the 32-bit branch",
                   True if (flat and pairs) else (False if pairs and not flat else None), node=r.ast, key="wide", engine="E6")


def _contiguous(src, ip):
    """is `src` contiguous for every index kind of ip?  A gather x[idx] with a caller-chosen idx may be strided;
    np.ascontiguousarray / .copy() / np.array make it contiguous; np.atleast_1d keeps strides"""
    for a in alts(src):
        if np_call(a, {"ascontiguousarray", "array", "copy"}):
            continue
        if a.k == "call" and a.a[0].k == "attr" and a.a[0].a[1] in ("copy", "flatten"):
            continue
        if np_call(a, {"atleast_1d", "asarray", "asanyarray"}) and a.a[1]:
            r = _contiguous(a.a[1][0], ip)
            if r is not True:
                return r
            continue
        if a.k == "sub":
            if any(y.k == "param" and y.a[0] == ip for y in alts(a.a[1])):
                return False
            return None
        return None
    return True


def config(ctx, tk):
    f = ctx.func(VB + "set_dtype")
    fa = ctx.fa(f)
    vb = ctx.program.cls("raggedshape.ViewBase")
    readers = [c for c in ctx.program.classes.values() if any(
        isinstance(x, ast.Attribute) and x.attr == "_dtype" and isinstance(x.ctx, ast.Load) and isinstance(x.value, ast.Name) and m.params and x.value.id == m.params[0]
        for m in c.methods.values() for x in ast.walk(m.node))]
    readers = [c for c in readers if vb in c.mro()]
    what = "set_dtype stores the index dtype on a class that every geometry class reading it inherits from"
    stores = []
    for n in fa.cfg.stmts():
        if n.kind == "stmt" and isinstance(n.ast, ast.Assign) and isinstance(n.ast.targets[0], ast.Attribute) and n.ast.targets[0].attr == "_dtype":
            stores.append((n, fa.term(n.ast.targets[0].value, n)))
    if not stores:
        ctx.violated("C19.c", f, what, "set_dtype stores nothing", engine="E6")
    for n, tgt in stores:
        if tgt.k == "param" and tgt.a[0] == f.params[0]:
            ctx.violated("C19.c", f, what, "`cls._dtype = dtype` configures only the class the classmethod was called through: RaggedShape.set_dtype(np.int32) "
                         "leaves RaggedView at 64 bit, and row selections then reinterpret 32-bit codes as 64-bit ones", node=n.ast, engine="E6")
        else:
            r = ctx.program.resolve_expr_static(f.module, n.ast.targets[0].value, f)
            from ..model import Class
            if isinstance(r, Class):
                ok = all(r in c.mro() for c in readers)
                ctx.decide("C19.c", f, what, ok, "%s is not a base of %s" % (r.qual, [c.qual for c in readers if r not in c.mro()]), node=n.ast, engine="E6")
            else:
                ctx.unknown("C19.c", f, what, node=n.ast, engine="E6")
    # no subclass shadows the class attribute
    shadow = [c.qual for c in ctx.program.subclasses(vb) if c is not vb and "_dtype" in c.attrs]
    ctx.decide("C19.c", f, "no geometry subclass shadows the configured index dtype", not shadow, "shadowed in %s" % shadow, key="shadow", engine="E6")
    ctx.decide("C19.c", f, "set_dtype is a classmethod (configures the class, not an instance)", f.is_classmethod, key="classmethod", engine="E6")


def threading(ctx, tk):
    """the configured dtype is used where geometry arrays are created"""
    for q, what in ((VB + "__init__", "start/length codes are converted to the configured index dtype"),
                    ("raggedshape.RaggedShape.__init__", "row lengths and their prefix sums use the configured index dtype")):
        f = ctx.func(q)
        fa = ctx.fa(f)
        # every conversion of a constructor parameter into an array either names the configured dtype or is nested in one that does
        bare = []
        n_calls = 0
        for n, c in find_calls(fa, lambda c: np_call(c, {"asanyarray", "asarray", "array"}) and c.a[1] and any(a.k == "param" for a in alts(c.a[1][0]))):
            n_calls += 1
            if not any((attr_chain(y) or ("",))[-1] == "_dtype" for y in walk(c)):
                # is it wrapped by an enclosing conversion with the dtype?  (asanyarray(x).astype(self._dtype))
                wrapped = False
                for m_ in fa.cfg.stmts():
                    for e_ in ([m_.ast.value] if m_.kind == "stmt" and isinstance(m_.ast, ast.Assign) else []):
                        t_ = fa.term(e_, m_)
                        for y in walk(t_):
                            if y.k == "call" and y is not c and any(z == c for z in walk(y)) and _direct_dtype(y):
                                wrapped = True
                if not wrapped:
                    bare.append(c)
        ctx.decide("C19.d", f, what, (not bare) if n_calls else None,
                   "`%s` converts a parameter without the configured index dtype: codes of another width are later reinterpreted with the configured one" % (bare[0] if bare else "",),
                   key="threaded", engine="E6")


PROMOTING = {"cumsum", "sum", "cumprod", "prod", "accumulate", "reduce"}


def coded_in_configured_width(ctx, tk):
    """a code array handed to a constructor with is_coded=True is reinterpreted (`.view(_dtype)`) in the configured index
    width.  KB: np.cumsum / np.sum / add.accumulate / add.reduce promote int32 to the platform integer (int64) unless a dtype is
    given: codes built through them are 64-bit and are mis-read as pairs of 32-bit numbers under 32-bit indices"""
    what = "codes passed with is_coded=True are in the configured index dtype (no silently promoting numpy reduction in their derivation)"
    n_sites = 0
    for q, f in sorted(ctx.program.funcs.items()):
        fa = ctx.fa(f)
        for n, c in find_calls(fa, lambda c: any(k_ == "is_coded" and is_const(v, True) for k_, v in c.a[2]) and c.a[1]):
            n_sites += 1
            codes = c.a[1][0]
            promoting = []
            for x in walk(codes):
                if x.k == "call":
                    nm = (attr_chain(x.a[0]) or ("",))[-1]
                    if nm in PROMOTING and "dtype" not in dict(x.a[2]) and "out" not in dict(x.a[2]):
                        promoting.append(x)
            # a freshly allocated code buffer carries the configured dtype, not the dtype some other array happens to have
            for x in walk(codes):
                if np_call(x, {"zeros", "empty", "ones", "full", "zeros_like", "empty_like"}):
                    dt = dict(x.a[2]).get("dtype")
                    # ... `_dtype` itself, or the dtype of the object's own code buffer / of a view of it (already in the configured width)
                    ok_dt = dt is not None and ((attr_chain(dt) or ("",))[-1] == "_dtype" or hazards.index_typed(dt))
                    if dt is not None and not ok_dt and dt.k == "attr" and dt.a[1] == "dtype":
                        promoting.append(x)
            recast = any(x.k == "call" and x.a[0].k == "attr" and x.a[0].a[1] == "astype" and x.a[1] and (attr_chain(x.a[1][0]) or ("",))[-1] == "_dtype" for x in alts(codes)) or \
                any(np_call(x, {"asarray", "asanyarray", "array"}) and (attr_chain(dict(x.a[2]).get("dtype")) or ("",))[-1] == "_dtype" for x in alts(codes) if x.k == "call" and dict(x.a[2]).get("dtype") is not None)
            ctx.decide("C19.f", f, what, False if (promoting and not recast) else True,
                       "`%s` is part of the codes: its dtype is not tied to the configured index width (a promoting reduction, or a buffer typed after another array), so under "
                       "32-bit indices the coded array can be 64-bit and is then reinterpreted as twice as many 32-bit numbers" % (promoting[0] if promoting else "",),
                       node=c.node, key="coded:%s" % f.name, engine="KB")
    if not n_sites:
        ctx.unknown("C19.f", VB + "__init__", what, "no coded construction found", engine="KB")


def no_narrowing_before_validation(ctx, tk):
    """user-supplied (row, column) numbers are validated as given: converting them to the configured index dtype first
    wraps an out-of-range 64-bit number into range under 32-bit indices (column 2**32+1 becomes column 1)"""
    what = "caller-supplied indices are not converted to the index dtype before the bounds check"
    for q in ("raggedarray.indexablearray.IndexableArray._get_element", "raggedarray.indexablearray.IndexableArray._get_row"):
        f = ctx.program.funcs.get(q)
        if f is None:
            continue
        fa = ctx.fa(f)
        bad = []
        for n, c in find_calls(fa, lambda c: (np_call(c, {"asarray", "asanyarray", "array"}) and dict(c.a[2]).get("dtype") is not None) or (c.a[0].k == "attr" and c.a[0].a[1] == "astype" and c.a[1])):
            dt = dict(c.a[2]).get("dtype") if np_call(c, {"asarray", "asanyarray", "array"}) else c.a[1][0]
            if (attr_chain(dt) or ("",))[-1] != "_dtype" and not any((attr_chain(y) or ("",))[-1] == "_dtype" for y in walk(dt)):
                continue
            src = c.a[1][0] if np_call(c, {"asarray", "asanyarray", "array"}) else c.a[0].a[0]
            if any(y.k == "param" and y.a[0] in f.params[1:] for y in walk(src)) or any(y.k == "elem" for y in walk(src)):
                bad.append(c)
        ctx.decide("C19.f", f, what, False if bad else True,
                   "`%s` narrows a caller-supplied index to the configured width before it is validated: under 32-bit indices an index 2**32 + k is accepted as k" % (bad[0] if bad else "",),
                   node=bad[0].node if bad else None, key="narrowing:%s" % f.name, engine="KB")
