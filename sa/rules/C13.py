"""C13 - bit-packing is lossless and position-addressable.

Decided: dimensional consistency of the register / entry / bit arithmetic (E5 units: a register index is
position // entries-per-register, an in-register offset position % entries-per-register, only offset * bit-stride
may be a shift amount, a shift amount is never reduced modulo the register size); truncation to the logical
length; mask/width relation; the divisibility refusal; repacking with the same stride; operands not written (E3).
Not decided: shift directions, register-straddling arithmetic of sliding_window, packed values.
"""
import ast
from ..lib import Toolkit
from ..guards import Formulas, check_guard, find_calls, facts_at
from ..terms import alts, attr_chain, walk, is_const, call_name, np_call
from ..units import Units, bit_table, NUM
from .. import wellformed as W

LEVEL_TEXT = ("static unit inference (E5) over BitArray's register/entry/bit arithmetic, must-pass truncation and guard rules (E1), "
              "effect analysis (E3); a thin structural claim: necessary conditions of C13, not the bit patterns")
ASSUMPTIONS = ["numpy evaluates a shift of a uint64 by 64 to 0 (so a shift amount equal to the register size is meaningful)",
               "unit seeds: _register_size bits/register, _bit_stride bits/entry, _n_entries_per_register entries/register, _shifts bits, "
               "_offset and index parameters entries, _mask a value mask"]
MIN_OBLIGATIONS = 12
BA = "bitarray.BitArray."
SEEDS = {"_register_size": "BR", "_bit_stride": "BE", "_n_entries_per_register": "ER", "_shifts": "B", "_mask": "VM", "_offset": "E", "_data": "V"}


def seed_for(f):
    selfn = f.params[0] if f.params else None
    entry_params = {"idx", "window_size"}
    stride_params = {"bit_stride"}

    def seed(t):
        c = attr_chain(t)
        if c and len(c) == 2 and c[0] == selfn and c[1] in SEEDS:
            return SEEDS[c[1]]
        if t.k == "param" and t.a[0] in entry_params:
            return "E"
        if t.k == "param" and t.a[0] in stride_params:
            return "BE"
        if t.k == "sub" and attr_chain(t.a[0]) == (selfn, "_shape") and is_const(t.a[1], 0):
            return "E"
        return None
    return seed


def check(ctx, tier):
    tk = Toolkit(ctx)
    cls = ctx.program.cls("bitarray.BitArray")
    for name in ("__init__", "pack", "unpack", "__getitem__", "sliding_window"):
        m = cls.methods.get(name)
        if m is None:
            from ..model import AnalysisError
            raise AnalysisError("anchor method bitarray.BitArray.%s not found" % name)
        unit_rules(ctx, tk, m)
    truncation(ctx, tk)
    mask_rule(ctx, tk)
    pack_rules(ctx, tk)
    window_mask_order(ctx, tk)
    window_admitted(ctx, tk)
    register_joins(ctx, tk, cls)
    empty_input(ctx, tk)
    offset_contract(ctx, tk)
    fs = [cls.methods[n] for n in ("pack", "unpack", "__getitem__", "sliding_window")]
    tk.purity("C13.e", fs, "packing and reading do not modify the caller's arrays or the packed data", content_only=True)
    W.report(ctx, tk, "C13.f", fs + [cls.methods["__init__"]])
    from .. import hazards as _hz, scopes as _sc
    _hz.generic(ctx, tk, "C13.z", _sc.scope(tk, "C13", depth=1))
    return {}


def unit_rules(ctx, tk, m):
    fa = ctx.fa(m)
    U = Units(seed_for(m), bit_table, wrappers=("_dtype", "uint64", "uint8", "int"))
    selfn = m.params[0]
    n_checked = 0
    for n in fa.cfg.stmts():
        exprs = []
        if n.kind == "stmt" and isinstance(n.ast, (ast.Assign, ast.AugAssign, ast.Return)) and getattr(n.ast, "value", None) is not None:
            exprs.append(n.ast.value)
        if n.kind == "stmt" and isinstance(n.ast, ast.AugAssign):
            exprs.append(n.ast.target)
        for e in exprs:
            tm = fa.term(e, n)
            U.unit(tm)
            for x in walk(tm):
                if x.k == "bin":
                    U.unit(x)
                # index into the packed data must be a register index
                if x.k == "sub" and attr_chain(x.a[0]) == (selfn, "_data") and x.a[1].k not in ("slice", "tuple"):
                    u = U.unit(x.a[1])
                    n_checked += 1
                    ctx.decide("C13.a", m, "the packed data is indexed by a register index (position // entries-per-register)",
                               True if u == "R" else (False if u in ("E", "B", "ER", "BE", "BR") else None), "index has unit %s" % u, node=e, key="data-index", engine="E5")
                if x.k == "bin" and x.a[0] in ("<<", ">>"):
                    u = U.unit(x.a[2])
                    if u is not None and u != NUM:
                        n_checked += 1
                        ctx.decide("C13.a", m, "shift amounts are bit counts (entry offset * bit stride)", True if u == "B" else (False if u in ("E", "R", "ER") else None),
                                   "shift amount has unit %s" % u, node=e, key="shift:%s" % x.lineno, engine="E5")
    for (t, why, l, r) in U.bad:
        ctx.violated("C13.a", m, "register / entry / bit arithmetic is dimensionally consistent", "%s: %s" % (t, why), node=t.node, engine="E5")
    if not U.bad:
        ctx.holds("C13.a", m, "register / entry / bit arithmetic is dimensionally consistent", key="units", engine="E5")
    # derived quantities
    if m.name == "__init__":
        for n in fa.cfg.stmts():
            if n.kind == "stmt" and isinstance(n.ast, ast.Assign) and isinstance(n.ast.targets[0], ast.Attribute):
                want = SEEDS.get(n.ast.targets[0].attr)
                if want in ("ER", "B"):
                    u = U.unit(fa.term(n.ast.value, n))
                    ctx.decide("C13.a", m, "%s is computed as %s" % (n.ast.targets[0].attr, {"ER": "register size // bit stride", "B": "bit stride * entry offsets"}[want]),
                               True if u == want else (False if u not in (None, NUM) else None), "computed unit %s" % u, node=n.ast, key="init:" + n.ast.targets[0].attr, engine="E5")


def truncation(ctx, tk):
    f = ctx.func(BA + "unpack")
    fa = ctx.fa(f)
    selfn = f.params[0]
    for r in fa.cfg.returns():
        tm = fa.term(r.ast.value, r)
        ok = None
        if tm.k == "sub" and tm.a[1].k == "slice":
            hi = tm.a[1].a[1]
            ok = hi.k == "sub" and attr_chain(hi.a[0]) == (selfn, "_shape") and is_const(hi.a[1], 0) and is_const(tm.a[1].a[0], None)
        else:
            ok = False
        ctx.decide("C13.b", f, "unpack truncates the unpacked registers to the logical length", ok,
                   "the padding entries of the last register are returned as data", node=r.ast, engine="E1")
    g = ctx.func(BA + "sliding_window")
    ga = ctx.fa(g)
    for r in ga.cfg.returns():
        tm = ga.term(r.ast.value, r)
        ok = None
        if tm.k == "sub" and tm.a[1].k == "slice":
            hi = tm.a[1].a[1]
            # length - window + 1
            ok = hi.k == "bin" and hi.a[0] == "+" and is_const(hi.a[2], 1) and hi.a[1].k == "bin" and hi.a[1].a[0] == "-" \
                and hi.a[1].a[1].k == "sub" and attr_chain(hi.a[1].a[1].a[0]) == (selfn, "_shape") and hi.a[1].a[2].k == "param"
            if hi.k == "bin" and not ok:
                ok = False
        else:
            ok = None if tm.k == "call" else False       # a delegation (e.g. a shortcut for one window size) is not decided here
        ctx.decide("C13.b", g, "sliding_window returns length - window + 1 windows", ok, "window count is %s" % (tm.a[1] if tm.k == "sub" else tm,), node=r.ast, engine="E1")


def mask_rule(ctx, tk):
    f = ctx.func(BA + "__init__")
    fa = ctx.fa(f)
    for n in fa.cfg.stmts():
        if n.kind == "stmt" and isinstance(n.ast, ast.Assign) and isinstance(n.ast.targets[0], ast.Attribute) and n.ast.targets[0].attr == "_mask":
            tm = fa.term(n.ast.value, n)
            ok = None
            for x in walk(tm):
                if x.k == "bin" and x.a[0] == "-" and is_const(x.a[2], 1):
                    p = x.a[1]
                    if p.k == "bin" and p.a[0] == "**" and is_const(p.a[1], 2) and p.a[2].k == "param" and p.a[2].a[0] == "bit_stride":
                        ok = True
                    elif p.k == "bin" and p.a[0] == "<<" and is_const(p.a[1], 1) and p.a[2].k == "param" and p.a[2].a[0] == "bit_stride":
                        ok = True
                    elif p.k == "bin" and p.a[0] in ("**", "<<"):
                        ok = False
            ctx.decide("C13.c", f, "the value mask has exactly bit_stride low bits set (2**bit_stride - 1)", ok, "mask is %s" % (tm,), node=n.ast, engine="E5")


def pack_rules(ctx, tk):
    f = ctx.func(BA + "pack")
    fa = ctx.fa(f)
    sinks = [r for r in fa.cfg.returns()]

    def m(t):
        if t.k == "cmp" and t.a[0] in ("==", "!=") and is_const(t.a[2], 0) and t.a[1].k == "bin" and t.a[1].a[0] == "%":
            l, r = t.a[1].a[1], t.a[1].a[2]
            if (attr_chain(l) or ("",))[-1] == "_register_size" and r.k == "param" and r.a[0] == "bit_stride":
                return ("divides", t.a[0] == "==")
        return None
    check_guard(ctx, "C13.d", f, sinks, Formulas([m]), lambda A: A["divides"], ["divides"],
                "pack refuses bit strides that do not divide the register size", fa=fa,
                describe="entries would straddle registers")
    for r in sinks:
        tm = fa.term(r.ast.value, r)
        if tm.k == "call" and len(tm.a[1]) >= 3:
            ok = tm.a[1][1].k == "param" and tm.a[1][1].a[0] == "bit_stride" and tm.a[1][2].k == "attr" and tm.a[1][2].a[1] == "shape"
            ctx.decide("C13.d", f, "the packed array records the stride it was packed with and the logical shape of the input", True if ok else None, node=r.ast, key="ctor", engine="E6")
    g = ctx.func(BA + "__getitem__")
    ga = ctx.fa(g)
    for n, c in find_calls(ga, lambda c: c.a[0].k == "attr" and c.a[0].a[1] == "pack"):
        if len(c.a[1]) >= 2:
            ok = attr_chain(c.a[1][1]) == (g.params[0], "_bit_stride")
            ctx.decide("C13.d", g, "a position-list selection is repacked with the array's own bit stride", True if ok else (False if c.a[1][1].k == "const" else None),
                       "repacked with %s" % (c.a[1][1],), node=c.node, engine="E6")


def window_mask_order(ctx, tk):
    g = ctx.func(BA + "sliding_window")
    ga = ctx.fa(g)
    ors = [n for n in ga.cfg.stmts() if n.kind == "stmt" and isinstance(n.ast, ast.AugAssign) and isinstance(n.ast.op, ast.BitOr)]
    ands = [n for n in ga.cfg.stmts() if n.kind == "stmt" and ((isinstance(n.ast, ast.AugAssign) and isinstance(n.ast.op, ast.BitAnd)) or
            (isinstance(n.ast, (ast.Assign, ast.Return)) and n.ast.value is not None and any(isinstance(x, ast.BinOp) and isinstance(x.op, ast.BitAnd) for x in ast.walk(n.ast.value))))]
    what = "windows are masked to the window width after the bits of the next register were OR-ed in"
    if not ors:
        ctx.unknown("C13.c", g, what, "cross-register OR not recognised", engine="E1")
    else:
        ok = all(all(ga.cfg.must_pass([a for a in ands if a is not o], r, start=o) for r in ga.cfg.returns()) for o in ors)
        ctx.decide("C13.c", g, what, True if ok else False, "no mask is applied after the cross-register OR: digits of the next register beyond the window width leak into the window",
                   node=ors[0].ast, key="mask-after-or", engine="E1")
    f = ctx.func(BA + "unpack")
    fa = ctx.fa(f)
    for n, c in find_calls(fa, lambda c: np_call(c, {"unpackbits"})):
        bo = dict(c.a[2]).get("bitorder")
        ctx.decide("C13.b", f, "entries are unpacked least-significant first (the order pack() shifts them in)", True if (bo is not None and is_const(bo, "little")) else False,
                   "np.unpackbits defaults to bitorder='big': the entries of every byte come back reversed", node=c.node, key="bitorder", engine="KB")


def window_admitted(ctx, tk):
    """every window with w * b <= 64 is served, the widest one (w == 64 / b entries, the whole register) included: an
    argument check on the window width must admit equality with the register capacity"""
    from ..guards import refusals
    g = ctx.func(BA + "sliding_window")
    ga = ctx.fa(g)
    wname = g.params[1] if len(g.params) > 1 else None
    what = "no argument check refuses a window that fits a register (w * b <= register size, the full register included)"

    def mentions_w(e):
        return any(isinstance(x, ast.Name) and x.id == wname for x in ast.walk(e))

    def capacity(e):
        return any(isinstance(x, ast.Attribute) and x.attr in ("_n_entries_per_register", "_register_size") for x in ast.walk(e)) or \
            (isinstance(e, ast.Constant) and e.value == 64)
    verdict, why, node = True, "", None
    for tn, truth in refusals(ga):
        if not mentions_w(tn.ast):
            continue
        for x in ast.walk(tn.ast):
            if not isinstance(x, ast.Compare):
                continue
            for l, op, r in zip([x.left] + x.comparators[:-1], x.ops, x.comparators):
                if mentions_w(l) and capacity(r):
                    rel = type(op)
                elif mentions_w(r) and capacity(l):
                    rel = {ast.Lt: ast.Gt, ast.Gt: ast.Lt, ast.LtE: ast.GtE, ast.GtE: ast.LtE}.get(type(op), type(op))
                else:
                    continue
                # is the comparison in negated position?  (only plain `not` handled; anything else -> unknown)
                neg = any(isinstance(u, ast.UnaryOp) and isinstance(u.op, ast.Not) and any(y is x for y in ast.walk(u)) for u in ast.walk(tn.ast))
                refuses_when = truth != neg      # the comparison's own truth value on the refusing edge
                # equality refused:  pass requires `w < cap` (refusing on its falsity)  /  refuse when `w >= cap` / `w == cap`
                eq_refused = (rel is ast.Lt and not refuses_when) or (rel in (ast.GtE, ast.Eq) and refuses_when) or (rel is ast.NotEq and not refuses_when)
                eq_fine = (rel is ast.LtE and not refuses_when) or (rel is ast.Gt and refuses_when)
                if eq_refused:
                    verdict, why, node = False, "`%s` refuses the widest legal window (window_size == entries per register, w * b == 64)" % ast.unparse(x), x
                elif not eq_fine and verdict is True:
                    verdict, why, node = None, "argument check `%s` not understood" % ast.unparse(x), x
    ctx.decide("C13.g", g, what, verdict, why, node=node, key="window-admitted", engine="E1")


def register_joins(ctx, tk, cls):
    """uint64 registers joined with a Python int (np.append(regs, 0), np.concatenate((regs, [0])), np.hstack) have no common
    integer type with it: numpy answers float64, and register values above 2**53 lose their low bits before the cast back"""
    what = "registers are extended with values of the register type (no int64 / float64 promotion on the way)"
    n = 0
    for name, m in sorted(cls.methods.items()):
        for x in ast.walk(m.node):
            if not (isinstance(x, ast.Call) and isinstance(x.func, ast.Attribute) and x.func.attr in ("append", "concatenate", "hstack", "r_")):
                continue
            n += 1
            operands = list(x.args)
            if x.func.attr in ("concatenate", "hstack") and operands and isinstance(operands[0], (ast.Tuple, ast.List)):
                operands = list(operands[0].elts)
            regs = [o for o in operands if any(isinstance(y, ast.Attribute) and y.attr == "_data" for y in ast.walk(o))]
            untyped = [o for o in operands if (isinstance(o, ast.Constant) and isinstance(o.value, int)) or
                       (isinstance(o, (ast.List, ast.Tuple)) and all(isinstance(e, ast.Constant) for e in o.elts))]
            if regs and untyped:
                ctx.violated("C13.h", m, what, "`%s` joins the uint64 registers with the untyped `%s`: the result is float64 (uint64 and int64 have no common integer type), "
                             "exact only below 2**53" % (ast.unparse(x), ast.unparse(untyped[0])), node=x, engine="KB")
            elif regs:
                ctx.holds("C13.h", m, what, node=x, engine="KB")
    if n == 0:
        ctx.holds("C13.h", cls.methods["sliding_window"], what + " [no joins]", engine="KB")


def empty_input(ctx, tk):
    """pack accepts every length, 0 included: array.min() / array.max() raise ValueError on an empty array, so a value check built on
    them must be skipped for empty input"""
    f = ctx.func(BA + "pack")
    fa = ctx.fa(f)
    what = "packing an empty array is not refused (no extremum of the input without a size test)"
    bad = None
    for n in fa.cfg.nodes:
        if n.ast is None or not fa.cfg.is_reachable(n) or n.kind not in ("test", "stmt"):
            continue
        for x in ast.walk(n.ast):
            if isinstance(x, ast.Call) and ((isinstance(x.func, ast.Attribute) and x.func.attr in ("min", "max", "amin", "amax", "ptp")) ) and not any(k.arg == "initial" for k in x.keywords):
                recv = x.func.value if not (isinstance(x.func.value, ast.Name) and x.func.value.id in ("np", "numpy")) else (x.args[0] if x.args else None)
                if recv is None or not any(isinstance(y, ast.Name) and y.id in f.params for y in ast.walk(recv)):
                    continue
                sized = any(any((isinstance(y, ast.Attribute) and y.attr == "size") or (isinstance(y, ast.Call) and isinstance(y.func, ast.Name) and y.func.id == "len") for y in ast.walk(test.ast))
                            for test, truth in fa.cfg.facts_at(n))
                def mentions_size(e):
                    return any((isinstance(y, ast.Attribute) and y.attr == "size") or (isinstance(y, ast.Call) and isinstance(y.func, ast.Name) and y.func.id == "len") for y in ast.walk(e))
                in_stmt_guard = False
                for b in ast.walk(n.ast):
                    if isinstance(b, ast.BoolOp):
                        for i, v in enumerate(b.values):
                            if any(y is x for y in ast.walk(v)) and any(mentions_size(u) for u in b.values[:i]):
                                in_stmt_guard = True
                    if isinstance(b, ast.IfExp) and mentions_size(b.test) and any(y is x for y in ast.walk(b)):
                        in_stmt_guard = True
                if not sized and not in_stmt_guard:
                    bad = x
    ctx.decide("C13.i", f, what, bad is None, "`%s` raises ValueError for an input without elements" % (ast.unparse(bad) if bad is not None else "",),
               node=bad, key="empty-input", engine="KB")


def offset_contract(ctx, tk):
    """the entry offset of a BitArray is honoured by the element reader only; the bulk decoders (unpack,
    sliding_window) start at position 0 of the registers.  That is consistent as long as every BitArray is
    constructed with offset 0: a construction site passing another offset needs decoders that read it"""
    init = ctx.func("bitarray.BitArray.__init__")
    if "offset" not in init.params:
        ctx.holds("C13.f", init, "BitArray has no entry offset", key="offset", engine="E7")
        return
    pos = init.params.index("offset") - 1
    decoders = [ctx.func("bitarray.BitArray." + n) for n in ("unpack", "sliding_window")]
    blind = [d for d in decoders if not any(isinstance(x, ast.Attribute) and x.attr == "_offset" for x in ast.walk(d.node))]
    what = "every BitArray is constructed with the offset its decoders assume (unpack / sliding_window decode from position 0)"
    n = 0
    for cfa, c in tk.R.call_sites(init):
        arg = dict(c.a[2]).get("offset", c.a[1][pos] if len(c.a[1]) > pos else None)
        n += 1
        if arg is None or all(is_const(a, 0) for a in alts(arg)):
            ctx.holds("C13.f", cfa.func, what, node=c.node, key="offset:%s" % cfa.func.name, engine="E7")
        elif blind:
            ctx.violated("C13.f", cfa.func, what, "`%s` builds a BitArray whose entries start at offset %s, but %s never read the offset: they decode the "
                         "source's entries from position 0" % (c, arg, ", ".join(d.name for d in blind)), node=c.node, key="offset:%s" % cfa.func.name, engine="E7")
        else:
            ctx.holds("C13.f", cfa.func, what, node=c.node, key="offset:%s" % cfa.func.name, engine="E7")
    if not n:
        ctx.unknown("C13.f", init, what, "no construction site resolved", key="offset", engine="E7")
