"""E0 - statement-level control-flow graph for one function.

Nodes: entry, exit (normal return / fall-through), raise_exit, stmt, test
(a branch condition), edge (one synthetic node per outgoing branch edge of a
test, carrying (test-node, truth) so that dominance of an *edge* is dominance of
a node), for (iterator step + target binding), with, handler.
"""
import ast


class Node:
    __slots__ = ("id", "kind", "ast", "succ", "pred", "info", "origin")

    def __init__(self, id, kind, ast_node=None, info=None, origin=None):
        self.id = id
        self.kind = kind
        self.ast = ast_node
        self.succ = []
        self.pred = []
        self.info = info          # edge: (test node, truth) ; for: body/exit handled by edge nodes too
        self.origin = origin      # the statement a test came from (If / While / Assert)

    @property
    def lineno(self):
        n = self.ast if self.ast is not None else None
        if n is None and self.kind == "edge":
            n = self.info[0].ast
        return getattr(n, "lineno", 0)

    def __repr__(self):
        return "<%s#%d L%s>" % (self.kind, self.id, self.lineno)


class CFG:
    def __init__(self, fnode):
        self.fnode = fnode
        self.nodes = []
        self.entry = self._new("entry")
        self.exit = self._new("exit")
        self.raise_exit = self._new("raise_exit")
        self._loops = []
        self._handlers = []
        ends = self._seq(fnode.body, [self.entry])
        for e in ends:
            self._link(e, self.exit)
        self._finish()

    # -- construction --------------------------------------------------
    def _new(self, kind, ast_node=None, info=None, origin=None):
        n = Node(len(self.nodes), kind, ast_node, info, origin)
        self.nodes.append(n)
        if self._handlers_active() and kind in ("stmt", "test", "for", "with"):
            for h in self._handlers[-1]:
                self._link(n, h)
        return n

    def _handlers_active(self):
        return bool(getattr(self, "_handlers", None))

    def _link(self, a, b):
        if b not in a.succ:
            a.succ.append(b)
            b.pred.append(a)

    def _seq(self, stmts, preds):
        for st in stmts:
            preds = self._stmt(st, preds)
        return preds

    def _branch(self, test_node, truth):
        e = self._new("edge", None, (test_node, truth))
        self._link(test_node, e)
        return e

    def _stmt(self, st, preds):
        if isinstance(st, ast.If):
            t = self._new("test", st.test, origin=st)
            for p in preds:
                self._link(p, t)
            et = self._branch(t, True)
            ef = self._branch(t, False)
            a = self._seq(st.body, [et])
            b = self._seq(st.orelse, [ef])
            return a + b
        if isinstance(st, ast.Assert):
            t = self._new("test", st.test, origin=st)
            for p in preds:
                self._link(p, t)
            et = self._branch(t, True)
            ef = self._branch(t, False)
            self._link(ef, self.raise_exit)
            return [et]
        if isinstance(st, ast.While):
            t = self._new("test", st.test, origin=st)
            for p in preds:
                self._link(p, t)
            et = self._branch(t, True)
            ef = self._branch(t, False)
            self._loops.append(([], t))
            body_end = self._seq(st.body, [et])
            breaks, _ = self._loops.pop()
            for b in body_end:
                self._link(b, t)
            after = self._seq(st.orelse, [ef])
            return after + breaks
        if isinstance(st, (ast.For, ast.AsyncFor)):
            f = self._new("for", st, origin=st)
            for p in preds:
                self._link(p, f)
            eb = self._branch(f, True)      # one more element: bind target, run body
            ee = self._branch(f, False)     # exhausted
            self._loops.append(([], f))
            body_end = self._seq(st.body, [eb])
            breaks, _ = self._loops.pop()
            for b in body_end:
                self._link(b, f)
            after = self._seq(st.orelse, [ee])
            return after + breaks
        if isinstance(st, ast.Break):
            n = self._new("stmt", st)
            for p in preds:
                self._link(p, n)
            if self._loops:
                self._loops[-1][0].append(n)
            return []
        if isinstance(st, ast.Continue):
            n = self._new("stmt", st)
            for p in preds:
                self._link(p, n)
            if self._loops:
                self._link(n, self._loops[-1][1])
            return []
        if isinstance(st, ast.Return):
            n = self._new("stmt", st)
            for p in preds:
                self._link(p, n)
            self._link(n, self.exit)
            return []
        if isinstance(st, ast.Raise):
            n = self._new("stmt", st)
            for p in preds:
                self._link(p, n)
            if not self._handlers_active():
                self._link(n, self.raise_exit)
            return []
        if isinstance(st, (ast.With, ast.AsyncWith)):
            n = self._new("with", st, origin=st)
            for p in preds:
                self._link(p, n)
            return self._seq(st.body, [n])
        if isinstance(st, ast.Try) or (hasattr(ast, "TryStar") and isinstance(st, ast.TryStar)):
            hnodes = [Node(-1, "handler", h, origin=st) for h in st.handlers]
            for h in hnodes:
                h.id = len(self.nodes)
                self.nodes.append(h)
            self._handlers.append(hnodes)
            body_end = self._seq(st.body, preds)
            self._handlers.pop()
            for p in preds:              # an exception may occur before the first statement completes
                for h in hnodes:
                    self._link(p, h)
            else_end = self._seq(st.orelse, body_end)
            ends = list(else_end)
            for h in hnodes:
                ends += self._seq(h.ast.body, [h])
            if st.finalbody:
                ends = self._seq(st.finalbody, ends)
            return ends
        if hasattr(ast, "Match") and isinstance(st, ast.Match):
            n = self._new("stmt", st)
            for p in preds:
                self._link(p, n)
            ends = [n]
            for c in st.cases:
                ends += self._seq(c.body, [n])
            return ends
        # simple statement (incl. nested def/class as a binding statement)
        n = self._new("stmt", st)
        for p in preds:
            self._link(p, n)
        return [n]

    # -- analyses ------------------------------------------------------
    def _finish(self):
        seen = set()
        stack = [self.entry]
        while stack:
            n = stack.pop()
            if n.id in seen:
                continue
            seen.add(n.id)
            stack.extend(n.succ)
        self.reachable = seen
        self._dom = None
        self._pdom = None

    def is_reachable(self, n):
        return n.id in self.reachable

    def rpo(self):
        order, seen = [], set()

        def dfs(n):
            stack = [(n, iter(n.succ))]
            seen.add(n.id)
            while stack:
                node, it = stack[-1]
                adv = False
                for s in it:
                    if s.id not in seen:
                        seen.add(s.id)
                        stack.append((s, iter(s.succ)))
                        adv = True
                        break
                if not adv:
                    order.append(node)
                    stack.pop()
        dfs(self.entry)
        order.reverse()
        return order

    def dominators(self):
        """dom[n.id] = set of node ids dominating n (reachable nodes only)"""
        if self._dom is not None:
            return self._dom
        order = self.rpo()
        allids = set(n.id for n in order)
        dom = {n.id: set(allids) for n in order}
        dom[self.entry.id] = {self.entry.id}
        changed = True
        while changed:
            changed = False
            for n in order:
                if n is self.entry:
                    continue
                ps = [p for p in n.pred if p.id in allids]
                if ps:
                    new = set.intersection(*(dom[p.id] for p in ps))
                else:
                    new = set()
                new = new | {n.id}
                if new != dom[n.id]:
                    dom[n.id] = new
                    changed = True
        self._dom = dom
        return dom

    def dominators_from(self, start):
        """dominator sets in the sub-graph reachable from `start` (start acts as entry)"""
        key = start.id
        cache = self.__dict__.setdefault("_domfrom", {})
        if key in cache:
            return cache[key]
        order, seen = [], set()
        stack = [start]
        while stack:
            n = stack.pop()
            if n.id in seen:
                continue
            seen.add(n.id)
            order.append(n)
            stack.extend(n.succ)
        dom = {n.id: set(seen) for n in order}
        dom[start.id] = {start.id}
        changed = True
        while changed:
            changed = False
            for n in order:
                if n is start:
                    continue
                ps = [p for p in n.pred if p.id in seen]
                new = set.intersection(*(dom[p.id] for p in ps)) if ps else set()
                new = new | {n.id}
                if new != dom[n.id]:
                    dom[n.id] = new
                    changed = True
        cache[key] = dom
        return dom

    def facts_between(self, start, sink):
        """branch facts that hold on every path from `start` to `sink` (start executed first)"""
        d = self.dominators_from(start).get(sink.id)
        if d is None:
            return None
        out = []
        for i in sorted(d):
            m = self.nodes[i]
            if m.kind == "edge" and m.info[0].kind == "test":
                out.append((m.info[0], m.info[1]))
        return out

    def nearest_edge(self, n):
        """the branch-edge node that dominates n and is dominated by every other dominating edge"""
        d = self.dominators().get(n.id, set())
        edges = [self.nodes[i] for i in d if self.nodes[i].kind == "edge" and i != n.id]
        best = None
        for e in edges:
            if all(self.dominates(o, e) for o in edges):
                best = e
        return best

    def dominates(self, a, b):
        d = self.dominators()
        return b.id in d and a.id in d[b.id]

    def facts_at(self, n):
        """branch facts that hold whenever `n` executes: list of (test Node, truth)
        for every branch edge that dominates n, in program order"""
        d = self.dominators().get(n.id, set())
        out = []
        for i in sorted(d):
            m = self.nodes[i]
            if m.kind == "edge" and m.info[0].kind == "test":
                out.append((m.info[0], m.info[1]))
        return out

    def can_reach(self, a, targets, avoid=()):
        """is some node of `targets` reachable from a without passing nodes in avoid"""
        tg = set(t.id for t in targets)
        av = set(x.id for x in avoid)
        seen = set()
        stack = [a]
        while stack:
            n = stack.pop()
            if n.id in seen or n.id in av:
                continue
            seen.add(n.id)
            if n.id in tg:
                return True
            stack.extend(n.succ)
        return False

    def must_pass(self, through, sink, start=None):
        """every path start->sink passes a node of `through`"""
        start = start or self.entry
        return not self.can_reach(start, [sink], avoid=through) or sink in through

    def always_raises_from(self, n):
        """every path from n ends in raise_exit (never a normal exit)"""
        return not self.can_reach(n, [self.exit])

    def stmts(self):
        return [n for n in self.nodes if n.kind in ("stmt", "test", "for", "with") and self.is_reachable(n)]

    def returns(self):
        return [n for n in self.nodes if n.kind == "stmt" and isinstance(n.ast, ast.Return) and self.is_reachable(n)]
