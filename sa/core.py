"""Rule context, obligations (three-valued), evidence, known findings, replay."""
import ast
import json
import os
import time

from .model import Program, AnalysisError, src
from .terms import FuncAnalysis

HOLDS, VIOLATED, UNKNOWN = "holds", "violated", "unknown"
VERIF = os.path.dirname(os.path.dirname(os.path.abspath(__file__)))


class Obligation:
    __slots__ = ("rule", "func", "what", "status", "detail", "file", "line", "key", "engine")

    def __init__(self, rule, func, what, status, detail="", file="", line=0, key=None, engine=""):
        self.rule = rule            # e.g. "C06.a/VC1"
        self.func = func            # qualified function name
        self.what = what            # the obligation, in words
        self.status = status
        self.detail = detail
        self.file = file
        self.line = line
        self.key = key or ""        # normalised construct key (no line numbers)
        self.engine = engine

    def ident(self):
        return "%s|%s|%s" % (self.rule, self.func, self.key)

    def as_dict(self):
        return {"rule": self.rule, "function": self.func, "obligation": self.what, "status": self.status,
                "detail": self.detail, "where": "%s:%s" % (self.file, self.line), "key": self.key,
                "engine": self.engine}


class Ctx:
    """one analysis run over one source tree"""

    def __init__(self, root):
        self.root = root
        self.program = Program(root)
        self._fa = {}
        self.obligations = []
        self.notes = []
        self.suppressed = []
        self._cache = {}

    # -- model access -----------------------------------------------------
    def fa(self, func):
        if isinstance(func, str):
            func = self.program.func(func)
        r = self._fa.get(func.qual)
        if r is None:
            r = self._fa[func.qual] = FuncAnalysis(func, self.program)
        return r

    def func(self, qual):
        return self.program.func(qual)

    def cached(self, key, build):
        if key not in self._cache:
            self._cache[key] = build()
        return self._cache[key]

    # -- reporting --------------------------------------------------------
    def add(self, rule, func, what, status, detail="", node=None, key=None, engine=""):
        f = func if not isinstance(func, str) else self.program.funcs.get(func)
        qual = f.qual if f is not None else str(func)
        file = f.file if f is not None else ""
        line = getattr(node, "lineno", None) or (getattr(node, "line", None)) or (f.lineno if f is not None else 0)
        if key is None:
            key = norm(node) if isinstance(node, ast.AST) else ""
        ob = Obligation(rule, qual, what, status, detail, file, line, key, engine)
        self.obligations.append(ob)
        return ob

    def holds(self, rule, func, what, node=None, key=None, engine="", detail=""):
        return self.add(rule, func, what, HOLDS, detail, node, key, engine)

    def violated(self, rule, func, what, detail, node=None, key=None, engine=""):
        return self.add(rule, func, what, VIOLATED, detail, node, key, engine)

    def unknown(self, rule, func, what, detail="", node=None, key=None, engine=""):
        return self.add(rule, func, what, UNKNOWN, detail, node, key, engine)

    def decide(self, rule, func, what, ok, detail_bad="", node=None, key=None, engine="", detail_ok=""):
        """ok: True -> holds, False -> violated, None -> unknown"""
        if ok is True:
            return self.holds(rule, func, what, node, key, engine, detail_ok)
        if ok is False:
            return self.violated(rule, func, what, detail_bad, node, key, engine)
        return self.unknown(rule, func, what, detail_bad, node, key, engine)


def norm(node):
    """normalised construct text used in finding keys (position-free)"""
    if node is None:
        return ""
    if isinstance(node, ast.AST):
        try:
            s = ast.unparse(node)
        except Exception:
            s = type(node).__name__
    else:
        s = str(node)
    s = " ".join(s.split())
    return s[:160]


# ---------------------------------------------------------------------------
# known findings


def load_known():
    p = os.path.join(VERIF, "known_findings.json")
    if not os.path.exists(p):
        return []
    with open(p) as fh:
        return json.load(fh).get("findings", [])


def match_known(ob, prop, known):
    for k in known:
        if k.get("status") != "open":
            continue
        if k.get("property") != prop:
            continue
        if k.get("rule") and not ob.rule.endswith(k["rule"]) and k["rule"] not in ob.rule:
            continue
        if k.get("function") and k["function"] != ob.func:
            continue
        if k.get("key") and k["key"] != ob.key:
            continue
        if k.get("key_prefix") and not str(ob.key or "").startswith(k["key_prefix"]):
            continue
        return k
    return None


# ---------------------------------------------------------------------------
# evidence / exit protocol


def finish(prop, ctx, tier, t0, level_text, assumptions, extra_cov=None, seed=0):
    """write evidence, replay files; print report; return exit code"""
    known = load_known()
    obs = ctx.obligations
    viol = [o for o in obs if o.status == VIOLATED]
    new_viol, known_hits = [], []
    for o in viol:
        k = match_known(o, prop, known)
        if k is not None:
            known_hits.append((o, k))
        else:
            new_viol.append(o)
    n_hold = sum(1 for o in obs if o.status == HOLDS)
    n_unk = sum(1 for o in obs if o.status == UNKNOWN)
    by_rule = {}
    for o in obs:
        r = by_rule.setdefault(o.rule, {"holds": 0, "violated": 0, "unknown": 0, "functions": set()})
        r[o.status] += 1
        r["functions"].add(o.func)
    for r in by_rule.values():
        r["functions"] = sorted(r["functions"])
    prog = ctx.program
    samples = [o.as_dict() for o in (viol[:5] + [o for o in obs if o.status == HOLDS][:12])]
    distinct = len(set(o.ident() for o in obs if o.status != UNKNOWN))
    cov = {
        "explanation": level_text,
        "obligations": len(obs),
        "discharged": n_hold,
        "unknown_not_alarmed": n_unk,
        "violated": len(viol),
        "evaluations": len(obs),
        "distinct_nontrivial": distinct,
        "rule": "one obligation per (rule instance, function, construct) generated by the static rules from /repo's "
                "current source; distinct = distinct (rule, function, construct-key) triples with a definite verdict; "
                "an obligation is non-trivial when the rule found its anchor construct and decided holds/violated",
        "samples": samples,
        "per_rule": by_rule,
        "analysed": {
            "root": ctx.root,
            "modules": len(prog.modules),
            "functions_parsed": len(prog.funcs),
            "functions_with_cfg": len(ctx._fa),
            "classes": len(prog.classes),
        },
        "suppressions": ctx.suppressed,
        "notes": ctx.notes,
        "known_findings_matched": [k.get("id") for _, k in known_hits],
        "exhaustive": True,
    }
    if extra_cov:
        cov.update(extra_cov)
    ev = {
        "property_id": prop,
        "tier": tier,
        "seed": seed,
        "level": "other",
        "coverage": cov,
        "assumptions": assumptions,
        "wall_s": round(time.time() - t0, 3),
        "violations": len(new_viol),
    }
    evdir = os.environ.get("VERIF_EVIDENCE_DIR") or os.path.join(VERIF, "evidence")   # override: selftest tools only
    os.makedirs(evdir, exist_ok=True)
    with open(os.path.join(evdir, prop + ".json"), "w") as fh:
        json.dump(ev, fh, indent=1, default=str)
    print("%s [%s] root=%s: %d obligations: %d hold, %d violated (%d known), %d unknown; %d functions analysed; %.2fs"
          % (prop, tier, ctx.root, len(obs), n_hold, len(viol), len(known_hits), n_unk, len(ctx._fa), time.time() - t0))
    for r in sorted(by_rule):
        b = by_rule[r]
        print("  rule %-22s holds=%-3d violated=%-2d unknown=%-2d" % (r, b["holds"], b["violated"], b["unknown"]))
    for o in obs:
        if o.status == UNKNOWN:
            print("  unknown  %s %s:%s %s: %s %s" % (o.rule, o.file, o.line, o.func, o.what, ("- " + o.detail) if o.detail else ""))
    seen_known = set()
    for o, k in known_hits:
        if k.get("id") in seen_known:
            continue
        seen_known.add(k.get("id"))
        print("KNOWN-FINDING: property=%s %s [%s %s:%s %s]" % (prop, k.get("what", ""), o.rule, o.file, o.line, o.func))
    rc = 0
    if new_viol:
        rdir = os.path.join(evdir, "replay")
        os.makedirs(rdir, exist_ok=True)
        for i, o in enumerate(new_viol):
            print("  VIOLATED %s %s:%s %s: %s -- %s" % (o.rule, o.file, o.line, o.func, o.what, o.detail))
        path = os.path.join(rdir, "%s.json" % prop)
        with open(path, "w") as fh:
            json.dump({"property": prop, "root": ctx.root, "violations": [o.as_dict() for o in new_viol]}, fh, indent=1)
        print("VIOLATION property=%s replay=%s" % (prop, path))
        rc = 1
    return rc
