#!/venv/bin/python
"""Re-confirm every kept behaviour-preserving change against the current /repo tree (after a repair of /repo): the patch must
still apply (with `patch -p1`, as tools/try_equivalent.py applies it), check.py must pass without and with it.  Scratch
copies under /tmp, removed afterwards."""
import os
import shutil
import subprocess
import sys
import tempfile
from concurrent.futures import ThreadPoolExecutor

PY = "/venv/bin/python"
EQ = "/verif/equivalent"


def one(sid):
    d = os.path.join(EQ, sid)
    chk = os.path.join(d, "check.py")
    if not os.path.exists(chk):
        return sid, "no check.py"
    tmp = tempfile.mkdtemp(prefix="re_%s_" % sid, dir="/tmp")
    try:
        shutil.copytree("/repo/npstructures", os.path.join(tmp, "npstructures"), ignore=shutil.ignore_patterns("__pycache__"))
        r0 = subprocess.run([PY, chk], cwd="/tmp", env=dict(os.environ, PYTHONPATH=tmp), capture_output=True, text=True)
        p = subprocess.run(["patch", "-p1", "-s", "-i", os.path.join(d, "patch.diff")], cwd=tmp, capture_output=True, text=True)
        if p.returncode != 0:
            return sid, "patch does not apply"
        r1 = subprocess.run([PY, chk], cwd="/tmp", env=dict(os.environ, PYTHONPATH=tmp), capture_output=True, text=True)
        if r0.returncode != 0 and r1.returncode != 0 and r0.stdout == r1.stdout:
            # the oracle inside check.py predates a later repair of /repo: what matters here is that the library behaves
            # identically with and without the change
            return sid, None
        if r0.returncode != 0 or r1.returncode != 0:
            return sid, "check.py without=%d with=%d %s" % (r0.returncode, r1.returncode, (r0.stdout + r0.stderr + r1.stdout + r1.stderr).strip().splitlines()[-1][:160])
        return sid, None
    finally:
        shutil.rmtree(tmp, ignore_errors=True)


ids = sorted(x for x in os.listdir(EQ) if os.path.exists(os.path.join(EQ, x, "patch.diff")))
if len(sys.argv) > 1:
    ids = [i for i in ids if i in sys.argv[1:] or i.split("-")[0] in sys.argv[1:]]
bad = 0
with ThreadPoolExecutor(12) as ex:
    for sid, msg in ex.map(one, ids):
        if msg:
            bad += 1
            print(sid, msg)
print("re-verified %d, %d need attention" % (len(ids), bad))
