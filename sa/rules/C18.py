"""C18 - an npdataclass keeps its columns aligned under every operation.

Decided: the equal-length refusal runs on every construction and really compares every field (must-pass, no
bypass); every per-field operation ranges over all fields with a loop-invariant, unconverted selector; fields are
re-bound by name in astype; concatenation walks all objects' fields in order; width padding is zero-initialised
and right-aligned.  Not decided: contents.
"""
import ast
from ..lib import Toolkit
from ..guards import Formulas, check_guard, find_calls, facts_at
from ..terms import alts, attr_chain, walk, is_const, call_name, np_call
from .. import wellformed as W

LEVEL_TEXT = ("static must-pass analysis of the equal-length check (E1), field-uniformity rules over every per-field operation "
              "(E6), allocation/alignment rules for VarLenArray padding (E3/E5) over npdataclasses.py; structural necessary conditions of C18")
ASSUMPTIONS = ["assert statements count as refusals", "np.zeros_like allocates zero-filled storage; np.empty_like does not"]
MIN_OBLIGATIONS = 12
ND = "npdataclasses.NpDataClass."
FC = "npdataclasses.npdataclass.FinalClass."


def check(ctx, tier):
    tk = Toolkit(ctx)
    construction(ctx, tk)
    conversion(ctx, tk)
    same_lens(ctx, tk)
    getitem(ctx, tk)
    iteration(ctx, tk)
    concat_eq(ctx, tk)
    column_join(ctx, tk)
    field_coercion(ctx, tk)
    astype(ctx, tk)
    varlen(ctx, tk)
    fs = [f for q, f in ctx.program.funcs.items() if q.startswith("npdataclasses.") and f.name not in ("empty", "empty_element", "stack_with_ragged", "__str__")]
    W.report(ctx, tk, "C18.e", fs)
    tk.purity("C18.p", [ctx.func(q) for q in ['npdataclasses.NpDataClass.__getitem__', 'npdataclasses.NpDataClass.__len__', 'npdataclasses.NpDataClass.__iter__', 'npdataclasses.NpDataClass.__array_function__', 'npdataclasses.NpDataClass.astype', 'npdataclasses.VarLenArray.__array_function__', 'npdataclasses.npdataclass.FinalClass.__eq__']], "the operation does not write into its operands' buffers", content_only=True)
    from .. import hazards as _hz, scopes as _sc
    _hz.generic(ctx, tk, "C18.z", _sc.scope(tk, "C18", depth=1))
    return {}


def construction(ctx, tk):
    f = ctx.func(FC + "__init__")
    fa = ctx.fa(f)
    conv = [n for n, c in find_calls(fa, lambda c: c.a[0].k == "attr" and c.a[0].a[1] == "_implicit_format_conversion")]
    chk = [n for n, c in find_calls(fa, lambda c: c.a[0].k == "attr" and c.a[0].a[1] == "_assert_same_lens")]
    ok = bool(chk) and fa.cfg.must_pass(chk, fa.cfg.exit)
    verdict = True if ok else False
    if not chk:
        # the helper may have been inlined: a refusal in the constructor that compares len() of the fields is not judged here
        from ..guards import refusals as _refusals
        own = [tn for tn, _ in _refusals(fa) if any(isinstance(y, ast.Call) and isinstance(y.func, ast.Name) and y.func.id == "len" for y in ast.walk(tn.ast))]
        if own and all(fa.cfg.must_pass([tn], fa.cfg.exit) or True for tn in own):
            verdict = None
    ctx.decide("C18.a", f, "every construction runs the equal-length check", verdict, "a constructor path skips _assert_same_lens", key="must-pass", engine="E1")
    if conv and chk:
        order = all(fa.cfg.must_pass(conv, c) for c in chk)
        ctx.decide("C18.a", f, "fields are converted to arrays before their lengths are compared", True if order else False,
                   "lengths are compared before the format conversion", key="order", engine="E1")


def conversion(ctx, tk):
    """the format conversion turns every field that is not yet an array into one: the np.asanyarray store may be skipped
    for values that already are ndarrays, but must not be limited to an allow-list of Python types (a tuple or range column
    would stay a Python sequence and the length / indexing machinery would see something else than an array)"""
    f = ctx.program.funcs.get(ND + "_implicit_format_conversion")
    what = "every field value that is not already an array is converted with np.asanyarray"
    if f is None:
        return
    fa = ctx.fa(f)
    conv = [(n, c) for n, c in find_calls(fa, lambda c: np_call(c, {"asanyarray", "asarray", "array"}))]
    if not conv:
        ctx.unknown("C18.h", f, what, "conversion call not recognised", key="conversion", engine="E1")
        return
    verdict, why = True, ""
    for n, c in conv:
        for t, truth, _ in facts_at(fa, n):
            if not (t.k == "call" and call_name(t) == "isinstance" and len(t.a[1]) == 2):
                continue
            types = t.a[1][1]
            names = [(attr_chain(x) or ("?",))[-1] if x.k != "global" else x.a[0] for x in (types.a[0] if types.k == "tuple" else [types])]
            if truth:
                verdict, why = False, "the conversion runs only for `%s` values: every other non-array column (tuple, range, ...) is left as it is" % ", ".join(names)
            elif not all(nm in ("ndarray",) for nm in names):
                if verdict is True:
                    verdict, why = None, "conversion skipped for %s" % ", ".join(names)
    ctx.decide("C18.h", f, what, verdict, why, node=conv[0][1].node, key="conversion", engine="E1")


def same_lens(ctx, tk):
    f = ctx.func(ND + "_assert_same_lens")
    fa = ctx.fa(f)
    fors = [n for n in fa.cfg.nodes if n.kind == "for" and fa.cfg.is_reachable(n)]
    what = "the equal-length check walks every field and refuses on the first length that differs from the common one"
    if not fors:
        # aggregate form: one refusal whose condition ranges over all fields (any(...)/all(...) over a comprehension)
        from ..guards import refusals as _refusals
        refs = _refusals(fa)
        if not refs:
            ctx.violated("C18.b", f, what, "neither a loop over the fields nor any refusal", engine="E1")
            return
        rec = False
        for tn, _truth in refs:
            t = fa.term(tn.ast, tn)
            comps = [c for c in walk(t) if c.k == "comp"]
            over_all = any(any(x.k == "call" and (call_name(x) or "").split(".")[-1] == "shallow_tuple" for x in walk(c.a[2][0])) and not c.a[3] for c in comps)
            cmps = [x for c in comps for x in walk(c.a[1]) if x.k == "cmp" and x.a[0] in ("==", "!=")] + [x for x in walk(t) if x.k == "cmp" and x.a[0] in ("==", "!=")]
            if over_all and cmps:
                rec = True
                okb = fa.cfg.must_pass([tn], fa.cfg.exit)
                ctx.decide("C18.b", f, "the check cannot be bypassed (every normal return comes after the comparison of all fields)", True if okb else False,
                           "an early return skips the comparison", key="no-bypass", engine="E1")
                ctx.holds("C18.b", f, "the comparison ranges over all fields (shallow_tuple(self))", node=tn.ast, key="domain", engine="E6")
        if not rec:
            ctx.unknown("C18.b", f, what, "the refusal is not a loop and its domain was not recognised", engine="E1")
        return
    fn = fors[0]
    # no way to the normal exit around the loop
    ok = fa.cfg.must_pass([fn], fa.cfg.exit)
    ctx.decide("C18.b", f, "the check cannot be bypassed (every normal return comes after the loop over the fields)", True if ok else False,
               "an early return skips the comparison (e.g. when the first field is empty a longer second field is accepted)", key="no-bypass", engine="E1")
    exh = [e for e in fn.succ if e.kind == "edge" and e.info[1] is False]
    if exh:
        ok2 = not fa.cfg.can_reach(fa.cfg.entry, [fa.cfg.exit], avoid=exh)
        ctx.decide("C18.b", f, "the normal exit is reached only when the loop has visited all fields", True if ok2 else False,
                   "a `return`/`break` inside the loop ends the check early", key="exhaust", engine="E1")
    it = fa.term(fn.ast.iter, fn)
    full = it.k == "call" and (call_name(it) or "").split(".")[-1] == "shallow_tuple"
    part = it.k == "sub"
    ctx.decide("C18.b", f, "the loop ranges over all fields (shallow_tuple(self))", True if full else (False if part else None), "loop over %s" % (it,), node=fn.ast, key="domain", engine="E6")
    # body: assert len(p) == l with l = len(t[0])
    body_tests = [n for n in fa.cfg.nodes if n.kind == "test" and isinstance(n.origin, ast.Assert) and fa.cfg.is_reachable(n)]
    okc = False
    for n in body_tests:
        t = fa.term(n.ast, n)
        if t.k == "cmp" and t.a[0] == "==":
            l, r = t.a[1], t.a[2]
            if l.k == "call" and call_name(l) == "len" and l.a[1] and l.a[1][0].k == "elem":
                okc = r.k == "call" and call_name(r) == "len" and r.a[1] and r.a[1][0].k == "sub"
    ctx.decide("C18.b", f, "each field's length is compared with one common length taken from a field", True if okc else None, key="compare", engine="E6")


def _field_comp(tm):
    cs = [c for c in walk(tm) if c.k == "comp"]
    return cs[0] if cs else None


def getitem(ctx, tk):
    f = ctx.func(ND + "__getitem__")
    fa = ctx.fa(f)
    ip = f.params[1]
    for n in fa.cfg.stmts():
        if n.kind == "stmt" and isinstance(n.ast, ast.Assign):
            tm = fa.term(n.ast.value, n)
            c = _field_comp(tm)
            if c is None or c.a[1].k != "sub":
                continue
            it = c.a[2][0]
            full = it.k == "call" and (call_name(it) or "").split(".")[-1] == "shallow_tuple" and not c.a[3]
            ctx.decide("C18.c", f, "indexing applies the selector to every field", True if full else (False if (it.k == "sub" or c.a[3]) else None),
                       "fields iterated: %s" % (it,), node=n.ast, key="domain", engine="E6")
            sel = c.a[1].a[1]
            same = all(a.k == "param" and a.a[0] == ip for a in alts(sel))
            conv = any(a.k == "call" and ("dtype" in dict(a.a[2]) or len(a.a[1]) > 1) for a in alts(sel))
            okk = True if same else (False if conv or sel.k == "const" else (True if all(
                (a.k == "param" and a.a[0] == ip) or (np_call(a, {"asarray", "asanyarray"}) and len(a.a[1]) == 1 and not a.a[2]) for a in alts(sel)) else None))
            ctx.decide("C18.c", f, "every field is indexed with the caller's selector itself (not a converted or constant one)", okk,
                       "fields are indexed with %s: a boolean list is turned into positions 0/1" % (sel,), node=n.ast, key="selector", engine="E6")
    # single entry vs sub-table is a property of the *selector* (one number picks one entry); the dimensionality of a result
    # field says something else as soon as a field is 2-D
    what = "whether an entry or a sub-table is built is decided from the selector (an isinstance test on it)"
    verdict, why, node = None, "decision not recognised", None
    for x in ast.walk(f.node):
        if isinstance(x, ast.IfExp) or isinstance(x, ast.If):
            t = x.test
            names_in = {y.id for y in ast.walk(t) if isinstance(y, ast.Name)}
            picks = any(isinstance(y, ast.Attribute) and y.attr in ("single_entry", "_single_entry") for y in ast.walk(x))
            if not picks:
                continue
            is_inst = isinstance(t, ast.Call) and isinstance(t.func, ast.Name) and t.func.id == "isinstance" and t.args and isinstance(t.args[0], ast.Name) and t.args[0].id == ip
            if is_inst:
                verdict, why, node = True, "", x
            elif ip not in names_in:
                verdict, why, node = False, "`%s` does not look at the selector `%s` at all: with a 2-D first field an integer selector yields a sub-table built from one row" % (ast.unparse(t), ip), x
            else:
                verdict, why, node = None, "test `%s` not understood" % ast.unparse(t), x
    ctx.decide("C18.c", f, what, verdict, why, node=node, key="entry-or-table", engine="E6")
    g = ctx.func(ND + "__len__")
    ga = ctx.fa(g)
    for r in ga.cfg.returns():
        tm = ga.term(r.ast.value, r)
        ok = tm.k == "call" and call_name(tm) == "len" and tm.a[1] and tm.a[1][0].k == "sub" and is_const(tm.a[1][0].a[1], 0)
        cells = tm.k == "attr" and tm.a[1] == "size"
        ctx.decide("C18.c", g, "the length of the table is the number of entries (len) of a field", True if ok else (False if cells else None),
                   "`%s` is the number of cells: a 2-D field of width w reports w times the number of entries" % (tm,), node=r.ast, key="len", engine="E5")


def iteration(ctx, tk):
    f = ctx.func(ND + "__iter__")
    fa = ctx.fa(f)
    for r in fa.cfg.returns():
        tm = fa.term(r.ast.value, r)
        ok = None
        if tm.k == "comp":
            it = tm.a[2][0]
            full = it.k == "call" and call_name(it) == "range" and len(it.a[1]) == 1 and it.a[1][0].k == "call" and call_name(it.a[1][0]) == "len"
            elt = tm.a[1]
            okelt = elt.k == "sub" and elt.a[0].k == "param" and elt.a[1].k == "elem"
            ok = True if (full and okelt and not tm.a[3]) else (False if (it.k == "call" and call_name(it) == "range" and len(it.a[1]) != 1) or tm.a[3] else None)
        ctx.decide("C18.c", f, "iteration yields entry i for every i in range(len(self))", ok, node=r.ast, key="iter", engine="E6")


def concat_eq(ctx, tk):
    f = ctx.func(ND + "__array_function__")
    fa = ctx.fa(f)
    # tuples = [shallow_tuple(o) for o in objects]; for t in zip(*tuples): columns.append(np.concatenate(list(t)))
    tuples_ok = None
    for n in fa.cfg.stmts():
        if n.kind == "stmt" and isinstance(n.ast, ast.Assign):
            tm = fa.term(n.ast.value, n)
            if tm.k == "comp" and tm.a[1].k == "call" and (call_name(tm.a[1]) or "").endswith("shallow_tuple"):
                src = tm.a[2][0]
                tuples_ok = (src.k == "sub" and is_const(src.a[1], 0) and not tm.a[3])
                ctx.decide("C18.c", f, "concatenation takes the fields of every object, in order", True if tuples_ok else (False if tm.a[3] or src.k == "sub" and not is_const(src.a[1], 0) else None),
                           "objects iterated: %s" % (src,), node=n.ast, key="objects", engine="E6")
    fors = [n for n in fa.cfg.nodes if n.kind == "for" and fa.cfg.is_reachable(n)]
    for fn in fors:
        it = fa.term(fn.ast.iter, fn)
        ok = it.k == "call" and call_name(it) == "zip" and len(it.a[1]) == 1 and it.a[1][0].k == "star"
        ctx.decide("C18.c", f, "columns are formed by zipping all objects' field tuples", True if ok else None, node=fn.ast, key="zip", engine="E6")
    for r in fa.cfg.returns():
        tm = fa.term(r.ast.value, r)
        if tm.k == "call" and call_name(tm) == "all" and tm.a[1] and tm.a[1][0].k == "comp":
            c = tm.a[1][0]
            it = c.a[2][0]
            ok = it.k == "call" and call_name(it) == "zip" and len(it.a[1]) == 2 and all((call_name(x) or "").endswith("shallow_tuple") for x in it.a[1])
            ctx.decide("C18.c", f, "equality compares every pair of corresponding fields", True if (ok and not c.a[3]) else None, node=r.ast, key="equal", engine="E6")
    g = ctx.func(FC + "__eq__")
    ga = ctx.fa(g)
    fors = [n for n in ga.cfg.nodes if n.kind == "for" and ga.cfg.is_reachable(n)]
    for fn in fors:
        it = ga.term(fn.ast.iter, fn)
        ok = it.k == "call" and call_name(it) == "zip" and len(it.a[1]) == 2 and all((call_name(x) or "").endswith("shallow_tuple") for x in it.a[1])
        ctx.decide("C18.c", g, "== walks every pair of corresponding fields", True if ok else None, node=fn.ast, key="eq-domain", engine="E6")
    # field shapes are compared before the element-wise comparison (broadcasting would hide a shape difference)
    eqs = [(n, c) for n, c in find_calls(ga, lambda c: np_call(c, {"equal", "array_equal"}))]
    from ..guards import aggregate_only

    def msh(t):
        if t.k == "cmp" and t.a[0] in ("==", "!=") and all(x.k == "attr" and x.a[1] == "shape" for x in (t.a[1], t.a[2])):
            return ("same_shape", t.a[0] == "==")
        return None
    if eqs:
        check_guard(ctx, "C18.c", g, eqs, Formulas([msh], irrelevant=aggregate_only), lambda A: A["same_shape"], ["same_shape"],
                    "fields are compared element-wise only after their shapes were found equal", fa=ga,
                    describe="an (n,1) field equals an (n,2) field with repeated columns through broadcasting")
    trues = [r for r in ga.cfg.returns() if isinstance(r.ast.value, ast.Constant) and r.ast.value.value is True]
    for r in trues:
        okt = all(ga.cfg.must_pass(fors, r) for _ in [0]) if fors else False
        inside = any(ga.cfg.can_reach(r, [fn]) for fn in fors)
        ctx.decide("C18.c", g, "== answers True only after all fields were compared", True if (okt and not inside) else False,
                   "`return True` can be reached before every field was compared", node=r.ast, key="eq-true", engine="E1")


def column_join(ctx, tk):
    """the per-field join of a concatenation is np.concatenate along axis 0 (np.hstack joins 2-D fields along axis 1,
    np.append without axis flattens them)"""
    f = ctx.func(ND + "__array_function__")
    fa = ctx.fa(f)
    what = "each field of a concatenation is joined along the entry axis (np.concatenate, axis 0)"
    n_found = 0
    for n, c in find_calls(fa, lambda c: c.a[0].k == "attr" and c.a[0].a[1] == "append" and len(c.a[1]) == 1):
        x = c.a[1][0]
        nm = np_call(x, {"concatenate", "hstack", "vstack", "column_stack", "append", "stack", "dstack", "r_", "c_"})
        if nm is None:
            ctx.unknown("C18.c", f, what, "column built by %s" % (x,), node=c.node, key="join", engine="KB")
            continue
        n_found += 1
        ax = dict(x.a[2]).get("axis", x.a[1][1] if len(x.a[1]) > 1 else None)
        if nm == "concatenate":
            ok = True if (ax is None or is_const(ax, 0)) else (False if ax.k == "const" or ax.k == "un" else None)
        else:
            ok = False
        ctx.decide("C18.c", f, what, ok, "`%s`: a 2-D field is joined along another axis (or flattened), so the table comes back with the wrong number of entries" % (x,),
                   node=c.node, key="join", engine="KB")


def field_coercion(ctx, tk):
    """the tuple of all fields is heterogeneous: handing it to a numpy function that builds ONE array coerces every
    field to a common dtype (int64 ids next to a float column become float64)"""
    what = "the fields of a table are never combined into one array (they keep their own dtypes)"
    n_sites = 0
    for q, f in sorted(ctx.program.funcs.items()):
        if not q.startswith("npdataclasses."):
            continue
        fa = ctx.fa(f)
        for n, c in find_calls(fa, lambda c: np_call(c, {"stack", "array", "asarray", "asanyarray", "vstack", "hstack", "column_stack", "concatenate", "dstack"}) and c.a[1]):
            arg = c.a[1][0]
            whole = any(a.k == "call" and (call_name(a) or "").endswith("shallow_tuple") for a in alts(arg)) or \
                any(a.k == "call" and call_name(a) in ("list", "tuple") and a.a[1] and any(b.k == "call" and (call_name(b) or "").endswith("shallow_tuple") for b in alts(a.a[1][0])) for a in alts(arg))
            if not whole:
                continue
            n_sites += 1
            ctx.violated("C18.c", f, what, "`%s` builds one array from all fields: numpy promotes them to a common dtype, so an int64 column next to a float column "
                         "loses exactness above 2**53 and comes back as float" % (c,), node=c.node, key="coercion", engine="KB")
    if not n_sites:
        ctx.holds("C18.c", ND + "__iter__", what, key="coercion", engine="KB")


def astype(ctx, tk):
    f = ctx.func(ND + "astype")
    fa = ctx.fa(f)
    for r in fa.cfg.returns():
        tm = fa.term(r.ast.value, r)
        what = "conversion to another dataclass binds every field by its own name"
        ok = None
        if tm.k == "call":
            star = [v for k, v in tm.a[2] if k == "**"]
            pos = [a for a in tm.a[1]]
            if star and not pos:
                d = star[0]
                if d.k == "comp" and d.a[0] == "dictcomp":
                    kv = d.a[1]
                    if kv.k == "tuple" and len(kv.a[0]) == 2:
                        key, val = kv.a[0]
                        ok = val.k == "call" and call_name(val) == "getattr" and len(val.a[1]) == 2 and val.a[1][1] == key and val.a[1][0].k == "param"
            elif pos:
                ok = False
        ctx.decide("C18.c", f, what, ok, "fields are passed positionally (%s): a target class that declares the shared fields in another order receives the wrong columns" % (tm,),
                   node=r.ast, key="astype", engine="E6")


def varlen(ctx, tk):
    f = ctx.func("npdataclasses.VarLenArray.__array_function__")
    fa = ctx.fa(f)
    alloc = None
    for n in fa.cfg.stmts():
        if n.kind == "stmt" and isinstance(n.ast, ast.Assign):
            tm = fa.term(n.ast.value, n)
            nm = np_call(tm, {"zeros_like", "zeros", "empty_like", "empty", "full", "full_like", "ones_like"})
            if nm and "shape" in dict(tm.a[2]) or (nm in ("zeros", "empty") and tm.a[1]):
                alloc = (nm, n)
    if alloc is not None:
        tm = fa.term(alloc[1].ast.value, alloc[1])
        like = np_call(tm, {"zeros_like", "empty_like", "full_like", "ones_like"}) is not None
        dt = dict(tm.a[2]).get("dtype")
        promoted = dt is not None and dt.k == "call" and (attr_chain(dt.a[0]) or ("",))[-1] in ("result_type", "promote_types", "common_type")
        # typed by one operand alone (zeros_like(x) / dtype=x.dtype) is left to KB rule H18 (blocks cast into the first operand's type)
        okd = promoted
        one_operand = (like and dt is None) or (dt is not None and dt.k == "attr" and dt.a[1] == "dtype")
        badd = dt is not None and (dt.k in ("global", "const") or (attr_chain(dt) or ("",))[0] in ("np", "numpy"))
        ctx.decide("C18.d", f, "the padded buffer has the dtype of the arrays being concatenated", True if (okd or one_operand) else (False if (badd or (not like and dt is None)) else None),
                   "buffer dtype is %s: values of another dtype are truncated / converted" % (dt if dt is not None else "numpy's default float"), node=alloc[1].ast, key="dtype", engine="E6")
    if alloc is None:
        ctx.unknown("C18.d", f, "padding buffer allocation", engine="E3")
    else:
        ctx.decide("C18.d", f, "the padded buffer is zero-initialised", alloc[0] in ("zeros_like", "zeros"),
                   "np.%s leaves the padding cells uninitialised" % alloc[0], node=alloc[1].ast, key="zeros", engine="E3")
    for n in fa.cfg.stmts():
        if n.kind == "stmt" and isinstance(n.ast, ast.Assign) and isinstance(n.ast.targets[0], ast.Subscript) and isinstance(n.ast.targets[0].slice, ast.Tuple):
            rows, cols = n.ast.targets[0].slice.elts[:2]
            rt, ct = fa.term(rows, n), fa.term(cols, n)
            right = ct.k == "slice" and ct.a[0].k == "un" and ct.a[0].a[0] == "-" and is_const(ct.a[1], None)
            if not right and ct.k == "slice" and is_const(ct.a[1], None) and ct.a[0].k == "bin" and ct.a[0].a[0] == "-" and alloc is not None:
                # start = <allocated width> - size
                at = fa.term(alloc[1].ast.value, alloc[1])
                shp = dict(at.a[2]).get("shape", at.a[1][0] if (at.a[1] and not like) else None)
                if shp is not None and shp.k == "tuple" and len(shp.a[0]) == 2 and shp.a[0][1] == ct.a[0].a[1]:
                    right = True
            left = ct.k == "slice" and is_const(ct.a[0], None) and not is_const(ct.a[1], None)
            ctx.decide("C18.d", f, "narrower arrays are right-aligned (stored in the last `size` columns)", True if right else (False if left else None),
                       "columns %s" % (ct,), node=n.ast, key="right-align", engine="E5")
            okr = rt.k == "slice" and rt.a[0].k == "bin" and rt.a[0].a[0] == "-" and rt.a[1] == rt.a[0].a[1]
            ctx.decide("C18.d", f, "each array fills its own block of rows [end - len, end)", True if okr else None, node=n.ast, key="rows", engine="E5")
    fors = [n for n in fa.cfg.nodes if n.kind == "for" and fa.cfg.is_reachable(n)]
    for fn in fors:
        it = fa.term(fn.ast.iter, fn)
        if it.k == "call" and call_name(it) == "zip":
            srcs = []
            for a in it.a[1]:
                cs = [c for c in walk(a) if c.k == "comp"]
                srcs.append(repr(cs[-1].a[2][0]) if cs else repr(a))
            ctx.decide("C18.d", f, "ends, lengths, arrays and widths are walked in parallel over the same list", True if len(it.a[1]) == 4 else None, node=fn.ast, key="parallel", engine="E6")
            # block k starts after ALL earlier blocks: the row offsets come from a running total (itertools.accumulate / np.cumsum),
            # not from the length of the one block before
            loopvars = [x.id for x in ast.walk(fn.ast.target) if isinstance(x, ast.Name)]
            off_terms = [a for a in it.a[1] if any(x.k == "call" and ((call_name(x) or "").split(".")[-1] in ("accumulate", "cumsum")) for al in alts(a) for x in walk(al))]
            uses_offset = False
            for st in ast.walk(fn.ast):
                if isinstance(st, ast.Assign) and isinstance(st.targets[0], ast.Subscript) and isinstance(st.targets[0].slice, ast.Tuple):
                    rows_e = st.targets[0].slice.elts[0]
                    if isinstance(rows_e, ast.Slice) and rows_e.lower is not None and any(isinstance(y, ast.Name) and y.id in loopvars for y in ast.walk(rows_e.lower)):
                        uses_offset = True
            running = any(isinstance(st, ast.AugAssign) and isinstance(st.op, ast.Add) for st in ast.walk(fn.ast)) or \
                any(isinstance(st, ast.Assign) and isinstance(st.targets[0], ast.Name) and any(isinstance(y, ast.Name) and y.id == st.targets[0].id for y in ast.walk(st.value)) for st in ast.walk(fn.ast))
            if uses_offset:
                ctx.decide("C18.d", f, "the row offset of a block is the total number of rows of all blocks before it", True if (off_terms or running) else False,
                           "the offsets walked by the loop come from `%s`: neither a running total (accumulate / cumsum) nor updated in the loop, so from the third block on rows overwrite earlier blocks" % (
                               it.a[1][0] if it.a[1] else "",), node=fn.ast, key="cumulative-offsets", engine="E5")
            # parallel lists stay parallel only if none of them is filtered: a comprehension with an `if` (or an `or [...]` fallback)
            # among the zip sources shifts every later block to another block's width / length
            filt = []
            for a in it.a[1]:
                for al in alts(a):
                    for cpr in [c_ for c_ in walk(al) if c_.k == "comp"]:
                        if cpr.a[3]:
                            filt.append(cpr)
                    if al.k == "bool":
                        filt.append(al)
            ctx.decide("C18.d", f, "the lists walked in parallel have one entry per block (none of them is filtered)", False if filt else True,
                       "`%s` leaves out some blocks: the remaining widths are paired with the wrong blocks" % (filt[0] if filt else "",), node=fn.ast, key="parallel-unfiltered", engine="E6")
