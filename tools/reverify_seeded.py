#!/venv/bin/python
"""Re-confirm every kept seeded change against /repo's current HEAD (after a fix: commit the patches may no
longer apply, or may have become behaviour-preserving).  Scratch worktrees under /tmp, removed afterwards.
Prints one line per change that is no longer a confirmed defect-injection."""
import json
import os
import shutil
import subprocess
import sys
from concurrent.futures import ThreadPoolExecutor

PY = "/venv/bin/python"
V = "/verif/seeded"


def run(cmd, cwd=None, env=None):
    e = dict(os.environ)
    if env:
        e.update(env)
    p = subprocess.run(cmd, cwd=cwd, env=e, capture_output=True, text=True, timeout=900)
    return p.returncode, p.stdout + p.stderr


def one(sid):
    d = os.path.join(V, sid)
    wt = "/tmp/rv_%s" % sid
    run(["git", "-C", "/repo", "worktree", "remove", "--force", wt])
    run(["git", "-C", "/repo", "worktree", "add", "-q", "--detach", wt, "HEAD"])
    try:
        rc0, _ = run([PY, os.path.join(d, "demo.py")], cwd="/tmp", env={"PYTHONPATH": wt})
        rc, o = run(["git", "apply", os.path.join(d, "patch.diff")], cwd=wt)
        if rc != 0:
            return sid, "patch does not apply"
        rc1, o1 = run([PY, "-m", "pytest", "-q", "-p", "no:cacheprovider"], cwd=wt)
        tail = o1.strip().splitlines()[-1] if o1.strip() else ""
        rc2, _ = run([PY, os.path.join(d, "demo.py")], cwd="/tmp", env={"PYTHONPATH": wt})
        if rc0 != 0:
            return sid, "demo fails without the patch"
        if "141 passed" not in tail:
            return sid, "suite: " + tail
        if rc2 == 0:
            return sid, "demo passes with the patch (no longer a defect)"
        return sid, None
    finally:
        run(["git", "-C", "/repo", "worktree", "remove", "--force", wt])
        shutil.rmtree(wt, ignore_errors=True)


ids = sorted(x for x in os.listdir(V) if os.path.isdir(os.path.join(V, x)))
if len(sys.argv) > 1:
    ids = [i for i in ids if i in sys.argv[1:]]
bad = 0
with ThreadPoolExecutor(10) as ex:
    for sid, msg in ex.map(one, ids):
        if msg:
            bad += 1
            print(sid, msg)
run(["git", "-C", "/repo", "worktree", "prune"])
print("re-verified %d, %d need attention" % (len(ids), bad))
