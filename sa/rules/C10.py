"""C10 - looking at an array never changes anything.

Decided (whole program, all paths): EF1 - from every read-only entry point no reachable in-place
construct (subscript store, augmented assignment on an array, out=, ufunc.at, .sort()/.fill(),
attribute store) targets a value that may alias an operand, `self` state or global state; EF4 - which
read APIs hand out objects sharing a live buffer with their source.
Not decided: effects through values the model types as unknown (counted), behaviour of numpy itself.
"""
from ..lib import Toolkit, public_methods
from ..terms import alts, is_const

LEVEL_TEXT = ("static effect/alias analysis (E3) and view-coherence typestate (E2) over the whole call graph of /repo/npstructures: for every read-only "
              "API entry point the set of reachable in-place constructs whose target may alias an operand or object "
              "state is computed by interprocedural freshness summaries; every such construct is a violation unless "
              "it is the recorded known finding (materialise-on-read) or an allowed pure memo. Structural necessary "
              "condition of C10 for all histories at once; value-level behaviour is not decided.")
ASSUMPTIONS = [
    "numpy knowledge base sa/npkb.py (which numpy calls return fresh arrays / views / write in place) is correct",
    "RaggedBase.size memo (_size) is a pure function of the row lengths, which materialisation preserves",
    "callables received as parameters (ufunc, func) do not write their arguments unless out= is passed",
]
MIN_OBLIGATIONS = 60

MUTATORS = {"__init__", "__post_init__", "__setitem__", "fill", "_set_data_range", "count",
            "__iadd__", "_fill_values", "set_dtype", "set_backend", "_implicit_format_conversion", "__new__"}

CLASSES = ["raggedarray.RaggedArray", "raggedshape.RaggedShape", "raggedshape.RaggedView", "raggedshape.RaggedView2",
           "hashtable.HashTable", "hashtable.Counter", "hashtable.HashSet", "bitarray.BitArray",
           "runlengtharray.RunLengthArray", "runlengtharray.RunLength2dArray", "runlengtharray.RunLengthRaggedArray",
           "npdataclasses.NpDataClass", "npdataclasses.VarLenArray", "mixin.NPSArray"]
FUNCS = ["arrayfunctions.concatenate", "arrayfunctions.diff", "arrayfunctions.zeros_like", "arrayfunctions.ones_like",
         "arrayfunctions.empty_like", "arrayfunctions.where", "arrayfunctions.unique",
         "raggedarray.raggedslice.ragged_slice", "runlengtharray.histogram", "runlengtharray.concatenate",
         "runlengtharray.rlra_concatenate", "hashtable.zeros_like", "hashtable.ones_like",
         "npdataclasses.npdataclass.FinalClass.__eq__", "npdataclasses.npdataclass.FinalClass.__str__",
         "raggedshape.build_indices", "util.unsafe_extend_left", "util.unsafe_extend_right",
         "util.unsafe_extend_left_2d", "testing.assert_raggedarray_equal"]

ALLOWED = [
    ("raggedarray.base.RaggedBase.size", "_size", "pure memo of sum(lengths); preserved by materialisation"),
    ("raggedarray.RaggedArray.sort", None, "sort(axis=None) has ndarray.sort's documented in-place semantics; not in "
     "the property's read-only list", {"raggedarray.RaggedArray.sort"}),
    ("hashtable.Counter.__init__", "_safe_mode", "np.zeros_like/ones_like(counter) re-sets the already-false checking "
     "flag on the operand's keys object (idempotent)", {"hashtable.zeros_like", "hashtable.ones_like", "hashtable.HashTable.__array_function__"}),
]


def entries(tk):
    p = tk.ctx.program
    out, seen = [], set()
    helpers = tk.ctor_helpers()
    for cq in CLASSES:
        for m in public_methods(p.cls(cq), exclude=MUTATORS):
            if m.qual in helpers:
                continue            # part of construction (called from __init__ only): not a read operation
            if m.qual not in seen:
                seen.add(m.qual)
                out.append(m)
    for fq in FUNCS:
        f = p.func(fq)
        if f.qual not in seen:
            seen.add(f.qual)
            out.append(f)
    return out


def check(ctx, tier):
    tk = Toolkit(ctx)
    es = entries(tk)
    # the stores of the materialisation step (the function that replaces buffer, geometry and flag together, wherever it
    # lives and whatever it is called) get a semantic key: they are the recorded finding F17a
    from ..coherence import Coherence as _Coh
    _coh = ctx.cached("coherence", lambda: _Coh(tk))
    core = {f.qual for f in _coh.ts.core_materialisers()}

    def site_key(s):
        if s.func.qual in core and s.kind == "attrstore" and s.attr in ("__data", "_shape", "is_contigous"):
            return "materialise-step:" + s.attr
        return None
    tk.purity("C10/EF1", es, "read-only operation", allowed=ALLOWED, site_key=site_key)

    # EF4: read APIs returning RaggedArray objects must not share the receiver's live buffer
    def allow_getitem(tm, fr):
        # a[...] / a[()] are documented aliases (numpy semantics): constructor fed self.ravel()[slice(None)]
        for a in alts(tm):
            if a.k == "call" and a.a[1]:
                d = a.a[1][0]
                if d.k == "sub" and any(x.k == "slice" and all(is_const(y, None) for y in x.a) for x in alts(d.a[1])):
                    return "a[...] / a[()] alias the whole array, as in numpy"
        return None

    ra = ctx.program.cls("raggedarray.RaggedArray")
    for name in ["astype", "sort", "cumsum", "__array_ufunc__", "subset", "_row_accumulate", "__getitem__"]:
        m = ra.lookup(name)
        if m is None:
            continue
        tk.returns_fresh_field("C10/EF4", m, "__data",
                               "objects returned by a read share no buffer with the array that was read",
                               allow=allow_getitem if name == "__getitem__" else None)
    for fq in ["arrayfunctions.concatenate", "arrayfunctions.diff", "arrayfunctions.where", "arrayfunctions.unique",
               "arrayfunctions.zeros_like", "arrayfunctions.ones_like", "raggedarray.raggedslice.ragged_slice"]:
        tk.returns_fresh_field("C10/EF4", ctx.func(fq), "__data",
                               "objects returned by a read share no buffer with the array that was read")
    # a result that depends on whether an array is still a lazy view or already materialised depends on which
    # reads happened before: the view-coherence typestate (E2) decides that for every function at once
    from ..coherence import Coherence, report, report_raw_access
    from .. import viewrules
    coh = ctx.cached("coherence", lambda: Coherence(tk))
    report(coh, "C10/E2")
    report_raw_access(coh, "C10/E2")
    viewrules.step_propagation(ctx, tk, "C10/E2")
    viewrules.column_units(ctx, tk, "C10/E2")
    from .. import deferred
    deferred.check(ctx, tk, "C10/E2g", coh)
    from . import C06
    n0 = len(ctx.obligations)
    C06.materialisation_step(ctx, tk, coh)
    for o in ctx.obligations[n0:]:
        o.rule = "C10/E2e"
    return {"read_only_entry_points": len(es), "unknown_inplace_targets": len(tk.E.unknown_targets)}
