"""C03 - assignment writes exactly the addressed cells and nothing else.

Decided: single-writer discipline for the flat buffer (E3); write-through, no lost write, no write into the
parent of a selection (E2 VC4, EF2); the writer resolves the index with the reader's resolver (provenance);
value-kind dispatch completeness; the mismatching-ragged-value refusal (E1); column-vector values are
broadcast over the *selection's* geometry; integrity of the row broadcast used for column values (shared with
C04) and of the column arithmetic used to address cells (shared with C02).  Not decided: cell-level placement.
"""
import ast
from ..lib import Toolkit
from ..guards import Formulas, check_guard, find_calls, facts_at, aggregate_only, irrelevant_unless, mentions_param
from ..terms import alts, attr_chain, walk, is_const, call_name, np_call
from ..coherence import Coherence, report, report_raw_access
from .. import bcast, viewrules, npkb
from ..effects import fmt_root

LEVEL_TEXT = ("static effect/ownership analysis (E3), typestate (E2), guard analysis (E1) and dispatch-shape rules over "
              "IndexableArray.__setitem__, RaggedBase._set_data_range and the index/broadcast routines they use; structural "
              "necessary conditions of C03 on all paths")
ASSUMPTIONS = ["assert statements count as refusals", "numpy: a store through a basic slice writes through, a store into a fancy-indexed temporary is lost"]
MIN_OBLIGATIONS = 18
IA = "raggedarray.indexablearray.IndexableArray."
WRITERS = {
    "raggedarray.base.RaggedBase._set_data_range": "the one scatter routine of __setitem__",
    "raggedarray.RaggedArray.fill": "whole-array fill",
    "raggedarray.RaggedArray.sort": "sort(axis=None): ndarray.sort semantics",
    "hashtable.Counter.count": "histogram accumulate into the counts buffer",
}


def check(ctx, tier):
    tk = Toolkit(ctx)
    single_writer(ctx, tk)
    coh = ctx.cached("coherence", lambda: Coherence(tk))
    before = len(ctx.obligations)
    report_raw_access(coh, "C03.b")
    ctx.obligations[before:] = [o for o in ctx.obligations[before:] if o.rule.endswith("VC4")]
    report(coh, "C03.b", funcs=[IA + "__setitem__"])
    setitem_shape(ctx, tk)
    from .C04 import geometry_equality
    geometry_equality(ctx, tk, "C03.c")      # the shape refusal of a ragged value rests on geometry equality
    scatter(ctx, tk)
    bcast.xor_scatter(ctx, tk, "C03.g")
    bcast.column_guard(ctx, tk, "C03.g")
    viewrules.slice_normalisation(ctx, tk, "C03.h")
    viewrules.empty_row_rule(ctx, tk, "C03.i")
    viewrules.col_slice_model(ctx, tk, "C03.i")
    viewrules.int_column_model(ctx, tk, "C03.i")
    viewrules.column_units(ctx, tk, "C03.h")
    from .. import hazards as _hz, scopes as _sc
    _hz.generic(ctx, tk, "C03.z", _sc.scope(tk, "C03", depth=1))
    return {}


def single_writer(ctx, tk):
    """EF3: which functions may write a RaggedArray's flat buffer in place"""
    found = {}
    for q, f in ctx.program.funcs.items():
        fa = ctx.fa(f)
        for s in tk.E.sites(fa):
            if s.kind in ("attrstore", "setitem"):
                continue
            fr = tk.E.fresh(s.target, fa)
            if fr[0] != "alias":
                continue
            if any(r[1] and r[1][-1] == "__data" for r in fr[1]):
                found.setdefault(q, []).append(s)
    for q, sites in sorted(found.items()):
        f = ctx.program.funcs[q]
        for s in sites:
            what = "only the designated writers store into a RaggedArray's flat buffer"
            if q in WRITERS:
                ctx.holds("C03.a", f, what + " [%s]" % WRITERS[q], node=s.astnode, engine="E3")
            else:
                ctx.violated("C03.a", f, what, "%s writes a RaggedArray buffer outside the designated writers %s" % (s.desc, sorted(WRITERS)),
                             node=s.astnode, engine="E3")
    if "raggedarray.base.RaggedBase._set_data_range" not in found:
        ctx.violated("C03.a", "raggedarray.base.RaggedBase._set_data_range", "the scatter routine stores into the flat buffer",
                     "no store into self.__data found: assignments would be silent no-ops", engine="E3")


def setitem_shape(ctx, tk):
    f = ctx.func(IA + "__setitem__")
    fa = ctx.fa(f)
    selfn, idxp, valp = f.params[0], f.params[1], f.params[2]
    writes = find_calls(fa, lambda c: c.a[0].k == "attr" and c.a[0].a[1] == "_set_data_range")
    wnodes = [n for n, _ in writes]
    # the assigned value reaches the value-kind dispatch as the caller gave it: replacing it by one of its cells (value[0],
    # value.ravel()[0], value.item()) under a test that is not a type test turns a one-cell RaggedArray into a scalar, which is then
    # broadcast over the selection instead of being checked against its shape
    for n in fa.cfg.stmts():
        if not (n.kind == "stmt" and isinstance(n.ast, ast.Assign) and any(isinstance(tg, ast.Name) and tg.id == valp for tg in n.ast.targets)):
            continue
        rhs = n.ast.value
        unwraps = any((isinstance(y, ast.Subscript) and any(isinstance(z, ast.Name) and z.id == valp for z in ast.walk(y.value)) and isinstance(y.slice, ast.Constant)) or
                      (isinstance(y, ast.Call) and isinstance(y.func, ast.Attribute) and y.func.attr == "item" and any(isinstance(z, ast.Name) and z.id == valp for z in ast.walk(y.func.value)))
                      for y in ast.walk(rhs))
        if not unwraps:
            continue
        typed = any(t.k == "call" and call_name(t) == "isinstance" and t.a[1] and any(a.k == "param" and a.a[0] == valp for a in alts(t.a[1][0])) for t, truth, _ in facts_at(fa, n))
        ctx.decide("C03.c", f, "a ragged value is compared with the selection's shape before anything is taken out of it", True if typed else False,
                   "`%s` replaces the value by one of its cells without a type test in front: a RaggedArray holding a single cell is assigned like a scalar "
                   "(broadcast over every selected cell) although its row lengths differ from the selection's" % ast.unparse(n.ast), node=n.ast, key="value-unwrapped", engine="E1")
    # dispatch completeness: every normal path performs exactly one raw write
    if wnodes:
        complete = fa.cfg.must_pass(wnodes, fa.cfg.exit)
        ctx.decide("C03.f", f, "every value kind reaches a raw write (no silent no-op assignment)", True if complete else False,
                   "a path through __setitem__ returns without calling _set_data_range", key="complete", engine="E1")
        twice = any(fa.cfg.can_reach(s, [o for o in wnodes if o is not a]) for a in wnodes for s in a.succ)
        ctx.decide("C03.f", f, "no value kind is written twice", not twice, "two raw writes on one path", key="once", engine="E1")
    else:
        ctx.violated("C03.f", f, "every value kind reaches a raw write", "no _set_data_range call in __setitem__", engine="E1")
    # provenance: the index of every raw write is what the reader's resolver returned for the user's index
    for n, c in writes:
        idx = c.a[1][0] if c.a[1] else None
        what = "the written positions come from the same index resolver the reader uses, applied to the user's index"
        ok = None
        if idx is not None:
            srcs = _index_sources(idx, idxp)
            if srcs <= {"_get_row_subset", "_get_view"}:
                ok = True
            elif "!other-index" in srcs:
                ok = False
        ctx.decide("C03.c", f, what, ok, "index derives from %s" % (idx,), node=c.node, engine="E4")
    # mismatching ragged value refused
    for n, c in writes:
        val = c.a[1][1] if len(c.a[1]) > 1 else None
        if val is None or not (val.k == "call" and val.a[0].k == "attr" and val.a[0].a[1] == "ravel" and val.a[0].a[0].k == "param"):
            continue
        facts = facts_at(fa, n)
        ragged_branch = any(t.k == "call" and t.a[0].k == "global" and t.a[0].a[0] == "isinstance" and truth and
                            any(y.k == "global" and y.a[0] in ("IndexableArray", "RaggedArray", "RaggedBase") for y in walk(t)) for t, truth, _ in facts)
        if not ragged_branch:
            continue

        def m(t):
            if t.k == "cmp" and t.a[0] in ("==", "!="):
                for l, r in ((t.a[1], t.a[2]), (t.a[2], t.a[1])):
                    cl = attr_chain(l)
                    if cl and cl[-1] == "_shape" and cl[0] == valp and all(a.k == "item" and a.a[1] == 1 for a in alts(r)):
                        return ("same_geometry", t.a[0] == "==")
            return None
        check_guard(ctx, "C03.e", f, [n], Formulas([m], irrelevant=irrelevant_unless(lambda t: mentions_param(t, {valp}))),
                    lambda A: A["same_geometry"], ["same_geometry"],
                    "a ragged value is scattered only after refusing unless its row geometry equals the selection's", fa=fa,
                    describe="a ragged value with the same number of cells but different row lengths is scattered flat into the selection")
    # column-vector branch uses the selection's geometry and the array's dtype
    for n, c in writes:
        val = c.a[1][1] if len(c.a[1]) > 1 else None
        if val is not None and val.k == "call" and val.a[0].k == "attr" and val.a[0].a[1] == "broadcast_values":
            recv = val.a[0].a[0]
            ok = all(a.k == "item" and a.a[1] == 1 for a in alts(recv))
            bad = attr_chain(recv) is not None and attr_chain(recv)[-1] == "_shape"
            ctx.decide("C03.f", f, "a column-vector value is broadcast over the rows of the *selection*", True if ok else (False if bad else None),
                       "broadcast over %s (the whole array's geometry) instead of the selection's" % (recv,), node=c.node, key="column-branch", engine="E5")


def scatter(ctx, tk):
    g = ctx.func("raggedarray.base.RaggedBase._set_data_range")
    ga = ctx.fa(g)
    stores = []
    for n in ga.cfg.stmts():
        if n.kind == "stmt" and isinstance(n.ast, (ast.Assign, ast.AugAssign)):
            tg = n.ast.targets[0] if isinstance(n.ast, ast.Assign) else n.ast.target
            if isinstance(tg, ast.Subscript):
                stores.append((n, tg))
    what = "every branch of the scatter routine stores the data into the flat buffer"
    ok = bool(stores) and ga.cfg.must_pass([n for n, _ in stores], ga.cfg.exit)
    ctx.decide("C03.d", g, what, True if ok else False, "a branch of _set_data_range performs no store", key="both-branches", engine="E1")
    for n, tg in stores:
        # EF2: chained store X[a][b] = v reaches X only if X[a] is a basic-slice view
        whatc = "a chained store writes through a basic-slice view of the buffer (not into a fancy-indexed temporary)"
        val_t = ga.term(n.ast.value, n)
        ok2 = any(x.k == "param" and x.a[0] == g.params[2] for x in walk(val_t)) if len(g.params) > 2 else None
        ctx.decide("C03.d", g, "the stored value is the data argument", True if ok2 else None, node=n.ast, key="value:" + ast.unparse(tg)[:40], engine="E4")
        if isinstance(tg.value, ast.Subscript):
            inner = ga.term(tg.value.slice, n)
            k = npkb.index_kind(inner)
            base = attr_chain(ga.term(tg.value.value, n))
            if k == "basic":
                ctx.holds("C03.d", g, whatc, node=n.ast, engine="E3")
            elif k == "fancy":
                ctx.violated("C03.d", g, whatc, "`%s` indexes a copy: the assignment is lost" % ast.unparse(tg), node=n.ast, engine="E3")
            else:
                ctx.unknown("C03.d", g, whatc, node=n.ast, engine="E3")
        else:
            base = attr_chain(ga.term(tg.value, n))
        ctx.decide("C03.d", g, "the store targets the array's own flat buffer", True if base and base[-1] == "__data" and base[0] == g.params[0] else None,
                   node=n.ast, key="target:" + ast.unparse(tg)[:40], engine="E3")


def _index_sources(t, idxp):
    """names of the resolver methods an index term is taken from (through tuple unpacking, phi and
    np.concatenate(list(generator)))"""
    out = set()
    for a in alts(t):
        x = a
        while x.k == "item":
            x = x.a[0]
        if x.k == "phi":
            out |= _index_sources(x, idxp)
            continue
        if np_call(x, {"concatenate"}) and x.a[1]:
            y = x.a[1][0]
            while y.k == "call" and y.a[0].k == "global" and y.a[0].a[0] == "list" and y.a[1]:
                y = y.a[1][0]
            out |= _index_sources(y, idxp)
            continue
        if x.k == "call" and x.a[0].k == "attr":
            name = x.a[0].a[1]
            out.add(name)
            if name == "_get_row_subset":
                arg = x.a[1][0] if x.a[1] else None
                if arg is None or not (arg.k == "param" and arg.a[0] == idxp):
                    out.add("!other-index")
            if name == "_get_view" and x.a[1]:
                out |= _index_sources(x.a[1][0], idxp) - {"?"}
        else:
            out.add("?")
    return out
