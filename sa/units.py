"""E5 - gradual unit inference over terms.  Unknown = None (never reported).

A context supplies   seed(term) -> unit | None   and a binary table  (op, ul, ur) -> unit | ("bad", why).
Integer literals are polymorphic ("num").  Only table entries marked bad are violations.
"""
from .terms import T, alts, walk, attr_chain, np_call, is_const

NUM = "num"


class Units:
    def __init__(self, seed, table, wrappers=()):
        self.seed = seed
        self.table = table
        self.bad = []           # (term, why)
        self._memo = {}
        self.wrappers = set(wrappers)

    def unit(self, t, depth=0):
        key = t
        if key in self._memo:
            return self._memo[key]
        if depth > 40:
            return None
        u = self._unit(t, depth)
        self._memo[key] = u
        return u

    def _unit(self, t, depth):
        rec = lambda x: self.unit(x, depth + 1)
        s = self.seed(t)
        if s is not None:
            return s
        k = t.k
        if k == "const":
            return NUM if isinstance(t.a[0], (int, float)) and not isinstance(t.a[0], bool) else None
        if k == "phi":
            us = [rec(x) for x in t.a[0]]
            real = [u for u in us if u not in (None, NUM)]
            if real and all(u == real[0] for u in real) and None not in us:
                return real[0]
            if us and all(u == NUM for u in us):
                return NUM
            return None
        if k == "ifexp":
            a, b = rec(t.a[1]), rec(t.a[2])
            if a == b:
                return a
            if a == NUM:
                return b
            if b == NUM:
                return a
            return None
        if k == "bin":
            op = t.a[0]
            l, r = rec(t.a[1]), rec(t.a[2])
            return self.combine(op, l, r, t)
        if k == "un" and t.a[0] in ("-", "+"):
            return rec(t.a[1])
        if k == "sub":
            # element / slice / gather of a unit-carrying array keeps the unit
            return rec(t.a[0])
        if k == "upd":
            return rec(t.a[0])
        if k == "call":
            nm = np_call(t, {"minimum", "maximum", "where", "abs", "asanyarray", "asarray", "atleast_1d", "array",
                             "clip", "sign", "ones_like", "zeros_like"})
            args = t.a[1]
            if nm in ("minimum", "maximum") and len(args) == 2:
                return self.combine(nm, rec(args[0]), rec(args[1]), t)
            if nm == "where" and len(args) == 3:
                return self.combine("where", rec(args[1]), rec(args[2]), t)
            if nm in ("abs", "asanyarray", "asarray", "atleast_1d", "array") and args:
                return rec(args[0])
            if nm == "clip" and args:
                return rec(args[0])
            if nm in ("ones_like", "zeros_like"):
                return NUM
            if t.a[0].k == "global" and t.a[0].a[0] in ("abs", "int", "min", "max") and args:
                if t.a[0].a[0] in ("min", "max") and len(args) == 2:
                    return self.combine("minimum", rec(args[0]), rec(args[1]), t)
                return rec(args[0])
            if t.a[0].k == "attr" and t.a[0].a[1] in ("copy", "astype", "ravel", "view") :
                return rec(t.a[0].a[0])
            cn = attr_chain(t.a[0])
            if cn and cn[-1] in self.wrappers and args:
                return rec(args[0])         # dtype constructors such as self._dtype(x)
            return None
        return None

    def combine(self, op, l, r, t):
        if l is None or r is None:
            return None
        res = self.table(op, l, r)
        if isinstance(res, tuple) and res and res[0] == "bad":
            self.bad.append((t, res[1], l, r))
            return None
        return res


# ---------------------------------------------------------------------------
# RaggedView2 column arithmetic:  P raw position, C column count/offset in view coordinates,
# S column step (raw positions per view column), O raw offset (= C*S), K step multiplier

def view2_table(op, l, r):
    if l == NUM and r == NUM:
        return NUM
    if op in ("minimum", "maximum", "where"):
        if l == r:
            return l
        if NUM in (l, r):
            return r if l == NUM else l
        return ("bad", "%s of a %s and a %s" % (op, _n(l), _n(r)))
    if op == "+" or op == "-":
        pair = (l, r)
        if l == r:
            if l == "P":
                return "O" if op == "-" else ("bad", "sum of two raw positions")
            return l
        if NUM in pair:
            return r if l == NUM else l
        if set(pair) == {"P", "O"}:
            if op == "-" and l == "O":
                return ("bad", "raw offset minus raw position")
            return "P"
        if set(pair) == {"P", "C"}:
            return ("bad", "a view column count is added to a raw position without the column step "
                           "(raw = start + column * col_step; wrong as soon as the view has a step other than 1)")
        if set(pair) == {"P", "S"} or set(pair) == {"C", "S"} or set(pair) == {"C", "O"}:
            return ("bad", "%s %s %s" % (_n(l), op, _n(r)))
        return None
    if op == "*":
        pair = {l, r}
        if pair == {"C", "S"}:
            return "O"
        if pair == {"S", "K"} or pair == {"S", NUM}:
            return "S"
        if pair == {"C", NUM} or pair == {"C", "K"}:
            return "C"
        if pair == {"K", NUM}:
            return "K"
        if pair == {"O", NUM}:
            return "O"
        if pair == {"P", "S"} or pair == {"P", "C"} or pair == {"P", "K"}:
            return ("bad", "a raw position is scaled")
        if pair == {"S"}:
            return "S"
        return None
    if op == "//":
        if l == "C" and r in ("K", NUM):
            return "C"
        if l == "O" and r == "S":
            return "C"
        if l == "C" and r == "S":
            return ("bad", "a view column count is divided by the column step of the underlying view")
        return None
    return None


def _n(u):
    return {"P": "raw position", "C": "view column count", "S": "column step", "O": "raw offset", "K": "step factor",
            NUM: "number"}.get(u, str(u))


def view2_seed(self_name, slice_param=None, col_locals=()):
    """seed for methods of RaggedView2: self.starts/ends P, self.lengths C, self.col_step S,
    <slice_param>.start/.stop C, .step K"""
    def seed(t):
        c = attr_chain(t)
        if c and c[0] == self_name and len(c) == 2:
            return {"starts": "P", "ends": "P", "lengths": "C", "col_step": "S"}.get(c[1])
        if t.k == "attr" and t.a[1] in ("start", "stop", "step") and slice_param is not None:
            b = t.a[0]
            if any(x.k == "param" and x.a[0] == slice_param for x in walk(b)) or (b.k == "call" and b.a[0].k == "global" and b.a[0].a[0] == "slice"):
                return "K" if t.a[1] == "step" else "C"
        if t.k == "param" and t.a[0] in col_locals:
            return "C"
        return None
    return seed


# ---------------------------------------------------------------------------
# BitArray:  E entry position/count, R register index, B bit count, ER entries per register,
# BE bits per entry, BR bits per register, VM value mask

def bit_table(op, l, r):
    if l == NUM and r == NUM:
        return NUM
    if op == "//":
        if l == "BR" and r == "BE":
            return "ER"
        if l == "E" and r == "ER":
            return "R"
        if l == "E" and r in ("BE", "BR", "VM", "B"):
            return ("bad", "an entry position is divided by %s; the register index is position // entries-per-register" % _bn(r))
        if l == "B" and r == "BE":
            return "E"
        if l == "E" and r == NUM:
            return None
        return None
    if op == "%":
        if l == "E" and r == "ER":
            return "E"
        if l == "E" and r in ("BE", "BR", "VM", "B"):
            return ("bad", "an entry position is reduced modulo %s; the in-register offset is position %% entries-per-register" % _bn(r))
        if l == "B" and r == "BR":
            return ("bad", "a shift amount is reduced modulo the register size (a shift by the full register becomes a shift by 0)")
        if l == "BR" and r == "BE":
            return NUM
        return None
    if op == "&":
        if l == "E" and r in ("VM", "BE", "BR", "ER"):
            return ("bad", "an entry position is masked with %s; the in-register offset is position %% entries-per-register" % _bn(r))
        if {l, r} == {"V", "VM"}:
            return "V"
        return None
    if op == "*":
        pair = {l, r}
        if pair == {"E", "BE"}:
            return "B"
        if pair == {"BE", NUM}:
            return "B"
        if pair == {"R", "ER"}:
            return "E"
        if pair == {"E", "BR"} or pair == {"E", "ER"} or pair == {"R", "BE"}:
            return ("bad", "%s times %s" % (_bn(l), _bn(r)))
        return None
    if op in ("+", "-"):
        if l == r:
            return l
        if NUM in (l, r):
            return r if l == NUM else l
        if {l, r} == {"BR", "B"} or {l, r} == {"B", "BE"}:
            return "B"
        if {l, r} == {"E", "R"} or {l, r} == {"E", "B"} or {l, r} == {"R", "B"}:
            return ("bad", "%s %s %s" % (_bn(l), op, _bn(r)))
        return None
    if op in ("<<", ">>"):
        if r in ("E", "R", "ER"):
            return ("bad", "a shift amount must be a bit count, got %s (entry offsets are scaled by the bit stride)" % _bn(r))
        return l if l not in (NUM,) else None
    return None


def _bn(u):
    return {"E": "an entry position", "R": "a register index", "B": "a bit count", "ER": "entries-per-register",
            "BE": "the bit stride", "BR": "the register size", "VM": "the value mask", "V": "packed values",
            NUM: "a number"}.get(u, str(u))
