"""Hazard rules from the numpy knowledge base (DESIGN 3.2 'hazards'): constructs whose documented
numpy semantics silently differ from what the surrounding code needs.  Each is a deviance rule: it only
speaks when the hazardous shape is present, and a site is a violation only when nothing licenses it.

H1  buffered in-place update through an integer-array index:  x[I] op= v  applies once per *distinct*
    index; with repeated indices contributions are lost (numpy docs: "Assigning values to indexed arrays").
H2  np.argmax(mask) returns 0 for an all-False mask: used as "position of the match" it needs a
    dominating existence check.
H3  change detection by arithmetic difference (np.diff(x) != 0 / > 0) instead of comparison: wrong for
    unsigned wrap-around, signed overflow, inf - inf and NaN.
H4  ndarray.take / np.take / np.put treat a boolean index as integers 0/1.
H5  np.append / np.concatenate / np.insert with a Python int list operand promote by value kind
    (uint64 + [0] -> float64).
"""
import ast
from .terms import T, alts, walk, attr_chain, np_call, is_const, call_name
from . import npkb
from .guards import facts_at, find_calls


def unique_by_construction(t):
    """index terms whose elements are pairwise distinct by construction"""
    for a in alts(t):
        if np_call(a, {"flatnonzero", "arange", "unique", "argsort", "lexsort"}):
            continue
        if a.k == "item" and a.a[0].k == "call" and np_call(a.a[0], {"nonzero", "where"}):
            # one axis of nonzero() alone is not unique
            return False
        if a.k == "const" or a.k == "slice":
            continue
        if a.k == "sub" and unique_by_construction(a.a[0]) and (a.a[1].k == "slice"):
            continue
        return False
    return True


def is_mask_or_basic(t, fa, R):
    k = npkb.index_kind(t)
    if k in ("basic",):
        return True
    for a in alts(t):
        if a.k == "cmp" or (a.k == "un" and a.a[0] == "~"):
            continue
        if a.k == "bin" and a.a[0] in ("&", "|") :
            continue
        if a.k in ("slice",) or (a.k == "const"):
            continue
        if a.k == "tuple" and all(is_mask_or_basic(x, fa, R) for x in a.a[0]):
            continue
        return False
    return True


def h1_buffered_updates(ctx, tk, rule, funcs, licensed=()):
    """licensed: set of function quals whose repeated-index updates are decided by a dedicated rule"""
    for f in funcs:
        if f.qual in licensed:
            continue
        fa = ctx.fa(f)
        for n in fa.cfg.stmts():
            st = n.ast
            if n.kind == "stmt" and isinstance(st, ast.AugAssign) and isinstance(st.target, ast.Subscript):
                idx = fa.term(st.target.slice, n)
                what = "an in-place update through an index array is only used when the indices cannot repeat"
                if is_mask_or_basic(idx, fa, tk.R):
                    continue
                if unique_by_construction(idx):
                    ctx.holds(rule, f, what, node=st, engine="KB")
                    continue
                tt = tk.R.typeof(fa.term(st.target.value, n), fa)
                if tt and tt[0] == "inst":
                    continue        # __setitem__ of a repo class, not a numpy buffered update
                ctx.violated(rule, f, what,
                             "`%s` is a buffered update: every distinct index is updated once, repeated indices "
                             "(e.g. the same key hit twice in one batch, rows sharing a boundary) lose contributions; "
                             "use np.bincount / ufunc.at" % ast.unparse(st), node=st, engine="KB")


def h2_argmax_of_mask(ctx, tk, rule, funcs):
    for f in funcs:
        fa = ctx.fa(f)
        for n, c in find_calls(fa, lambda c: np_call(c, {"argmax", "argmin"}) or (c.a[0].k == "attr" and c.a[0].a[1] in ("argmax",) and not c.a[1])):
            arg = c.a[1][0] if c.a[1] else c.a[0].a[0]
            if not any(a.k == "cmp" for a in alts(arg)):
                continue
            what = "np.argmax of a match mask is only used as 'position of the match' under an existence check"
            guarded = False
            for t, truth, _ in facts_at(fa, n):
                for x in walk(t):
                    if x.k == "call" and (np_call(x, {"any", "count_nonzero", "sum"}) or call_name(x) == "any") and x.a[1] \
                            and any(y == arg for y in walk(x.a[1][0])):
                        guarded = True
            ctx.decide(rule, f, what, True if guarded else False,
                       "np.argmax(%s) is 0 when nothing matches: an absent key resolves to the first candidate" % (arg,),
                       node=c.node, engine="KB")


def h3_diff_as_comparison(ctx, tk, rule, funcs):
    for f in funcs:
        fa = ctx.fa(f)
        seen = set()
        for n in fa.cfg.stmts():
            for e in _exprs(n):
                tm = fa.term(e, n)
                for x in walk(tm):
                    if x.k == "cmp" and x.a[0] in ("!=", "==", ">", "<", ">=", "<=") and id(x.node) not in seen:
                        for side, other in ((x.a[1], x.a[2]), (x.a[2], x.a[1])):
                            for _ in range(3):
                                if side.k == "call" and side.a[0].k == "attr" and side.a[0].a[1] in ("ravel", "flatten") and not side.a[1]:
                                    side = side.a[0].a[0]
                                elif side.k == "sub":
                                    side = side.a[0]
                            if x.a[0] in (">=", "<=") and index_typed(side.a[1][0] if (side.k == "call" and side.a[1]) else side):
                                continue
                            if np_call(side, {"diff", "ediff1d"}) and is_const(other, 0):
                                seen.add(id(x.node))
                                ctx.violated(rule, f, "neighbouring elements are compared with == / !=, not through their arithmetic difference",
                                             "`%s`: the difference wraps for unsigned values, overflows for extreme signed values and is NaN "
                                             "for inf - inf, so equal/unequal neighbours are misclassified" % (x,), node=x.node, engine="KB")


def h4_take_with_unknown_index(ctx, tk, rule, funcs):
    for f in funcs:
        fa = ctx.fa(f)
        for n, c in find_calls(fa, lambda c: (c.a[0].k == "attr" and c.a[0].a[1] in ("take", "put")) or np_call(c, {"take", "put"})):
            idx = c.a[1][0] if c.a[0].k == "attr" and not np_call(c, {"take", "put"}) else (c.a[1][1] if len(c.a[1]) > 1 else None)
            if idx is None:
                continue
            caller_controlled = any(a.k == "param" for a in alts(idx))
            what = "a row selector that may be a boolean mask is applied by subscripting, not by take()"
            if caller_controlled:
                ctx.violated(rule, f, what, "`%s`: take() casts a boolean mask to the integers 0/1 and selects rows 0 and 1 repeatedly" % (c,),
                             node=c.node, engine="KB")


def h5_python_list_promotion(ctx, tk, rule, funcs):
    for f in funcs:
        fa = ctx.fa(f)
        for n, c in find_calls(fa, lambda c: np_call(c, {"append", "concatenate", "hstack", "insert"})):
            nm = np_call(c, {"append", "concatenate", "hstack", "insert"})
            ops = []
            if nm == "append" and len(c.a[1]) >= 2:
                ops = [c.a[1][0], c.a[1][1]]
            elif nm == "insert" and len(c.a[1]) >= 3:
                ops = [c.a[1][0], c.a[1][2]]
            elif c.a[1] and c.a[1][0].k in ("tuple", "list"):
                ops = list(c.a[1][0].a[0])
            arrays = [o for o in ops if any(a.k == "param" for a in alts(o))]
            lists = [o for o in ops if _is_int_list(o)]
            if arrays and lists:
                ctx.violated(rule, f, "padding joined to a typed array carries that array's dtype",
                             "`%s` joins the array with a Python int list: numpy promotes uint64 with int to float64, "
                             "so large values are rounded" % (c,), node=c.node, engine="KB")
            elif arrays and len(ops) >= 2:
                other = [o for o in ops if o not in arrays]
                if other and all(_same_dtype_as(o, arrays[0]) for o in other):
                    ctx.holds(rule, f, "padding joined to a typed array carries that array's dtype", node=c.node, engine="KB")


def _is_int_list(t):
    for a in alts(t):
        if a.k == "list" and all(x.k == "const" and isinstance(x.a[0], int) for x in a.a[0]):
            continue
        if a.k == "bin" and a.a[0] == "*" and (_is_int_list(a.a[1]) or _is_int_list(a.a[2])):
            continue
        return False
    return True


def _same_dtype_as(o, arr):
    for a in alts(o):
        nm = np_call(a, {"zeros_like", "ones_like", "empty_like", "full_like"})
        if nm and a.a[1] and a.a[1][0] == arr and "dtype" not in dict(a.a[2]):
            continue
        nm2 = np_call(a, {"zeros", "ones", "empty", "full"})
        if nm2:
            dt = dict(a.a[2]).get("dtype")
            if dt is not None and dt.k == "attr" and dt.a[1] == "dtype" and dt.a[0] == arr:
                continue
        return False
    return True


def _exprs(n):
    from .resolve import _exprs_of_node
    return _exprs_of_node(n)


# ---------------------------------------------------------------------------
# second batch

def h6_non_c_order(ctx, tk, rule, funcs):
    """ravel/flatten/reshape with order other than 'C': the package's geometry assumes row-major flat data"""
    for f in funcs:
        fa = ctx.fa(f)
        for n, c in find_calls(fa, lambda c: (c.a[0].k == "attr" and c.a[0].a[1] in ("ravel", "flatten", "reshape")) or np_call(c, {"ravel", "reshape"})):
            o = dict(c.a[2]).get("order")
            if o is None:
                continue
            ok = o.k == "const" and o.a[0] == "C"
            ctx.decide(rule, f, "flat buffers are taken in row-major (C) order", ok,
                       "`%s`: order=%s follows the memory layout of the input: a transposed or Fortran-ordered array is flattened column by column, "
                       "so the rows read back differ from the rows that were passed in" % (c, o), node=c.node, engine="KB")


def h7_any_guarded_update(ctx, tk, rule, funcs):
    """`if np.any(C(x)): x = g(x)` updates every element, not only those satisfying C"""
    for f in funcs:
        fa = ctx.fa(f)
        for n in fa.cfg.stmts():
            if not (n.kind == "stmt" and isinstance(n.ast, ast.Assign) and isinstance(n.ast.targets[0], ast.Name)):
                continue
            name = n.ast.targets[0].id
            e = fa.cfg.nearest_edge(n)
            if e is None or e.info[0].kind != "test":
                continue
            cond = fa.term(e.info[0].ast, e.info[0])
            truth = e.info[1]
            anyc = None
            for x in walk(cond):
                if x.k == "call" and (np_call(x, {"any"}) or (x.a[0].k == "attr" and x.a[0].a[1] == "any")) and truth:
                    inner = x.a[1][0] if x.a[1] else x.a[0].a[0]
                    if inner.k == "cmp":
                        anyc = inner
            if anyc is None:
                continue
            prev = fa.name_term(name, n)
            if not any(prev == o for o in (anyc.a[1], anyc.a[2])):
                continue
            val = fa.term(n.ast.value, n)
            masked = any(np_call(x, {"where"}) for x in alts(val))
            uses_self = any(x == prev for x in walk(val))
            if uses_self and not masked:
                ctx.violated(rule, f, "an element-wise correction is applied through a mask (np.where), not to the whole array under np.any(...)",
                             "`if %s: %s = %s` rewrites every element as soon as one element satisfies the condition: in a vector that mixes both kinds "
                             "the others are shifted too" % (cond, name, val), node=n.ast, engine="KB")


GEOM_ATTRS = {"starts", "ends", "lengths", "_codes", "_dtype", "n_rows", "_step", "col_step"}


def index_typed(t, d=0):
    """the term is row geometry / index arithmetic (typed by the configured index dtype), not user data: attributes starts /
    ends / lengths / _codes / _dtype of any object, buffers allocated like them or with dtype=<such>.dtype, and arithmetic
    over such terms and integer constants.  numpy's widening of small *data* types is not at stake for these"""
    if d > 10:
        return False
    return all(_index_typed1(a, d) for a in alts(t))


def _index_typed1(a, d):
    k = a.k
    if k == "const":
        return isinstance(a.a[0], int) and not isinstance(a.a[0], bool)
    if k == "attr":
        if a.a[1] in GEOM_ATTRS:
            return True
        if a.a[1] in ("dtype", "size"):
            return index_typed(a.a[0], d + 1)
        return False
    if k in ("sub", "upd"):
        return index_typed(a.a[0], d + 1)
    if k == "bin":
        return index_typed(a.a[1], d + 1) and index_typed(a.a[2], d + 1)
    if k == "un":
        return index_typed(a.a[1], d + 1)
    if k == "call":
        kw = dict(a.a[2])
        nm = np_call(a, {"empty_like", "zeros_like", "ones_like", "full_like", "abs", "diff", "cumsum", "flatnonzero", "insert", "append", "pad", "minimum", "maximum"})
        if nm:
            if "dtype" in kw:
                return index_typed(kw["dtype"], d + 1)
            if nm == "flatnonzero":
                return True
            return bool(a.a[1]) and index_typed(a.a[1][0], d + 1)
        if np_call(a, {"zeros", "empty", "ones", "full", "arange"}):
            return "dtype" in kw and index_typed(kw["dtype"], d + 1)
        if a.a[0].k == "attr" and a.a[0].a[1] in ("ravel", "view", "copy", "reshape", "flatten") and not (a.a[0].a[1] == "view" and a.a[1]):
            return index_typed(a.a[0].a[0], d + 1)
    return False


NON_WIDENING_UFUNCS = {"bitwise_xor", "bitwise_and", "bitwise_or", "maximum", "minimum"}


def h8_forced_accumulator(ctx, tk, rule, funcs):
    """np.sum / cumsum / prod with dtype pinned to the operand's own dtype: numpy's default promotes small
    integers (and bool) to the platform integer; pinning makes totals wrap"""
    for f in funcs:
        fa = ctx.fa(f)
        for n, c in find_calls(fa, lambda c: np_call(c, {"sum", "cumsum", "prod", "cumprod", "divide", "true_divide", "mean", "average"}) or (c.a[0].k == "attr" and c.a[0].a[1] in ("sum", "cumsum", "prod", "cumprod", "mean"))):
            dt = dict(c.a[2]).get("dtype")
            if dt is None:
                continue
            forced = [a for a in alts(dt) if a.k == "attr" and a.a[1] == "dtype" and not index_typed(a)]
            plain = [a for a in alts(dt) if a.k == "param" or (a.k == "const" and a.a[0] is None)]
            what = "sums accumulate in numpy's default accumulator type unless the caller asks otherwise"
            if forced:
                ctx.violated(rule, f, what, "`%s` pins the accumulator to the operand's own dtype (%s): totals of int8/uint8/bool data wrap or collapse, "
                             "where numpy widens to the platform integer" % (c, forced[0]), node=c.node, engine="KB")
            elif plain and len(plain) == len(alts(dt)):
                ctx.holds(rule, f, what, node=c.node, engine="KB")


def h9_negative_param_slice_bound(ctx, tk, rule, funcs):
    """x[:-p] / slice(None, -p) with p a caller-supplied count that may be 0 selects nothing for p == 0"""
    for f in funcs:
        fa = ctx.fa(f)
        seen = set()
        for n in fa.cfg.stmts():
            for e in _exprs(n):
                tm = fa.term(e, n)
                for x in walk(tm):
                    hi = None
                    if x.k == "slice":
                        hi = x.a[1]
                    elif x.k == "call" and x.a[0].k == "global" and x.a[0].a[0] == "slice" and len(x.a[1]) >= 2:
                        hi = x.a[1][1]
                    if hi is None or id(x.node) in seen:
                        continue
                    if hi.k == "un" and hi.a[0] == "-" and hi.a[1].k == "param":
                        p = hi.a[1].a[0]
                        guarded = any(t.k == "cmp" and t.a[1].k == "param" and t.a[1].a[0] == p for t, truth, _ in facts_at(fa, n))
                        if not guarded:
                            seen.add(id(x.node))
                            ctx.violated(rule, f, "a trailing cut by a caller-supplied count handles the count 0",
                                         "`%s`: for %s == 0 the bound is -0 == 0 and the slice is empty instead of complete" % (x, p), node=x.node, engine="KB")


def h9b_negative_width_slice_start(ctx, tk, rule, funcs):
    """x[..., -w:] addresses the last w columns - except for w == 0, where -0 == 0 addresses *all* columns.  A width taken from
    the data (a .shape[k], len(..) or .size of an operand) may be 0 unless a test excludes it"""
    for f in funcs:
        fa = ctx.fa(f)
        seen = set()
        for n in fa.cfg.stmts():
            for e in _exprs(n):
                for sl in ast.walk(e):
                    if not (isinstance(sl, ast.Slice) and isinstance(sl.lower, ast.UnaryOp) and isinstance(sl.lower.op, ast.USub) and sl.upper is None):
                        continue
                    if id(sl) in seen:
                        continue
                    seen.add(id(sl))
                    w = fa.term(sl.lower.operand, n)
                    from_data = any((x.k == "sub" and x.a[0].k == "attr" and x.a[0].a[1] == "shape") or (x.k == "attr" and x.a[1] == "size") or
                                    (x.k == "call" and call_name(x) == "len") for a in alts(w) for x in walk(a))
                    if not from_data:
                        continue
                    names = {y.id for y in ast.walk(sl.lower.operand) if isinstance(y, ast.Name)}
                    guarded = False
                    def is_w(y):
                        return isinstance(y, ast.Name) and y.id in names
                    for t, truth, test in facts_at(fa, n):
                        for y in ast.walk(test.ast):
                            if isinstance(y, ast.Compare) and len(y.ops) == 1 and ((is_w(y.left) and isinstance(y.comparators[0], ast.Constant) and y.comparators[0].value in (0, 1)) or
                                                                                   (is_w(y.comparators[0]) and isinstance(y.left, ast.Constant) and y.left.value in (0, 1))):
                                guarded = True
                        if is_w(test.ast) or (isinstance(test.ast, ast.UnaryOp) and is_w(test.ast.operand)):
                            guarded = True
                    ctx.decide(rule, f, "a block addressed by its width from the right handles the width 0", True if guarded else False,
                               "`%s`: for a width of 0 the start -0 == 0 addresses the whole row instead of nothing (a block without columns cannot be placed)" % ast.unparse(sl),
                               node=sl, engine="KB")


def h10_counting_scatter(ctx, tk, rule, funcs):
    """X = zeros(...); X[boundaries of all rows] = const; cumsum(X): rows sharing a boundary are counted once"""
    from .layout import boundary_index
    for f in funcs:
        fa = ctx.fa(f)
        for n, c in find_calls(fa, lambda c: np_call(c, {"cumsum"}) and c.a[1] and c.a[1][0].k == "upd"):
            u = c.a[1][0]
            base = u
            while base.k == "upd":
                base = base.a[0]
            if not np_call(base, {"zeros", "zeros_like"}):
                continue
            x = c.a[1][0]
            while x.k == "upd":
                if x.a[3] is None and x.a[2].k == "const" and (boundary_index(x.a[1]) is not None or _is_boundary_local(x.a[1])):
                    ctx.violated(rule, f, "row boundaries are counted with multiplicity (several empty rows share one boundary)",
                                 "`X[%s] = %s` followed by a prefix sum counts rows that share a start once: every row after an empty row gets a too small number" % (x.a[1], x.a[2]),
                                 node=c.node, engine="KB")
                    break
                x = x.a[0]


def _is_boundary_local(t):
    for a in alts(t):
        x = a
        while x.k == "sub" and x.a[1].k == "slice":
            x = x.a[0]
        c = attr_chain(x)
        if not (c and c[-1] in ("starts", "ends")):
            return False
    return True


def h11_isinstance_int(ctx, tk, rule, funcs):
    """isinstance(x, int) is false for numpy integer scalars (np.int64(3)); index dispatch must use numbers.Number /
    numbers.Integral / np.integer"""
    for f in funcs:
        fa = ctx.fa(f)
        for n, c in find_calls(fa, lambda c: c.a[0].k == "global" and c.a[0].a[0] == "isinstance" and len(c.a[1]) == 2 and any(a.k == "param" for a in alts(c.a[1][0]))):
            cls = c.a[1][1]
            names = {x.a[0] for x in walk(cls) if x.k == "global"} | {(attr_chain(x) or ("",))[-1] for x in walk(cls) if x.k == "attr"}
            if "int" in names and not (names & {"Number", "Integral", "integer", "Real", "generic"}):
                # `isinstance(x, int) and x == 1: <shortcut>` only selects a fast path: whatever fails the test takes the general path
                guard_only = False
                if n.kind == "test" and isinstance(n.ast, ast.BoolOp) and isinstance(n.ast.op, ast.And):
                    pn = {a.a[0] for a in alts(c.a[1][0]) if a.k == "param"}
                    guard_only = any(isinstance(v, ast.Compare) and any(isinstance(y, ast.Name) and y.id in pn for y in ast.walk(v)) for v in n.ast.values)
                if guard_only:
                    continue
                ctx.violated(rule, f, "scalar index kinds are recognised for numpy integer scalars as well as Python ints",
                             "`%s`: np.int64(3) is not an `int`, so positions taken from an array (for i in np.arange(n): a[i]) fall through the dispatch" % (c,),
                             node=c.node, engine="KB")
            elif names & {"Number", "Integral", "integer"}:
                ctx.holds(rule, f, "scalar index kinds are recognised for numpy integer scalars as well as Python ints", node=c.node, engine="KB")


def h13_int_cast_of_selector(ctx, tk, rule, funcs):
    """np.asarray(selector, dtype=int) turns a boolean mask given as a list into the positions 0/1"""
    for f in funcs:
        fa = ctx.fa(f)
        for n, c in find_calls(fa, lambda c: np_call(c, {"asarray", "asanyarray", "array"}) and c.a[1] and any(a.k == "param" for a in alts(c.a[1][0]))):
            dt = dict(c.a[2]).get("dtype", c.a[1][1] if len(c.a[1]) > 1 else None)
            if dt is None or not (dt.k == "global" and dt.a[0] == "int" or (attr_chain(dt) or ("",))[-1] in ("int64", "int32", "intp", "int_", "_dtype")):
                continue
            pname = [a.a[0] for a in alts(c.a[1][0]) if a.k == "param"][0]
            selector_names = ("idx", "index", "indices", "raw_idx", "_index", "keys", "rows", "row_idx", "row_indices")
            if (attr_chain(dt) or ("",))[-1] == "_dtype":
                # geometry constructors convert their starts / lengths / codes to the index dtype on purpose: only parameters the
                # repository itself names as selectors are meant
                if pname not in selector_names:
                    continue
            elif pname not in (f.params[1:2] + [p for p in f.params if p in selector_names]):
                continue
            empty = any(t.k == "cmp" and t.a[0] == "==" and is_const(t.a[2], 0) and truth and t.a[1].k == "call" and call_name(t.a[1]) == "len" for t, truth, _ in facts_at(fa, n))
            ctx.decide(rule, f, "a selector is converted to an array without forcing an integer dtype (a boolean list stays a mask)", True if empty else False,
                       "`%s`: a boolean mask passed as a Python list becomes the positions 0 and 1" % (c,), node=c.node, engine="KB")


PY_TYPE_NAMES = {"bool", "int", "float", "complex", "object", "str"}


def _dtype_instance_evidence(t, f, tk):
    """True when the term certainly denotes an np.dtype *instance*: x.dtype, np.dtype(...), or a parameter
    that receives such a value at some call site"""
    for a in alts(t):
        if a.k == "attr" and a.a[1] == "dtype":
            return True
        if a.k == "call" and (attr_chain(a.a[0]) or ("",))[-1] in ("dtype", "result_type", "promote_types"):
            return True
        if a.k == "param" and a.a[0] in f.params:
            i = f.params.index(a.a[0])
            for cfa, c in tk.R.call_sites(f):
                args = list(c.a[1])
                off = 1 if (f.cls is not None and not f.is_staticmethod and c.a[0].k == "attr") else 0
                j = i - off
                arg = args[j] if 0 <= j < len(args) else dict(c.a[2]).get(a.a[0])
                if arg is not None and any(x.k == "attr" and x.a[1] == "dtype" for x in alts(arg)):
                    return True
    return False


def h14_dtype_identity(ctx, tk, rule, funcs):
    """`d is bool` with d an np.dtype instance is always False (np.dtype(bool) == bool is True, identity is not)"""
    for f in funcs:
        fa = ctx.fa(f)
        seen = set()
        for n in fa.cfg.nodes:
            if n.ast is None:
                continue
            for e in _exprs(n) if n.kind == "stmt" else ([n.ast] if isinstance(n.ast, ast.expr) else []):
                for x in ast.walk(e):
                    if not (isinstance(x, ast.Compare) and len(x.ops) == 1 and isinstance(x.ops[0], (ast.Is, ast.IsNot))):
                        continue
                    if id(x) in seen:
                        continue
                    l, r = x.left, x.comparators[0]
                    for subj, ty in ((l, r), (r, l)):
                        tn = ty.id if isinstance(ty, ast.Name) else (ty.attr if isinstance(ty, ast.Attribute) else None)
                        if tn is None or not (tn in PY_TYPE_NAMES or tn in npkb.ISSUBDTYPE):
                            continue
                        if isinstance(ty, ast.Constant):
                            continue
                        st = fa.term(subj, n)
                        if _dtype_instance_evidence(st, f, tk):
                            seen.add(id(x))
                            ctx.violated(rule, f, "a dtype is compared with a type by equality (np.dtype(bool) == bool), never by identity",
                                         "`%s`: an np.dtype instance is never the type object itself, so the test is constantly %s" % (
                                             ast.unparse(x), "False" if isinstance(x.ops[0], ast.Is) else "True"), node=x, engine="KB")


def h15_astype_none(ctx, tk, rule, funcs):
    """x.astype(p) where p may be None: astype(None) converts to float64 (np.dtype(None) is float64)"""
    for f in funcs:
        fa = ctx.fa(f)
        for n, c in find_calls(fa, lambda c: c.a[0].k == "attr" and c.a[0].a[1] == "astype" and c.a[1]):
            dt = c.a[1][0]
            for a in alts(dt):
                if a.k == "param" and a.a[0] in f.defaults and isinstance(f.defaults[a.a[0]], ast.Constant) and f.defaults[a.a[0]].value is None:
                    guarded = any(t.k == "cmp" and t.a[1].k == "param" and t.a[1].a[0] == a.a[0] and t.a[0] in ("is", "is not", "==", "!=")
                                  for t, truth, _ in facts_at(fa, n))
                    ctx.decide(rule, f, "a dtype argument that defaults to None is not handed to astype() unguarded", True if guarded else False,
                               "`%s`: with %s=None (the default) astype converts to float64 instead of keeping the element type" % (c, a.a[0]),
                               node=c.node, engine="KB")
                    break


def h16_initial_in_extremum(ctx, tk, rule, funcs):
    """max/min with a constant `initial`: the constant takes part in the comparison"""
    for f in funcs:
        fa = ctx.fa(f)
        for n, c in find_calls(fa, lambda c: (np_call(c, {"max", "min", "amax", "amin"}) or (c.a[0].k == "attr" and c.a[0].a[1] in ("max", "min"))) and "initial" in dict(c.a[2])):
            v = dict(c.a[2])["initial"]
            if all(a.k == "const" and isinstance(a.a[0], (int, float)) and not isinstance(a.a[0], bool) for a in alts(v)):
                ctx.violated(rule, f, "an extremum is taken over the data alone",
                             "`%s`: the constant `initial` competes with the data (a maximum of all-negative values comes back as %s)" % (c, v), node=c.node, engine="KB")


def h17_tolerance_as_equality(ctx, tk, rule, funcs):
    """np.isclose / allclose deciding which elements are merged, dropped or indexed: values within the
    tolerance but different are treated as the same"""
    for f in funcs:
        fa = ctx.fa(f)
        for n, c in find_calls(fa, lambda c: np_call(c, {"isclose"})):
            # used as data-structure decision: operand of flatnonzero / nonzero / where / delete / boolean index
            used = False
            for m in fa.cfg.stmts():
                for e in _exprs(m):
                    tm = fa.term(e, m)
                    for x in walk(tm):
                        if x.k == "call" and np_call(x, {"flatnonzero", "nonzero", "delete", "where", "argmax", "cumsum"}) and any(y == c for a in x.a[1] for y in walk(a)):
                            used = True
                        if x.k == "sub" and any(y == c for y in walk(x.a[1])):
                            used = True
            if used:
                ctx.violated(rule, f, "elements are merged / selected by exact comparison",
                             "`%s` selects positions: values that differ by less than the tolerance (1e-5 relative: 100000 and 100001) are treated as equal" % (c,),
                             node=c.node, engine="KB")
        # np.allclose / np.isclose(...).all() as the answer of an equality method, or as a branch condition
        for n, c in find_calls(fa, lambda c: np_call(c, {"allclose"}) or (np_call(c, {"all"}) and c.a[1] and np_call(c.a[1][0], {"isclose"}))):
            is_eq = f.name in ("__eq__", "__ne__", "equals", "__contains__")
            in_test = n.kind == "test"
            if is_eq or in_test:
                ctx.violated(rule, f, "equality is decided by exact comparison",
                             "`%s` answers an equality question with a tolerance: values that differ by less than 1e-5 relative (2000100 and 2000101) compare equal" % (c,),
                             node=c.node, engine="KB")


def h18_cross_operand_store(ctx, tk, rule, funcs):
    """d = copy of operand B;  d[mask] = values of operand A: the store casts A's values to B's dtype (no promotion),
    where the numpy function being reproduced (np.where, np.concatenate, ...) promotes to the common type"""
    from .opflow import value_roots
    for f in funcs:
        fa = ctx.fa(f)
        for n in fa.cfg.stmts():
            if not (n.kind == "stmt" and isinstance(n.ast, ast.Assign) and len(n.ast.targets) == 1 and isinstance(n.ast.targets[0], ast.Subscript)
                    and isinstance(n.ast.targets[0].value, ast.Name)):
                continue
            base = fa.term(n.ast.targets[0].value, n)
            val = fa.term(n.ast.value, n)
            pa = {r[1] for r in value_roots(val) if r[0] == "param"}
            idx_roots = {r[1] for r in value_roots(fa.term(n.ast.targets[0].slice, n)) if r[0] == "param"}
            bad = []
            for a in alts(base):
                # a typed copy of one operand: x.copy() / np.array(x) / np.copy(x) / x.astype(x.dtype) ... without any promotion
                is_copy = (a.k == "call" and a.a[0].k == "attr" and a.a[0].a[1] == "copy") or np_call(a, {"array", "copy"})
                if not is_copy:
                    continue
                if any(x.k == "call" and (attr_chain(x.a[0]) or ("",))[-1] in ("result_type", "promote_types", "astype", "where", "common_type") for x in walk(a)):
                    continue
                pb = {r[1] for r in value_roots(a) if r[0] == "param"}
                extra = pa - pb - idx_roots
                if pb and extra and not (f.params and f.params[0] in ("self",) and f.params[0] in pb):
                    bad.append((a, sorted(extra), sorted(pb)))
            if bad:
                a, extra, pb = bad[0]
                ctx.violated(rule, f, "a result combining two operands has their common element type",
                             "`%s` stores values of `%s` into a copy of `%s` (%s): the store casts to the copy's dtype, so float values are truncated / "
                             "wide integers wrap where numpy's own function promotes" % (ast.unparse(n.ast), ", ".join(extra), ", ".join(pb), a), node=n.ast, engine="KB")


def h18b_blocks_into_first_operands_type(ctx, tk, rule, funcs):
    """ret = np.zeros_like(<one operand>, shape=...) / np.zeros(.., dtype=<one operand>.dtype); for a in <all operands>: ret[..] = a
    casts every block to the element type of that one operand, where np.concatenate promotes to the common type (an int block
    first truncates the float blocks after it)"""
    for f in funcs:
        if not any(isinstance(x, (ast.For, ast.comprehension)) for x in ast.walk(f.node)):
            continue
        fa = ctx.fa(f)
        for loop in ast.walk(f.node):
            if not isinstance(loop, ast.For):
                continue
            loopvars = {x.id for x in ast.walk(loop.target) if isinstance(x, ast.Name)}
            for st in ast.walk(loop):
                if not (isinstance(st, ast.Assign) and len(st.targets) == 1 and isinstance(st.targets[0], ast.Subscript) and isinstance(st.targets[0].value, ast.Name)
                        and isinstance(st.value, ast.Name) and st.value.id in loopvars):
                    continue
                n = fa.node_of(st)
                if n is None:
                    continue
                buf = fa.term(st.targets[0].value, n)
                for a in alts(buf):
                    b = a
                    while b.k in ("upd", "sub"):
                        b = b.a[0]
                    nm = np_call(b, {"zeros_like", "empty_like", "ones_like", "full_like", "zeros", "empty", "ones", "full"})
                    if not nm:
                        continue
                    kw = dict(b.a[2])
                    src = None
                    if nm.endswith("_like") and "dtype" not in kw and b.a[1]:
                        src = b.a[1][0]
                    elif "dtype" in kw and kw["dtype"].k == "attr" and kw["dtype"].a[1] == "dtype":
                        src = kw["dtype"].a[0]
                    if src is None or any(x.k == "call" and (attr_chain(x.a[0]) or ("",))[-1] in ("result_type", "promote_types", "common_type") for x in walk(b)):
                        continue
                    # the typing operand is a single object (self.x / one parameter / element 0), the stored blocks range over a collection
                    single = src.k in ("attr", "param") or (src.k == "sub" and is_const(src.a[1], 0))
                    if single:
                        ctx.violated(rule, f, "a result assembled from several blocks has their common element type",
                                     "`%s` stores every block into `%s`, typed by `%s` alone: blocks of a wider type are cast down (float blocks after an int block are truncated) "
                                     "where np.concatenate promotes" % (ast.unparse(st), b, src), node=st, engine="KB")
                        break


def h18c_typed_by_the_first_operand(ctx, tk, rule, funcs):
    """f(<all operands>, dtype=operands[0].dtype): the result of joining several operands has their common element type; taking
    the first operand's type casts the others down (int first, float second: the floats are truncated)"""
    for f in funcs:
        for x in ast.walk(f.node):
            if not isinstance(x, ast.Call):
                continue
            cands = [(kw.arg, kw.value) for kw in x.keywords]
            if isinstance(x.func, ast.Attribute) and x.func.attr == "astype" and x.args:
                cands.append(("dtype", x.args[0]))
            for kwarg, v in cands:
                kw = type("K", (), {"arg": kwarg})
                if kw.arg == "dtype" and isinstance(v, ast.Attribute) and v.attr in ("dtype", "_dtype") and isinstance(v.value, ast.Subscript) \
                        and isinstance(v.value.value, ast.Name) and v.value.value.id in f.params and isinstance(v.value.slice, ast.Constant) and v.value.slice.value in (0, -1):
                    coll = v.value.value.id
                    uses_all = any(isinstance(y, ast.Name) and y.id == coll and not (isinstance(getattr(y, "_parent", None), ast.Subscript)) for a in x.args for y in ast.walk(a))
                    if isinstance(x.func, ast.Attribute) and x.func.attr == "astype":
                        # data.astype(rows[0].dtype): `data` holds all rows when some statement of the function builds it from the whole collection
                        uses_all = any(isinstance(st, ast.Assign) and any(isinstance(y, ast.Name) and y.id == coll for y in ast.walk(st.value)) and
                                       any(isinstance(tg, ast.Name) and isinstance(x.func.value, ast.Name) and tg.id == x.func.value.id for tg in st.targets) for st in ast.walk(f.node))
                    if uses_all:
                        ctx.violated(rule, f, "a result joining several operands has their common element type",
                                     "`%s` types the result by `%s` alone although it is built from all of `%s`" % (ast.unparse(x)[:120], ast.unparse(v), coll), node=x, engine="KB")


def h19_raw_identity_store(ctx, tk, rule, funcs):
    """`ufunc.identity` is a Python scalar (-1 for bitwise_and, True for logical_and, 0, 1): written into an array of
    the data's dtype it must be converted first - numpy refuses an out-of-range Python integer on assignment
    (-1 into any unsigned array raises OverflowError), and np.full with it yields int64 whatever the data type"""
    for f in funcs:
        fa = ctx.fa(f)
        for n in fa.cfg.stmts():
            if not (n.kind == "stmt" and isinstance(n.ast, ast.Assign) and len(n.ast.targets) == 1 and isinstance(n.ast.targets[0], ast.Subscript)):
                continue
            v = fa.term(n.ast.value, n)
            raw = [a for a in alts(v) if a.k == "attr" and a.a[1] == "identity"]
            if raw:
                ctx.violated(rule, f, "a ufunc's identity is converted to the result's dtype before it is stored",
                             "`%s` stores the Python scalar %s: for bitwise_and it is -1, which numpy refuses to store into an unsigned array "
                             "(OverflowError), so reducing unsigned rows with an empty row fails instead of giving the all-ones identity" % (ast.unparse(n.ast), raw[0]),
                             node=n.ast, engine="KB")
            elif any(x.k == "attr" and x.a[1] == "identity" for x in walk(v)):
                ctx.holds(rule, f, "a ufunc's identity is converted to the result's dtype before it is stored", node=n.ast, engine="KB")


def h20_chunk_loop_drops_tail(ctx, tk, rule, funcs):
    """for i in range(n // k): ... x[i*k:(i+1)*k] ...   covers floor(n/k) whole chunks: the last n % k elements are
    never visited unless the count is rounded up or the tail is handled after the loop"""
    for f in funcs:
        fa = ctx.fa(f)
        for fn in [n for n in fa.cfg.nodes if n.kind == "for" and fa.cfg.is_reachable(n)]:
            it = fn.ast.iter
            if not (isinstance(it, ast.Call) and isinstance(it.func, ast.Name) and it.func.id == "range" and len(it.args) == 1):
                continue
            cnt = it.args[0]
            tm = fa.term(cnt, fn)
            fd = [a for a in alts(tm) if a.k == "bin" and a.a[0] == "//"]
            if not fd or len(fd) != len(alts(tm)):
                continue
            num, k = fd[0].a[1], fd[0].a[2]
            # rounded up:  (n + k - 1) // k   or  -(-n // k)
            if any(x.k == "bin" and x.a[0] in ("+", "-") and any(y == k for y in walk(x)) for x in walk(num)) or num.k == "un":
                continue
            if not isinstance(fn.ast.target, ast.Name):
                continue
            iv = fn.ast.target.id
            # the body slices with i*k : (i+1)*k
            sliced = False
            for x in ast.walk(ast.Module(body=fn.ast.body, type_ignores=[])):
                if isinstance(x, ast.Slice) and x.lower is not None and x.upper is not None and any(isinstance(y, ast.Name) and y.id == iv for y in ast.walk(x.lower)) \
                        and any(isinstance(y, ast.Name) and y.id == iv for y in ast.walk(x.upper)):
                    sliced = True
            if not sliced:
                continue
            # tail handling anywhere else in the function: a `%` of the same operands, or an open slice starting at a multiple
            rest = [x for x in ast.walk(f.node) if isinstance(x, ast.BinOp) and isinstance(x.op, ast.Mod)]
            open_tail = [x for x in ast.walk(f.node) if isinstance(x, ast.Slice) and x.upper is None and x.lower is not None and not any(
                isinstance(y, ast.Name) and y.id == iv for y in ast.walk(x.lower)) and any(isinstance(y, (ast.Mult, ast.FloorDiv)) for y in ast.walk(x.lower))]
            ok = bool(rest or open_tail)
            ctx.decide(rule, f, "a loop over fixed-size chunks also covers the incomplete last chunk", True if ok else False,
                       "`for %s in %s` visits floor(n / k) chunks `[%s*k : (%s+1)*k]`; the last n %% k elements are never processed" % (iv, ast.unparse(it), iv, iv),
                       node=fn.ast, engine="KB")


def h21_default_dtype_result(ctx, tk, rule, funcs):
    """np.full / zeros / ones / empty without a dtype produce int64 / float64 whatever the data: returned as the
    result of an operation on typed data, the result's type (and everything computed from it: uint64 + int64 is
    float64) no longer follows the operand"""
    for f in funcs:
        fa = ctx.fa(f)
        seen = set()
        for r in fa.cfg.returns():
            if r.ast.value is None:
                continue
            tm = fa.term(r.ast.value, r)
            for x in walk(tm):
                nm = np_call(x, {"full", "zeros", "ones", "empty"})
                if not nm or id(x.node) in seen:
                    continue
                seen.add(id(x.node))
                has_dt = "dtype" in dict(x.a[2]) or (nm == "full" and len(x.a[1]) > 2) or (nm != "full" and len(x.a[1]) > 1)
                typed_fill = nm == "full" and any(y.k == "call" for y in walk(dict(x.a[2]).get("fill_value", x.a[1][1] if len(x.a[1]) > 1 else T("const", (0,), None))))
                what = "an array allocated as (part of) the result carries a dtype derived from the data"
                fvt = dict(x.a[2]).get("fill_value", x.a[1][1] if len(x.a[1]) > 1 else None) if nm == "full" else None
                none_fill = fvt is not None and (all(is_const(a, None) for a in alts(fvt)) or (
                    x.node is not None and fa.node_of(x.node) is not None and any(
                        t.k == "cmp" and t.a[0] in ("is", "==") and truth and is_const(t.a[2], None) and any(a == t.a[1] for a in alts(fvt))
                        for t, truth, _ in facts_at(fa, fa.node_of(x.node)))))
                if none_fill:
                    continue        # a placeholder array of None: there is no numeric type to derive
                if has_dt or typed_fill:
                    ctx.holds(rule, f, what, node=x.node, engine="KB")
                else:
                    ctx.violated(rule, f, what, "`%s` has numpy's default dtype whatever the operand's element type: e.g. the row sums of an unsigned array whose rows are "
                                 "all empty come back int64, and adding them to unsigned values promotes to float64" % (x,), node=x.node, engine="KB")


def h22_reduceat_clamped(ctx, tk, rule, funcs):
    """ufunc.reduceat(a, idx) reduces a[idx[i]:idx[i+1]]: an index clamped into range (np.minimum / np.clip to size-1) to
    avoid the IndexError for idx == len(a) shortens the segment in front of it by one element"""
    for f in funcs:
        fa = ctx.fa(f)
        for n, c in find_calls(fa, lambda c: c.a[0].k == "attr" and c.a[0].a[1] == "reduceat" and len(c.a[1]) >= 2):
            idx = c.a[1][1]
            if any(np_call(x, {"minimum", "clip"}) for a in alts(idx) for x in walk(a)):
                ctx.violated(rule, f, "reduceat segment boundaries are used unmodified (trimmed, never clamped)",
                             "`%s`: clamping the start of a trailing empty segment to size-1 makes the segment before it end one element early" % (c,),
                             node=c.node, engine="KB")


def h23_uninitialised_result(ctx, tk, rule, funcs):
    """np.empty / np.empty_like hand out uninitialised memory: returned as the data of a result they must be filled
    completely, or be known to have no cells (a dominating `size == 0` test)"""
    for f in funcs:
        if f.name in ("empty_like", "empty"):
            continue            # the handler of np.empty_like itself: uninitialised by contract
        fa = ctx.fa(f)
        for r in fa.cfg.returns():
            if r.ast.value is None:
                continue
            tm = fa.term(r.ast.value, r)
            for a in alts(tm):
                core = a
                # constructor wrapping:  cls(np.empty_like(...), shape)
                if core.k == "call" and core.a[1] and not np_call(core, {"empty", "empty_like"}):
                    inner = [x for x in core.a[1] if np_call(x, {"empty", "empty_like"})]
                    if not inner:
                        continue
                    core = inner[0]
                if not np_call(core, {"empty", "empty_like"}):
                    continue
                # only a buffer that nobody fills: the allocation is written in the return expression itself, or bound to a name
                # that is used nowhere else (not stored into, not passed as out=, not handed to a filling helper)
                direct = core.node is not None and any(x is core.node for x in ast.walk(r.ast))
                if not direct:
                    names = [tg.id for st in ast.walk(f.node) if isinstance(st, ast.Assign) and st.value is core.node for tg in st.targets if isinstance(tg, ast.Name)]
                    uses = sum(1 for x in ast.walk(f.node) if isinstance(x, ast.Name) and x.id in names and isinstance(x.ctx, ast.Load))
                    in_ret = sum(1 for x in ast.walk(r.ast) if isinstance(x, ast.Name) and x.id in names)
                    if not names or uses > in_ret:
                        continue
                zero = any(((t.k == "cmp" and t.a[0] == "==" and is_const(t.a[2], 0) and truth) or (t.k == "cmp" and t.a[0] == "!=" and is_const(t.a[2], 0) and not truth)
                            or (t.k == "attr" and t.a[1] == "size" and not truth) or (t.k == "call" and call_name(t) == "len" and not truth))
                           for t, truth, _ in facts_at(fa, r))
                const_zero = np_call(core, {"empty"}) and core.a[1] and any(is_const(y, 0) for y in walk(core.a[1][0]))
                other = [t for t, truth, _ in facts_at(fa, r) if any(x.k == "attr" and x.a[1] == "size" for x in walk(t))]
                ctx.decide(rule, f, "uninitialised memory (np.empty / np.empty_like) is returned only for results without cells", True if (zero or const_zero) else (False if other else None),
                           "`%s` is returned under a condition that does not make it empty: its cells hold whatever was in memory" % (core,), node=r.ast, engine="KB")


def h24_memory_layout_as_shape(ctx, tk, rule, funcs):
    """.strides describes the memory of one particular array object; offsets for a logical (row, column) position computed from
    it are wrong for every view that is not C-contiguous, in particular next to .ravel() / np.asarray copies that re-pack the data"""
    for f in funcs:
        fa = ctx.fa(f)
        for n in fa.cfg.stmts():
            for e in _exprs(n):
                for x in ast.walk(e):
                    if isinstance(x, ast.Attribute) and x.attr == "strides" and isinstance(x.ctx, ast.Load):
                        ctx.violated(rule, f, "logical positions are computed from shapes, not from memory strides",
                                     "`%s`: the stride is the memory pitch of this particular view; combined with flattened (re-packed) data it addresses the wrong cells for "
                                     "sliced, transposed or Fortran-ordered inputs" % ast.unparse(x), node=x, engine="KB")


def _total(t):
    """a scalar summary of an array / geometry: size, len(), n_rows, np.size, a sum / extremum, one element, arithmetic of those"""
    if t.k == "const":
        return True
    if t.k == "call" and ((t.a[0].k == "global" and t.a[0].a[0] in ("len", "int")) or (attr_chain(t.a[0]) or ("",))[-1] in ("size", "sum", "max", "min", "prod", "count_nonzero")):
        return True
    if t.k == "attr" and t.a[1] in ("size", "n_rows", "ndim"):
        return True
    if t.k == "bin":
        return _total(t.a[1]) and _total(t.a[2])
    if t.k == "sub" and (t.a[1].k == "const" or (t.a[1].k == "un" and t.a[1].a[1].k == "const")):
        return True
    return False


def h25_totals_equality_fast_path(ctx, tk, rule, funcs):
    """a branch (not a refusal) decided by an equality of two *totals* - sizes, counts, sums, single elements and arithmetic
    of them (lengths[0] * n_rows == size, last - first == size - 1, size == n_rows, np.size(keys) == n_keys, sum == 0):
    finitely many scalars cannot establish that every row has the same length, that positions are contiguous and in order,
    that all keys are named once, or that every value is zero.  Such a test can refuse (a necessary condition failed) but it
    cannot select a shortcut"""
    from .guards import refusals
    for f in funcs:
        fa = ctx.fa(f)
        ref = {t.id for t, _ in refusals(fa)}
        for n in fa.cfg.nodes:
            if n.kind != "test" or not fa.cfg.is_reachable(n) or n.ast is None or n.id in ref:
                continue
            if isinstance(getattr(n, "origin", None), ast.Assert):
                continue
            parts = []
            _split_and(fa.term(n.ast, n), parts)
            hit = None
            # one extremum equal to a constant says nothing about the other end: max(lengths) == 1 also holds for lengths (1, 0, 1)
            ext = []
            for t in parts:
                if t.k == "cmp" and t.a[0] == "==":
                    for l, r in ((t.a[1], t.a[2]), (t.a[2], t.a[1])):
                        nm = (attr_chain(l.a[0]) or ("",))[-1] if l.k == "call" else None
                        if nm in ("max", "amax", "min", "amin") and r.k == "const" and isinstance(r.a[0], int) and not isinstance(r.a[0], bool):
                            ext.append((nm.lstrip("a"), r.a[0], t))
            kinds = {k for k, _, _ in ext}
            for k, c, t in ext:
                if len(kinds) == 2:
                    break
                if k == "max" and c == 0:
                    continue            # counts / lengths are non-negative: a maximum of 0 makes all of them 0
                ctx.violated(rule, f, "a shortcut is selected by a per-element check, not by one extremum",
                             "`%s` fixes one end of the range only: the other elements may still differ (lengths (1, 0, 1) have maximum 1, too)" % (t,), node=n.ast, engine="KB")
            for t in parts:
                if not (t.k == "cmp" and t.a[0] == "==" and _total(t.a[1]) and _total(t.a[2])):
                    continue
                l, r = t.a[1], t.a[2]
                # "as many elements satisfy P as there are elements" does establish P for every element: a count of a
                # predicate (flatnonzero(x).size, count_nonzero(x), sum(x > 0)) compared with a total is a per-element test
                def pred_count(x):
                    return any((np_call(y, {"flatnonzero", "count_nonzero", "nonzero", "argwhere"}) is not None) or
                               (y.k == "call" and y.a[0].k == "attr" and y.a[0].a[1] == "nonzero") or
                               (y.k == "call" and (attr_chain(y.a[0]) or ("",))[-1] == "sum" and any(z.k == "cmp" for a_ in y.a[1] for z in walk(a_)))
                               for y in walk(x))
                if pred_count(l) or pred_count(r):
                    continue
                if l.k == "const" or r.k == "const":
                    # comparisons with a constant are fine (size == 0, ndim == 1, size == 1) - except "the sum is zero"
                    other = r if l.k == "const" else l
                    c = l if l.k == "const" else r
                    if not (is_const(c, 0) and other.k == "call" and (attr_chain(other.a[0]) or ("",))[-1] == "sum"):
                        continue
                hit = t
            if hit is None:
                continue
            ctx.violated(rule, f, "a shortcut is selected by a per-element check, not by an equality of totals",
                         "`%s` compares scalar totals: it also holds for inputs the shortcut is wrong for (rows of lengths (2, 1, 3) or (2, 0); positions out of order; "
                         "a repeated key in a vector as long as the key set; initial values that cancel)" % (hit,), node=n.ast, engine="KB")


def _split_and(t, out):
    if t.k == "bool" and t.a[0] == "and":
        for x in t.a[1]:
            _split_and(x, out)
    else:
        out.append(t)


def h26_class_level_cache(ctx, tk, rule, funcs):
    """a dict / list created in the class body is one object shared by the class and all its subclasses.  A method that
    memoises a value computed from `self.<attr>` in it, under a key that does not mention an attribute some subclass
    overrides, hands one subclass's value to the other"""
    for f in funcs:
        if f.cls is None or not f.params:
            continue
        selfn = f.params[0]
        shared = {}
        for c in f.cls.mro():
            for k_, v in c.attrs.items():
                if isinstance(v, (ast.Dict, ast.List, ast.Set)) or (isinstance(v, ast.Call) and isinstance(v.func, ast.Name) and v.func.id in ("dict", "list", "set", "defaultdict")):
                    shared.setdefault(k_, c)
        if not shared:
            continue
        subs = [k for k in ctx.program.subclasses(f.cls) if k is not f.cls]
        overridden = set()
        for k in subs:
            overridden |= set(k.attrs)
        for x in ast.walk(f.node):
            if not (isinstance(x, ast.Assign) and len(x.targets) == 1 and isinstance(x.targets[0], ast.Subscript)):
                continue
            tg = x.targets[0]
            if not (isinstance(tg.value, ast.Attribute) and isinstance(tg.value.value, ast.Name) and tg.value.value.id == selfn and tg.value.attr in shared):
                continue
            key_names = {y.attr for y in ast.walk(tg.slice) if isinstance(y, ast.Attribute)} | {y.id for y in ast.walk(tg.slice) if isinstance(y, ast.Name)}
            if "__class__" in key_names or "type" in key_names:
                continue
            reads = {y.attr for y in ast.walk(x.value) if isinstance(y, ast.Attribute) and isinstance(y.value, ast.Name) and y.value.id == selfn}
            # one level through instance attributes assigned in this function from class attributes
            for y in ast.walk(f.node):
                if isinstance(y, ast.Assign) and any(isinstance(t, ast.Attribute) and isinstance(t.value, ast.Name) and t.value.id == selfn and t.attr in reads for t in y.targets):
                    reads |= {z.attr for z in ast.walk(y.value) if isinstance(z, ast.Attribute) and isinstance(z.value, ast.Name) and z.value.id == selfn}
            clash = sorted((reads & overridden) - key_names)
            what = "a value memoised in class-level (shared) state is keyed by everything it depends on"
            if clash:
                ctx.violated(rule, f, what, "`%s` caches a value that depends on %s, which %s override(s), under a key that ignores the class: after one class has filled the "
                             "cache the other reads its table" % (ast.unparse(x)[:100], ", ".join("self." + c_ for c_ in clash), ", ".join(k.name for k in subs if set(k.attrs) & set(clash))),
                             node=x, engine="KB")
            else:
                ctx.holds(rule, f, what, node=x, engine="KB")


def _tainted_names(body, seeds):
    """local names whose value derives from the names in `seeds`: assignments, loop targets, comprehension targets and
    X.append / X.extend / X.insert of a derived value (syntactic fixpoint, flow-insensitive)"""
    t = set(seeds)
    mod = ast.Module(body=list(body), type_ignores=[])

    def mentions(e):
        return any(isinstance(y, ast.Name) and y.id in t for y in ast.walk(e))
    changed = True
    while changed:
        changed = False
        for x in ast.walk(mod):
            new = []
            if isinstance(x, ast.Assign) and mentions(x.value):
                for tg in x.targets:
                    new += [y.id for y in ast.walk(tg) if isinstance(y, ast.Name)]
            elif isinstance(x, ast.AugAssign) and mentions(x.value) and isinstance(x.target, ast.Name):
                new.append(x.target.id)
            elif isinstance(x, (ast.For, ast.comprehension)) and mentions(x.iter):
                new += [y.id for y in ast.walk(x.target) if isinstance(y, ast.Name)]
            elif isinstance(x, ast.Call) and isinstance(x.func, ast.Attribute) and x.func.attr in ("append", "extend", "insert") and isinstance(x.func.value, ast.Name) \
                    and any(mentions(a) for a in x.args):
                new.append(x.func.value.id)
            for nm in new:
                if nm not in t:
                    t.add(nm)
                    changed = True
    return t


def h27_positional_arguments_dropped(ctx, tk, rule, funcs):
    """a function (or lambda) that receives the caller's positional and keyword arguments (*args / **kwargs, or the `args`,
    `kwargs` of numpy's dispatch protocols) and hands the keyword arguments on with `**kwargs` is forwarding a call: a
    forwarded call that uses nothing derived from the positional arguments drops them (np.sum(x, 0) behaves like np.sum(x))"""
    done = set()
    for f in funcs:
        if not hasattr(f, "node") or not isinstance(f.node, (ast.FunctionDef, ast.AsyncFunctionDef)) or id(f.node) in done:
            continue
        done.add(id(f.node))
        scopes_ = [f.node] + [x for x in ast.walk(f.node) if isinstance(x, ast.Lambda)]
        for sc in scopes_:
            a = sc.args
            names = [x.arg for x in a.posonlyargs + a.args]
            va = a.vararg.arg if a.vararg else ("args" if "args" in names else None)
            kw = a.kwarg.arg if a.kwarg else ("kwargs" if "kwargs" in names else None)
            if va is None or kw is None:
                continue
            body = sc.body if isinstance(sc.body, list) else [ast.Expr(value=sc.body)]
            tainted = _tainted_names(body, {va})
            for st in body:
                for c in ast.walk(st):
                    if isinstance(c, ast.Lambda) and c is not sc:
                        continue
                    if not (isinstance(c, ast.Call) and any(k.arg is None and isinstance(k.value, ast.Name) and k.value.id == kw for k in c.keywords)):
                        continue
                    uses = any(isinstance(y, ast.Name) and y.id in tainted for x in list(c.args) + [c.func] for y in ast.walk(x))
                    ctx.decide(rule, f, "a call forwarded with **%s also forwards the positional arguments" % kw, True if uses else False,
                               "`%s` forwards the keyword arguments but nothing of `%s`: a positional axis (np.sum(x, 0)) is silently ignored" % (ast.unparse(c)[:100], va),
                               node=c, engine="E4")


def h28_out_buffer_pins_dtype(ctx, tk, rule, funcs):
    """with out= numpy does not choose the result type: it casts into the buffer.  A reduction / accumulation / concatenation
    written into a *fresh* buffer whose dtype was copied from one operand (np.empty_like(x), np.zeros(n, dtype=x.dtype),
    np.zeros_like(param)) loses numpy's widening (add.accumulate of int8 is int64) and promotion (int8 ++ int64 is int64)"""
    for f in funcs:
        fa = ctx.fa(f)
        for n, c in find_calls(fa, lambda c: "out" in dict(c.a[2]) and (np_call(c, {"cumsum", "cumprod", "sum", "prod", "concatenate", "hstack", "vstack", "stack", "add", "multiply", "subtract"})
                                                                     or (c.a[0].k == "attr" and c.a[0].a[1] in ("accumulate", "reduce", "reduceat")))):
            out = dict(c.a[2])["out"]
            srcs = []
            for a in alts(out):
                base = a
                for _ in range(6):
                    if base.k in ("sub", "upd"):
                        base = base.a[0]
                    elif base.k == "call" and base.a[0].k == "attr" and base.a[0].a[1] in ("ravel", "reshape", "view", "flatten"):
                        base = base.a[0].a[0]
                    else:
                        break
                nm = np_call(base, {"empty_like", "zeros_like", "ones_like", "empty", "zeros", "ones", "full"})
                if not nm:
                    continue
                dt = dict(base.a[2]).get("dtype")
                if nm.endswith("_like"):
                    if dt is None:
                        srcs.append((base, "the dtype of `%s`" % (base.a[1][0],)))
                elif dt is not None and dt.k == "attr" and dt.a[1] == "dtype" and not any(x.k == "call" and (attr_chain(x.a[0]) or ("",))[-1] in ("result_type", "promote_types") for x in walk(dt)):
                    srcs.append((base, "`%s`" % (dt,)))
            if srcs:
                # index arithmetic written into an index-typed buffer: nothing numpy would widen
                typing = [dict(b.a[2]).get("dtype") if not np_call(b, {"empty_like", "zeros_like", "ones_like"}) else (b.a[1][0] if b.a[1] else None) for b, _ in srcs]
                if all(tt is not None and index_typed(tt) for tt in typing) and all(index_typed(x) for x in c.a[1]):
                    continue
                # bitwise / extremum scans never widen: a buffer typed like their own operand is what numpy allocates anyway
                uf = attr_chain(c.a[0]) or ()
                if not uf and c.a[0].k == "attr" and c.a[0].a[1] in ("accumulate", "reduce", "reduceat"):
                    # the ufunc is chosen by a conditional expression: every alternative has to be a non-widening one
                    names = set()
                    def _names(t):
                        if t.k == "ifexp":
                            _names(t.a[1]); _names(t.a[2])
                        else:
                            for a_ in alts(t):
                                names.add((attr_chain(a_) or ("?",))[-1])
                    _names(c.a[0].a[0])
                    if names and names <= (NON_WIDENING_UFUNCS | {"logical_xor", "logical_or", "logical_and"}):
                        uf = ("np", "bitwise_xor", c.a[0].a[1])
                if len(uf) >= 2 and uf[-1] in ("accumulate", "reduce", "reduceat") and uf[-2] in NON_WIDENING_UFUNCS and c.a[1]:
                    def root(t):
                        for _ in range(8):
                            if t.k in ("sub", "upd"):
                                t = t.a[0]
                            elif t.k == "attr" and t.a[1] == "dtype":
                                t = t.a[0]
                            else:
                                break
                        return str(t)
                    op0 = root(c.a[1][0])
                    if all(tt is not None and root(tt) == op0 for tt in typing) or str(out) == str(c.a[1][0]):
                        continue
                ctx.violated(rule, f, "a result computed with out= keeps the type numpy would choose",
                             "`%s` writes into `%s`, typed by %s: numpy casts the result into that type instead of widening / promoting it (int8 data accumulate in int8 "
                             "and wrap; a wider second operand is cut down)" % (c, srcs[0][0], srcs[0][1]), node=c.node, engine="KB")


def h29_unsigned_cast_to_signed(ctx, tk, rule, funcs):
    """data.astype(np.int64 / int) reachable for unsigned data: values of 2**63 and above become negative.  numpy's own
    widening keeps unsigned data unsigned (uint8 sums in uint64)"""
    from .guards import reachable_under
    subj = lambda t: t.k == "attr" and t.a[1] == "dtype" or t.k == "param"
    for f in funcs:
        if not f.params:
            continue
        fa = ctx.fa(f)
        reach = None
        for n, c in find_calls(fa, lambda c: c.a[0].k == "attr" and c.a[0].a[1] == "astype" and c.a[1] and c.a[0].a[0].k == "param" and c.a[0].a[0].a[0] == f.params[0]):
            d = c.a[1][0]
            nm = d.a[0] if d.k == "global" else ((attr_chain(d) or ("",))[-1] if d.k != "const" else d.a[0])
            if nm not in ("int", "int64", "int_", "intp", "i8", "int32"):
                continue
            if f.cls is None or not any(k.qual == "raggedarray.base.RaggedBase" or "RunLength" in k.qual for k in f.cls.mro()):
                continue
            if reach is None:
                reach = reachable_under(fa, "unsigned", subj)
            tested = any(any(x.k == "call" and (attr_chain(x.a[0]) or ("",))[-1] == "issubdtype" for x in walk(t)) for t, _tr, _ in facts_at(fa, n))
            ctx.decide(rule, f, "unsigned data is never converted to a signed integer type before it is reduced", (False if tested else None) if n.id in reach else True,
                       "`%s` is reached for unsigned data: uint64 values of 2**63 and above turn negative" % (c,), node=c.node, engine="KB")


def h31_issubdtype_builtin(ctx, tk, rule, funcs):
    """np.issubdtype(d, int) asks for numpy's default integer (int64) and its subtypes only: int32, uint8 ... are not
    subtypes of it (np.integer is the abstract class); likewise float means float64 only"""
    for f in funcs:
        fa = ctx.fa(f)
        for n, c in find_calls(fa, lambda c: (attr_chain(c.a[0]) or ("",))[-1] == "issubdtype" and len(c.a[1]) == 2):
            k = c.a[1][1]
            if k.k == "global" and k.a[0] in ("int", "float"):
                ctx.violated(rule, f, "a dtype class test names numpy's abstract class (np.integer / np.floating)",
                             "`%s`: `%s` is numpy's default %s only, so narrower or unsigned dtypes (int32, uint8%s) fail the test" % (
                                 c, k.a[0], "int64" if k.a[0] == "int" else "float64", "" if k.a[0] == "int" else ", float32"), node=c.node, engine="KB")


def h32_unstable_second_sort(ctx, tk, rule, funcs):
    """sorting by a secondary key and then by the primary key reproduces a lexicographic sort only if the second sort is
    stable; np.argsort's default (quicksort / introsort) is stable only by accident on short inputs"""
    for f in funcs:
        fa = ctx.fa(f)
        for n, c in find_calls(fa, lambda c: np_call(c, {"argsort"}) and c.a[1]):
            kind = dict(c.a[2]).get("kind")
            if kind is not None and any(is_const(k, v) for k in alts(kind) for v in ("stable", "mergesort")):
                continue
            arg = c.a[1][0]
            pre_ordered = any(x.k == "sub" and any(np_call(y, {"argsort", "lexsort"}) for y in walk(x.a[1])) for x in walk(arg))
            if pre_ordered:
                ctx.violated(rule, f, "a sort that refines an earlier ordering is stable",
                             "`%s` sorts keys that were already ordered by another key, without kind=\"stable\": equal keys lose the earlier order as soon as the input is "
                             "longer than numpy's insertion-sort threshold (about 16 elements)" % (c,), node=c.node, engine="KB")


def h33_truth_of_index_array(ctx, tk, rule, funcs):
    """np.flatnonzero / nonzero / where(cond) return *positions*: .any() / np.any() / bool() of them asks whether some
    position is non-zero, not whether a position exists ([0].any() is False); the existence test is .size"""
    def positions(t):
        for a in alts(t):
            if np_call(a, {"flatnonzero", "argwhere"}):
                return True
            if a.k == "item" and a.a[0].k == "call" and (np_call(a.a[0], {"nonzero", "where"}) or (a.a[0].a[0].k == "attr" and a.a[0].a[0].a[1] == "nonzero")):
                return True
        return False
    for f in funcs:
        fa = ctx.fa(f)
        for n, c in find_calls(fa, lambda c: (np_call(c, {"any", "all"}) and c.a[1]) or (c.a[0].k == "attr" and c.a[0].a[1] in ("any", "all") and not c.a[1])):
            subj = c.a[1][0] if np_call(c, {"any", "all"}) else c.a[0].a[0]
            if positions(subj):
                ctx.violated(rule, f, "whether an index array selects anything is asked with .size, not with its truth value",
                             "`%s`: the array holds positions; when the only position is 0 the test is False although something was found" % (c,), node=c.node, engine="KB")


def h34_shallow_copy_keeps_memos(ctx, tk, rule, funcs):
    """copy(self) / copy.copy(self) bypasses __init__: every per-object memo (an attribute the constructor sets to None and a
    method fills on demand) travels with the copy.  If the copy then gets a different geometry / buffer, the memo describes the
    original, not the copy, unless it is reset"""
    for f in funcs:
        if f.cls is None or not f.params:
            continue
        selfn = f.params[0]
        memos = set()
        for c in f.cls.mro():
            init = c.methods.get("__init__")
            if init is None:
                continue
            for x in ast.walk(init.node):
                if isinstance(x, ast.Assign) and isinstance(x.value, ast.Constant) and x.value.value is None:
                    for tg in x.targets:
                        if isinstance(tg, ast.Attribute) and isinstance(tg.value, ast.Name) and tg.value.id == init.params[0]:
                            memos.add(tg.attr)
        # attributes the constructor derives from another attribute (self.shape = self.array.shape): they describe that attribute
        # and go stale when a copy replaces it
        derived = {}
        for c in f.cls.mro():
            init = c.methods.get("__init__")
            if init is None:
                continue
            for x in ast.walk(init.node):
                if isinstance(x, ast.Assign) and len(x.targets) == 1 and isinstance(x.targets[0], ast.Attribute) and isinstance(x.targets[0].value, ast.Name) \
                        and x.targets[0].value.id == init.params[0]:
                    for y in ast.walk(x.value):
                        if isinstance(y, ast.Attribute) and isinstance(y.value, ast.Name) and y.value.id == init.params[0] and y.attr != x.targets[0].attr:
                            derived.setdefault(y.attr, set()).add(x.targets[0].attr)
        if not memos and not derived:
            continue
        for x in ast.walk(f.node):
            if not (isinstance(x, ast.Assign) and isinstance(x.value, ast.Call) and len(x.targets) == 1 and isinstance(x.targets[0], ast.Name)):
                continue
            fn = x.value.func
            nm = fn.id if isinstance(fn, ast.Name) else (fn.attr if isinstance(fn, ast.Attribute) else None)
            if nm not in ("copy", "deepcopy") or not (x.value.args and isinstance(x.value.args[0], ast.Name) and x.value.args[0].id == selfn):
                continue
            var = x.targets[0].id
            stored = {t.attr for y in ast.walk(f.node) if isinstance(y, ast.Assign) for t in y.targets
                      if isinstance(t, ast.Attribute) and isinstance(t.value, ast.Name) and t.value.id == var}
            stale = sorted({d for src in stored for d in derived.get(src, ()) if d not in stored})
            if stale:
                ctx.violated(rule, f, "an object derived by copying refreshes the attributes its constructor derives from what is changed",
                             "`%s` copies self, then replaces %s; the constructor derives %s from it, and the copy keeps the original's" % (
                                 ast.unparse(x), ", ".join(sorted(src for src in stored if src in derived)), ", ".join(stale)), node=x, engine="E3")
            changed = stored - memos
            kept = sorted(memos - stored)
            if changed and kept:
                ctx.violated(rule, f, "an object derived by copying resets the memos that depend on what is changed",
                             "`%s` copies self including its memo attribute(s) %s, then replaces %s: a value cached on the original (e.g. its size) is reported by the derived "
                             "object" % (ast.unparse(x), ", ".join(kept), ", ".join(sorted(changed))), node=x, engine="E3")


def h36_strict_negative_bound(ctx, tk, rule, funcs):
    """valid negative indices run from -len to -1: a refusal written `-len(x) < i` (strict) turns the valid index -len
    away; `i <= len(x)` accepts the invalid index len"""
    from .guards import refusals
    for f in funcs:
        fa = ctx.fa(f)
        for tn, _truth in refusals(fa):
            for x in ast.walk(tn.ast):
                if not isinstance(x, ast.Compare):
                    continue
                ops = list(zip([x.left] + x.comparators[:-1], x.ops, x.comparators))
                for l, op, r in ops:
                    def neg_len(e):
                        return isinstance(e, ast.UnaryOp) and isinstance(e.op, ast.USub) and isinstance(e.operand, ast.Call) and isinstance(e.operand.func, ast.Name) and e.operand.func.id == "len"
                    strict_low = (neg_len(l) and isinstance(op, ast.Lt)) or (neg_len(r) and isinstance(op, ast.Gt))
                    if strict_low:
                        ctx.violated(rule, f, "an index check admits every index from -len to len - 1",
                                     "`%s` excludes the index -len(...) itself, which addresses the first element" % ast.unparse(x), node=x, engine="KB")


def _accumulating_callee(t, fa, tk, depth=0):
    """the callee term denotes a cumulative add / xor: np.cumsum, <ufunc>.accumulate, or a helper returning one of them"""
    for a in alts(t):
        for x in walk(a):
            if x.k == "attr" and x.a[1] in ("accumulate", "cumsum"):
                return True
        if a.k == "call" and depth < 2:
            for g in tk.R.resolve_call(a, fa) or ():
                ga = tk.ctx.fa(g)
                for r in ga.cfg.returns():
                    if r.ast.value is not None and _accumulating_callee(ga.term(r.ast.value, r), ga, tk, depth + 1):
                        return True
    return False


def telescoping_functions(ctx, tk):
    """{qual: (func, [parameter names])}: functions that rebuild per-position data by storing np.diff(<values>) and running a
    cumulative add over the buffer (sum of differences == value only in exact arithmetic).  Differences of the object's own
    geometry (self.starts, self.lengths: integers by construction) are not data"""
    def build():
        out = {}
        for q, f in ctx.program.funcs.items():
            if not f.params:
                continue
            src_has_diff = any(isinstance(x, ast.Attribute) and x.attr == "diff" for x in ast.walk(f.node))
            if not src_has_diff:
                continue
            try:
                fa = ctx.fa(f)
            except RecursionError:
                continue
            ps = set()
            for n, c in find_calls(fa, lambda c: np_call(c, {"diff"}) and c.a[1]):
                for a in alts(c.a[1][0]):
                    for x in walk(a):
                        if x.k == "param" and x.a[0] in f.params and not (f.cls is not None and x.a[0] == f.params[0]):
                            ps.add(x.a[0])
            if not ps:
                continue
            # the differences must flow into the buffer that is accumulated:  b[...] = np.diff(v) / b = concat(.., np.diff(v))
            def has_diff(e):
                return any(isinstance(x, ast.Call) and isinstance(x.func, ast.Attribute) and x.func.attr == "diff" for x in ast.walk(e))
            carriers = set()
            for st in ast.walk(f.node):
                if isinstance(st, (ast.Assign, ast.AugAssign)) and has_diff(st.value):
                    for tg in (st.targets if isinstance(st, ast.Assign) else [st.target]):
                        while isinstance(tg, (ast.Subscript, ast.Attribute)):
                            tg = tg.value
                        if isinstance(tg, ast.Name):
                            carriers.add(tg.id)
            def feeds(c):
                if c.node is None:
                    return False
                operands = list(c.node.args) + [k.value for k in c.node.keywords]
                return any((isinstance(x, ast.Name) and x.id in carriers) or (isinstance(x, ast.Call) and has_diff(x)) for o in operands for x in ast.walk(o))
            acc = [c for n, c in find_calls(fa, lambda c: True) if feeds(c) and _accumulating_callee(c.a[0], fa, tk)]
            if acc:
                out[q] = (f, sorted(ps))
        return out
    return ctx.cached("telescoping", build)


# flags that vouch for exact (integer) data on the path they guard, with the reason they may be trusted
EXACT_DATA_MARKERS = {
    "empty_rows_removed": "set by HashTable lookups only (views of the integer key buckets) and by the index builder of such a view",
    "empty_removed": "the attribute behind empty_rows_removed()",
}


def accumulation_pairs_with_difference(ctx, tk, rule):
    """np.diff takes arithmetic differences (xor for bool): the prefix operation that rebuilds the values is np.add.accumulate
    (logical / bitwise xor for bool).  A helper choosing the accumulation by dtype must not answer xor for an integer kind"""
    from .guards import reachable_under
    tel = telescoping_functions(ctx, tk)
    for q, (g, ps) in sorted(tel.items()):
        ga = ctx.fa(g)
        for n, c in find_calls(ga, lambda c: True):
            callee = c.a[0]
            for a in alts(callee):
                if a.k != "call":
                    continue
                for h in tk.R.resolve_call(a, ga) or ():
                    ha = ctx.fa(h)
                    subj = lambda t: t.k == "param" or (t.k == "attr" and t.a[1] == "dtype")
                    for kind in ("signed", "unsigned", "floating"):
                        reach = reachable_under(ha, kind, subj)
                        for r in ha.cfg.returns():
                            if r.id not in reach or r.ast.value is None:
                                continue
                            for ra in alts(ha.term(r.ast.value, r)):
                                ch = attr_chain(ra)
                                if ch and ch[-1] == "accumulate" and len(ch) >= 2:
                                    # an alternative of a conditional expression is judged by its own condition
                                    if ra is not ha.term(r.ast.value, r) and ha.term(r.ast.value, r).k == "ifexp":
                                        from .guards import dtype_truth
                                        tm = ha.term(r.ast.value, r)
                                        tr = dtype_truth(tm.a[0], subj)
                                        if tr is not None:
                                            taken = tm.a[1] if kind in tr else tm.a[2]
                                            if ra is not taken and str(ra) != str(taken):
                                                continue
                                    ctx.decide(rule, h, "differences taken with np.diff are summed back with np.add.accumulate for %s values" % kind, ch[-2] == "add",
                                               "`%s` answers np.%s.accumulate for %s values, but `%s` fills the buffer with arithmetic differences (np.diff): "
                                               "xor of differences does not give the values back" % (h.name, ch[-2], kind, g.name), node=r.ast, key="pair:%s" % kind, engine="KB")


def h37_telescoping_needs_exact_arithmetic(ctx, tk, rule, funcs):
    """diff -> cumulative-sum reconstruction of *data* values (a broadcast fast path, a scan that is undone) is exact for
    integers and bools only: a call into such a function must not be reachable for floating-point data, except under one of
    the repository's markers for integer-only internal views"""
    from .guards import reachable_under
    tel = telescoping_functions(ctx, tk)
    scope = set(f.qual for f in funcs)
    for q, (g, ps) in sorted(tel.items()):
        for cfa, c in tk.R.call_sites(g):
            if cfa.func.qual not in scope and q not in scope:
                continue
            off = 1 if (g.cls is not None and not g.is_staticmethod and c.a[0].k == "attr") else 0
            subj_terms = []
            for pn in ps:
                j = g.params.index(pn) - off
                arg = c.a[1][j] if 0 <= j < len(c.a[1]) else dict(c.a[2]).get(pn)
                if arg is not None:
                    subj_terms.append(arg)
            roots = set()
            for t in subj_terms:
                for a in alts(t):
                    for x in walk(a):
                        if x.k == "param":
                            roots.add(x.a[0])
            def subj(t, roots=roots):
                if t.k == "attr" and t.a[1] == "dtype":
                    t = t.a[0]
                return any(x.k == "param" and x.a[0] in roots for a in alts(t) for x in walk(a)) and not any(x.k == "call" and x is not t for a in alts(t) for x in walk(a) if x.k == "call" and (attr_chain(x.a[0]) or ("",))[-1] not in ("ravel", "asanyarray", "asarray", "reshape", "flatten", "copy"))

            def assume(t):
                for x in walk(t):
                    if x.k == "attr" and x.a[1] in EXACT_DATA_MARKERS:
                        if t.k in ("call", "attr"):
                            return False
                return None
            sites = [n for n, cc in find_calls(cfa, lambda cc: cc.node is c.node)]
            what = "a diff / cumulative-sum reconstruction of data values is reached only for exact (integer / bool) data"
            if not sites:
                continue
            reach = reachable_under(cfa, "floating", subj, assume=assume)
            bad = [n for n in sites if n.id in reach]
            ctx.decide(rule, cfa.func, what, not bad,
                       "`%s` is reachable for floating-point data outside the integer-only internal views (%s): summing differences does not give back the values "
                       "in floating point (inf / nan / mixed magnitudes spill into the following rows)" % (c, ", ".join(sorted(EXACT_DATA_MARKERS)[:1])),
                       node=c.node, key="telescoping:" + g.name, engine="KB")


def h38_no_cells_is_not_no_rows(ctx, tk, rule, funcs):
    """a shortcut taken when a result has no *cells* (`data.size == 0`, nothing selected) must still have one (empty) row per
    row of the operand: returning `x[:0]` / `x[0:0]` of a ragged object there hands back zero rows"""
    for f in funcs:
        if f.cls is None or not any(k.qual == "raggedarray.base.RaggedBase" for k in f.cls.mro()):
            continue
        fa = ctx.fa(f)
        selfn = f.params[0] if f.params else None
        for r in fa.cfg.returns():
            v = r.ast.value
            if not (isinstance(v, ast.Subscript) and isinstance(v.slice, ast.Slice) and isinstance(v.value, ast.Name) and v.value.id == selfn):
                continue
            sl = v.slice
            zero_rows = isinstance(sl.upper, ast.Constant) and sl.upper.value == 0 and (sl.lower is None or (isinstance(sl.lower, ast.Constant) and sl.lower.value == 0))
            if not zero_rows:
                continue
            cells = []
            for t, truth, test in facts_at(fa, r):
                sz = None
                if t.k == "cmp" and t.a[0] in ("==", "!=") and is_const(t.a[2], 0) and (t.a[0] == "==") == truth:
                    sz = t.a[1]
                elif not truth and (t.k == "attr" or t.k == "call"):
                    sz = t
                if sz is None:
                    continue
                if sz.k == "attr" and sz.a[1] == "size":
                    cells.append(t)            # .size of a ragged object / of the selected data counts cells
                elif sz.k == "call" and call_name(sz) == "len" and sz.a[1] and not (sz.a[1][0].k == "param" and sz.a[1][0].a[0] == selfn):
                    cells.append(t)
            if cells:
                ctx.violated(rule, f, "a result without cells keeps the operand's rows (as empty rows)",
                             "`%s` is returned when `%s` says there are no cells: the rows of the operand are dropped although each of them should come back empty" % (
                                 ast.unparse(v), cells[0]), node=r.ast, engine="KB")


def h39_exclusive_stop_clamped_like_a_position(ctx, tk, rule, funcs):
    """positions run to len - 1, exclusive stops to len: a parameter the repository itself names stop / stops / end / ends
    that is re-bound to np.clip(.., .., len(x) - 1) / np.minimum(.., len(x) - 1) loses the last element of every window
    that reaches the end"""
    def upper_minus_one(call):
        fn = call.func
        name = fn.attr if isinstance(fn, ast.Attribute) else (fn.id if isinstance(fn, ast.Name) else None)
        if name == "clip":
            ups = call.args[2:3] + [k.value for k in call.keywords if k.arg in ("a_max", "max")]
        elif name in ("minimum", "min"):
            ups = call.args[1:2] if name == "minimum" else []
        else:
            return False
        for u in ups:
            if isinstance(u, ast.BinOp) and isinstance(u.op, ast.Sub) and isinstance(u.right, ast.Constant) and u.right.value == 1 and \
                    any((isinstance(x, ast.Call) and isinstance(x.func, ast.Name) and x.func.id == "len") or (isinstance(x, ast.Attribute) and x.attr in ("size", "_size")) for x in ast.walk(u.left)):
                return True
        return False
    for f in funcs:
        stops = [p for p in f.params if p.rstrip("s").lower() in ("stop", "end") or p.lower().startswith(("stop", "end_", "ends"))]
        if not stops:
            continue
        for st in ast.walk(f.node):
            if not isinstance(st, ast.Assign):
                continue
            tg = [x.id for t in st.targets for x in ast.walk(t) if isinstance(x, ast.Name) and isinstance(x.ctx, ast.Store)]
            hit = [p for p in stops if p in tg]
            if not hit:
                continue
            calls = [x for x in ast.walk(st.value) if isinstance(x, ast.Call) and upper_minus_one(x)]
            if not calls:
                continue
            # the clamp is applied to the stop itself (directly, or through a comprehension / generator over (start, stop))
            c = calls[0]
            src = [x.id for x in ast.walk(c.args[0]) if isinstance(x, ast.Name)] if c.args else []
            loopvars = {}
            for g in ast.walk(st.value):
                if isinstance(g, ast.comprehension) and isinstance(g.target, ast.Name):
                    loopvars[g.target.id] = [x.id for x in ast.walk(g.iter) if isinstance(x, ast.Name)]
            reaches = any(p in src or any(p in loopvars.get(v, ()) for v in src) for p in hit)
            if reaches:
                ctx.violated(rule, f, "an exclusive stop may equal the length (only positions are clamped to length - 1)",
                             "`%s` clamps the exclusive bound `%s` to the last *position*: a window that ends at the end of the array loses its last element" % (
                                 ast.unparse(c), hit[0]), node=st, engine="KB")


def h40_bit_pattern_equality(ctx, tk, rule, funcs):
    """x.view(<unsigned type>) == y.view(<unsigned type>) compares representations: for floating-point data 0.0 and -0.0
    differ although they are equal values (and NaNs with the same payload compare equal).  Value equality must be decided on
    the values; reinterpretation is fine for integers and for XOR-style transport"""
    from .guards import reachable_under
    for f in funcs:
        if not any(isinstance(x, ast.Attribute) and x.attr == "view" for x in ast.walk(f.node)):
            continue
        fa = ctx.fa(f)
        subj = lambda t: (t.k == "attr" and t.a[1] == "dtype") or t.k == "param"
        reach = None
        for n in fa.cfg.stmts():
            for e in _exprs(n):
                for x in ast.walk(e):
                    if not (isinstance(x, ast.Compare) and len(x.ops) == 1 and isinstance(x.ops[0], (ast.Eq, ast.NotEq))):
                        continue
                    tm = fa.term(x, n)
                    if tm.k != "cmp":
                        continue
                    def reinterpreted(t):
                        def bases(t, d=0):
                            for a in alts(t):
                                if a.k in ("sub", "upd") and d < 6:
                                    yield from bases(a.a[0], d + 1)
                                else:
                                    yield a
                        for a in [t]:
                            for y in bases(a):
                                if y.k == "call" and y.a[0].k == "attr" and y.a[0].a[1] == "view" and y.a[1]:
                                    d = y.a[1][0]
                                    c = attr_chain(d)
                                    if (c and c[-1].startswith("uint")) or (d.k == "const" and isinstance(d.a[0], str) and d.a[0].lstrip("<>=|").startswith("u")) or d.k in ("fstr", "joined", "sub"):
                                        return y
                        return None
                    y = reinterpreted(tm.a[1]) or reinterpreted(tm.a[2])
                    if y is None:
                        continue
                    if reach is None:
                        reach = reachable_under(fa, "floating", subj)
                    ctx.decide(rule, f, "equality of values is decided on the values, not on their bit patterns", False if n.id in reach else True,
                               "`%s` compares `%s`: for floating-point data 0.0 and -0.0 are different bit patterns but equal values (numpy == treats them as equal)" % (
                                   ast.unparse(x), y), node=x, engine="KB")


def h41_own_annotations_only(ctx, tk, rule, funcs):
    """cls.__annotations__ lists the names annotated in that class body only; the fields of a dataclass include the inherited
    ones (dataclasses.fields).  Building a record type from __annotations__ drops every inherited column"""
    for f in funcs:
        for x in ast.walk(f.node):
            if isinstance(x, ast.Attribute) and x.attr == "__annotations__" and isinstance(x.ctx, ast.Load):
                ctx.violated(rule, f, "the fields of a dataclass are enumerated with dataclasses.fields (inherited fields included)",
                             "`%s` holds only the annotations written in that class body: fields inherited from a dataclass base are missing" % ast.unparse(x), node=x, engine="KB")


def h42_view_ends_as_range_stop(ctx, tk, rule, funcs):
    """the `ends` of a strided column view are the position after the last *visited* cell (starts + (lengths - 1) * step + 1):
    a valid exclusive stop of range / arange / slice only for a positive step.  With a negative step the walk goes downwards and
    the stop has to lie *below* the last cell"""
    for f in funcs:
        if f.cls is None or not any("col_step" in (getattr(x, "attr", ""), getattr(x, "id", "")) for x in ast.walk(f.node)):
            continue
        fa = ctx.fa(f)
        for n, c in find_calls(fa, lambda c: (np_call(c, {"arange"}) or (c.a[0].k == "global" and c.a[0].a[0] in ("range", "slice"))) and len(c.a[1]) == 3):
            stop, step = c.a[1][1], c.a[1][2]
            if not any(x.k == "attr" and x.a[1] == "ends" for a in alts(stop) for x in walk(a)):
                continue
            if not any(x.k == "attr" and x.a[1] in ("col_step", "_step") for a in alts(step) for x in walk(a)):
                continue
            signed = False
            for t, truth, _ in facts_at(fa, n):
                if t.k == "cmp" and any(x.k == "attr" and x.a[1] in ("col_step", "_step") for x in walk(t)):
                    signed = True
            ctx.decide(rule, f, "`ends` of a strided view serves as an exclusive stop only where the step is known to be positive", True if signed else False,
                       "`%s`: for a negative column step `ends` (last visited cell + 1) lies above the start and the range is empty or too short" % (c,), node=c.node, engine="KB")


def _dispatcher_bodies(f):
    """the AST of a ufunc dispatcher together with the methods of its class it calls on self (depth 1)"""
    bodies = [f.node]
    if f.cls is not None and f.params:
        for x in ast.walk(f.node):
            if isinstance(x, ast.Call) and isinstance(x.func, ast.Attribute) and isinstance(x.func.value, ast.Name) and x.func.value.id == f.params[0]:
                h = f.cls.lookup(x.func.attr)
                if h is not None and h.node not in bodies and h.name.startswith("_") and not h.name.startswith("__"):
                    bodies.append(h.node)
    return bodies


def h43_typed_operand_made_weak(ctx, tk, rule, funcs):
    """x.item() / x.tolist() turn a typed 0-d array or numpy scalar into a Python scalar, which numpy (NEP 50) treats as weakly
    typed: int8_array + np.int16(3).item() stays int8 where numpy's own result is int16.  Operands of a ufunc keep their type"""
    for f in funcs:
        if f.name not in ("__array_ufunc__", "__array_function__") and not f.name.startswith("_apply"):
            continue
        for x in (y for b in (_dispatcher_bodies(f) if f.name == "__array_ufunc__" else [f.node]) for y in ast.walk(b)):
            if isinstance(x, ast.Call) and isinstance(x.func, ast.Attribute) and x.func.attr in ("item", "tolist") and not x.args:
                ctx.violated(rule, f, "ufunc operands keep their element type",
                             "`%s` hands the operand on as a Python scalar: it no longer takes part in numpy's type promotion" % ast.unparse(x), node=x, engine="KB")


def h44_operand_forced_into_own_dtype(ctx, tk, rule, funcs):
    """np.asanyarray(operand, dtype=self.dtype) before a binary operation replaces numpy's promotion by a cast into this array's
    element type: a float column added to an int array is truncated first"""
    for f in funcs:
        if f.name != "__array_ufunc__" or not f.params:
            continue
        selfn = f.params[0]
        for x in (y for b in _dispatcher_bodies(f) for y in ast.walk(b)):
            if isinstance(x, ast.Call) and isinstance(x.func, ast.Attribute) and x.func.attr in ("asanyarray", "asarray", "array", "astype"):
                for kw in x.keywords:
                    v = kw.value
                    if kw.arg == "dtype" and isinstance(v, ast.Attribute) and v.attr == "dtype" and isinstance(v.value, ast.Name) and v.value.id == selfn:
                        ctx.violated(rule, f, "operands of a ufunc are promoted together, none is cast into the other's element type",
                                     "`%s` converts another operand into this array's own element type before the operation" % ast.unparse(x), node=x, engine="KB")


def h45_handler_returns_its_operand(ctx, tk, rule, funcs):
    """numpy's concatenate / unique / sort / *_like / copy return new objects.  An implementation that hands back one of its
    operands (a single-element list, an array that already has the asked form) makes the result an alias: writing into it
    changes the operand.  Allowed only where there is nothing to write (a dominating `size == 0` test)"""
    for f in funcs:
        handler = f.name in ("__array_function__",) or any(
            isinstance(d, ast.Call) and isinstance(d.func, ast.Name) and d.func.id == "implements" for d in getattr(f.node, "decorator_list", []))
        if not handler or not f.params:
            continue
        fa = ctx.fa(f)
        first = 1 if f.cls is not None and f.name == "__array_function__" else 0
        for r in fa.cfg.returns():
            if r.ast.value is None:
                continue
            tm = fa.term(r.ast.value, r)
            hits = []
            for a in alts(tm):
                b = a
                while b.k == "sub" and (b.a[1].k == "const" or b.a[0].k in ("param", "sub", "item")):
                    b = b.a[0]
                if b.k == "item":
                    b = b.a[0]
                if b.k == "param" and b.a[0] in f.params[first:] and b.a[0] not in ("func", "types", "kwargs"):
                    hits.append(a)
            if not hits:
                continue
            def sizeish(x):
                return (x.k == "attr" and x.a[1] == "size") or (x.k == "call" and call_name(x) == "len")
            empty = any(((t.k == "cmp" and t.a[0] == "==" and is_const(t.a[2], 0) and sizeish(t.a[1]) and truth) or (sizeish(t) and not truth)) for t, truth, _ in facts_at(fa, r))
            ctx.decide(rule, f, "a numpy function implemented for this class returns a new object, never one of its operands", True if empty else False,
                       "`%s` is one of the operands itself: the result shares everything with it (an in-place update of the result changes the operand)" % (hits[0],),
                       node=r.ast, engine="E3")


def h46_stale_sibling_after_filter(ctx, tk, rule, funcs):
    """arrays produced together (a, b = np.unique(x, return_counts=True)) or element for element from one another (h = hash(a))
    are aligned.  After `a = a[mask]` the siblings must be cut down with the same mask before they are used again, otherwise
    positions into the filtered arrays address the wrong entries of the unfiltered one"""
    ALIGNED_MULTI = {"unique": ("return_counts", "return_index", "return_inverse")}
    for f in funcs:
        body = [st for st in ast.walk(f.node) if isinstance(st, ast.Assign)]
        if not body:
            continue
        groups = []          # sets of aligned names
        def group_of(nm):
            for g in groups:
                if nm in g:
                    return g
            return None
        order = sorted(body, key=lambda st: (st.lineno, st.col_offset))
        filtered = []        # (lineno, name, mask source)
        for st in order:
            tg = st.targets[0]
            if isinstance(tg, ast.Tuple) and all(isinstance(e, ast.Name) for e in tg.elts) and isinstance(st.value, ast.Call):
                fn = st.value.func
                nm = fn.attr if isinstance(fn, ast.Attribute) else (fn.id if isinstance(fn, ast.Name) else "")
                if nm in ALIGNED_MULTI and any(k.arg in ALIGNED_MULTI[nm] for k in st.value.keywords):
                    names = {e.id for e in tg.elts}
                    # a re-bound name starts a new alignment class
                    for g in groups:
                        g -= names
                    groups.append(set(names))
                continue
            if isinstance(tg, ast.Name) and isinstance(st.value, ast.Subscript) and isinstance(st.value.value, ast.Name) and st.value.value.id == tg.id \
                    and not isinstance(st.value.slice, (ast.Slice, ast.Constant)):
                filtered.append((st.lineno, tg.id, ast.unparse(st.value.slice)))
                continue
            if isinstance(tg, ast.Name) and isinstance(st.value, ast.Call):
                args = [a for a in st.value.args if isinstance(a, ast.Name)]
                g = group_of(args[0].id) if len(args) == 1 and len(st.value.args) == 1 else None
                if g is not None and tg.id not in g:
                    g.add(tg.id)
        for ln, nm, mask in filtered:
            g = group_of(nm)
            if not g:
                continue
            done = {n2 for l2, n2, m2 in filtered if m2 == mask}
            for sib in sorted(g - done - {nm}):
                later = [x for x in ast.walk(f.node) if isinstance(x, ast.Name) and x.id == sib and isinstance(x.ctx, ast.Load) and x.lineno > ln]
                rebound = [st for st in order if st.lineno > ln and any(isinstance(x, ast.Name) and x.id == sib and isinstance(x.ctx, ast.Store) for x in ast.walk(st.targets[0]))]
                later = [x for x in later if not any(st.lineno <= x.lineno for st in rebound)]
                if later:
                    ctx.violated(rule, f, "arrays that are aligned element for element are filtered together",
                                 "`%s` was cut down with `[%s]` (line %d) but `%s`, produced together with it, is used afterwards as it was: positions into the filtered "
                                 "arrays address other entries of it" % (nm, mask, ln, sib), node=later[0], engine="E5")


def h50_full_like_takes_the_templates_type(ctx, tk, rule, funcs):
    """np.full_like(template, value) has the template's dtype: a value taken from another array is cast into it (2.5 becomes 2
    when the template is an integer index).  A result holding array values is typed by those values"""
    for f in funcs:
        fa = None
        for x in ast.walk(f.node):
            if isinstance(x, ast.Call) and isinstance(x.func, ast.Attribute) and x.func.attr == "full_like" and len(x.args) >= 2 and not any(k.arg == "dtype" for k in x.keywords):
                v = x.args[1]
                from_array = any(isinstance(y, ast.Subscript) or (isinstance(y, ast.Attribute) and y.attr in ("_values", "values", "_data")) for y in ast.walk(v))
                if from_array and not isinstance(v, ast.Constant):
                    ctx.violated(rule, f, "a result filled with array values has the element type of those values",
                                 "`%s` has the element type of its template, the fill value `%s` is cast into it" % (ast.unparse(x), ast.unparse(v)), node=x, engine="KB")


def h52_mask_of_unusual_width(ctx, tk, rule, funcs):
    """an all-ones hexadecimal mask separates fields of 8, 16, 32 or 64 bits; 0xFFFFFFF (28 bits) or 0xFFFFFFFFFFFFFFF (60 bits) is a
    digit short and silently drops the top of the field"""
    for f in funcs:
        for x in ast.walk(f.node):
            if isinstance(x, ast.Constant) and isinstance(x.value, int) and not isinstance(x.value, bool) and x.value > 0xFFFF:
                v = x.value
                if v & (v + 1) == 0:
                    bits = v.bit_length()
                    if bits % 4 == 0 and bits not in (32, 64) and bits >= 20:
                        ctx.violated(rule, f, "field masks cover whole 32- or 64-bit fields",
                                     "the mask %s is %d bits wide: a packed 32/64-bit field loses its top %d bits" % (hex(v), bits, (32 if bits < 32 else 64) - bits), node=x, engine="KB")


def h53_narrowed_before_clamped(ctx, tk, rule, funcs):
    """a caller-supplied bound that is clamped into range (np.minimum / np.maximum / np.clip / np.where on it) may be arbitrarily
    large ("open end": 1 << 40).  Converting it first to a dtype taken from the array's own geometry (the configured index
    dtype, int32 in the narrow configuration) wraps it around before the clamp can act"""
    for f in funcs:
        params = set(f.params)
        conv = {}       # name -> conversion node
        for st in ast.walk(f.node):
            if not isinstance(st, ast.Assign):
                continue
            for x in ast.walk(st.value):
                if not isinstance(x, ast.Call):
                    continue
                fn = x.func
                nm = fn.attr if isinstance(fn, ast.Attribute) else ""
                dt = None
                src = None
                if nm in ("asanyarray", "asarray", "array") and x.args:
                    src = x.args[0]
                    dt = next((k.value for k in x.keywords if k.arg == "dtype"), x.args[1] if len(x.args) > 1 else None)
                elif nm == "astype" and x.args:
                    src = fn.value
                    dt = x.args[0]
                if dt is None or src is None:
                    continue
                # a dtype that is *computed* (a local / attribute), not a literal wide type
                literal = (isinstance(dt, ast.Attribute) and isinstance(dt.value, ast.Name) and dt.value.id in ("np", "numpy")) or isinstance(dt, ast.Constant) or \
                    (isinstance(dt, ast.Name) and dt.id in ("int", "float", "bool"))
                if literal:
                    continue
                geometric = any(isinstance(y, ast.Attribute) and y.attr in ("_dtype", "dtype") for y in ast.walk(dt)) or isinstance(dt, ast.Name)
                if not geometric:
                    continue
                srcnames = {y.id for y in ast.walk(src) if isinstance(y, ast.Name)}
                loop = {g.target.id: {y.id for y in ast.walk(g.iter) if isinstance(y, ast.Name)} for g in ast.walk(st.value) if isinstance(g, ast.comprehension) and isinstance(g.target, ast.Name)}
                feeds = set()
                for sn in srcnames:
                    feeds |= ({sn} | loop.get(sn, set())) & params
                if not feeds:
                    continue
                for t in st.targets:
                    for y in ast.walk(t):
                        if isinstance(y, ast.Name) and (y.id in feeds or y.id in params):
                            conv[y.id] = (x, st.lineno)
        if not conv:
            continue
        for x in ast.walk(f.node):
            if isinstance(x, ast.Call) and isinstance(x.func, ast.Attribute) and x.func.attr in ("minimum", "maximum", "clip", "where"):
                used = {y.id for a in x.args for y in ast.walk(a) if isinstance(y, ast.Name)}
                hit = [n for n in conv if n in used and conv[n][1] < x.lineno]
                if hit:
                    c = conv[hit[0]][0]
                    ctx.violated(rule, f, "a caller-supplied bound is clamped before it is narrowed to the index dtype",
                                 "`%s` converts `%s` to a dtype taken from the array's geometry before `%s` clamps it: under 32-bit indices an open-ended bound "
                                 "(1 << 40) wraps to 0 first" % (ast.unparse(c), hit[0], ast.unparse(x)[:80]), node=c, engine="KB")
                    break


SORTED_ATTRS = {"starts", "ends", "_events", "events", "_starts", "_ends", "_indices", "lengths_cumsum"}


def _known_sorted(t, d=0):
    """boundaries kept by the data structures, and what sort / cumsum / arange / unique / flatnonzero produce, are ascending"""
    if d > 8:
        return False
    for a in alts(t):
        ok = False
        if a.k == "attr" and a.a[1] in SORTED_ATTRS:
            ok = True
        elif a.k in ("sub", "upd") and (a.k == "upd" or a.a[1].k == "slice"):
            ok = _known_sorted(a.a[0], d + 1)
        elif a.k == "call":
            nm = np_call(a, {"sort", "cumsum", "arange", "unique", "flatnonzero", "insert", "append", "concatenate", "nonzero"})
            if nm in ("sort", "cumsum", "arange", "unique", "flatnonzero"):
                ok = True
            elif nm in ("insert", "append") and a.a[1]:
                ok = _known_sorted(a.a[1][0], d + 1)
            elif a.a[0].k == "attr" and a.a[0].a[1] in ("cumsum",):
                ok = True
            elif a.a[0].k == "attr" and a.a[0].a[1] in ("ravel", "copy", "astype", "view"):
                ok = _known_sorted(a.a[0].a[0], d + 1)
        elif a.k == "bin" and a.a[0] in ("+", "-") and (a.a[2].k == "const" or a.a[1].k == "const"):
            ok = _known_sorted(a.a[1] if a.a[2].k == "const" else a.a[2], d + 1)
        elif a.k == "item" and a.a[0].k == "call" and a.a[0].a[0].k == "attr" and a.a[0].a[0].a[1] == "nonzero":
            ok = a.a[1] == 0
        if not ok:
            return False
    return True


def h54_binary_search_in_caller_data(ctx, tk, rule, funcs):
    """np.searchsorted(a, v) is a binary search: it needs `a` ascending.  The library's boundaries (starts, ends, events) are;
    an array handed in by the caller (positions to look up, keys, samples) is not, unless it was sorted here"""
    for f in funcs:
        if not any(isinstance(x, ast.Attribute) and x.attr == "searchsorted" for x in ast.walk(f.node)):
            continue
        fa = ctx.fa(f)
        for n, c in find_calls(fa, lambda c: (np_call(c, {"searchsorted"}) and len(c.a[1]) >= 2) or (c.a[0].k == "attr" and c.a[0].a[1] == "searchsorted" and not np_call(c, {"searchsorted"}) and c.a[1])):
            hay = c.a[1][0] if np_call(c, {"searchsorted"}) else c.a[0].a[0]
            if _known_sorted(hay):
                ctx.holds(rule, f, "binary searches run over ascending boundaries", node=c.node, engine="KB")
                continue
            from_param = [x.a[0] for a in alts(hay) for x in walk(a) if x.k == "param" and x.a[0] in f.params and not (f.cls is not None and x.a[0] == f.params[0])]
            if from_param and "sorter" not in dict(c.a[2]):
                ctx.violated(rule, f, "binary searches run over ascending boundaries",
                             "`%s` searches in `%s`, which comes from the caller as it is (%s): for positions that are not ascending the answers are arbitrary" % (
                                 c, hay, ", ".join(sorted(set(from_param)))), node=c.node, engine="KB")


def h55_scalar_test_misses_numpy_bool(ctx, tk, rule, funcs):
    """np.bool_ (and every other np.generic that is not numeric) is not a numbers.Number: a ufunc dispatcher that recognises scalar
    operands by `isinstance(x, Number)` alone refuses `array & np.bool_(True)` although numpy treats it as a scalar"""
    for f in funcs:
        if f.name != "__array_ufunc__":
            continue
        tests = []
        # the dispatcher together with the private helpers of its class it calls (the operand chain may live in a helper)
        bodies = [f.node]
        if f.cls is not None and f.params:
            for x in ast.walk(f.node):
                if isinstance(x, ast.Call) and isinstance(x.func, ast.Attribute) and isinstance(x.func.value, ast.Name) and x.func.value.id == f.params[0]:
                    h = f.cls.lookup(x.func.attr)
                    if h is not None and h.node not in bodies:
                        bodies.append(h.node)
        for x in (y for b in bodies for y in ast.walk(b)):
            if isinstance(x, ast.Call) and isinstance(x.func, ast.Name) and x.func.id == "isinstance" and len(x.args) == 2:
                t = x.args[1]
                names = [ast.unparse(e) for e in (t.elts if isinstance(t, ast.Tuple) else [t])]
                if any(n.split(".")[-1] == "Number" for n in names):
                    tests.append((x, names))
        if not tests:
            continue
        # one scalar test that lets numpy scalars through is enough: np.generic / np.bool_ in the tuple, or np.isscalar / np.ndim(x) == 0 somewhere
        other = any((isinstance(x, ast.Attribute) and x.attr in ("isscalar", "generic", "bool_")) or
                    (isinstance(x, ast.Call) and isinstance(x.func, ast.Attribute) and x.func.attr == "ndim") for b in bodies for x in ast.walk(b))
        covered = [names for _, names in tests if any(n.split(".")[-1] in ("generic", "bool_", "bool") for n in names)]
        ctx.decide(rule, f, "numpy's own scalars (np.bool_ included) are accepted as scalar operands", True if covered else (None if other else False),
                   "`%s` is the scalar test: np.bool_ is not a numbers.Number, so `array & np.bool_(True)` is refused (NotImplemented -> TypeError)" % ast.unparse(tests[0][0]),
                   node=tests[0][0], key="numpy-bool-scalar", engine="KB")


def h56_unpackbits_without_count(ctx, tk, rule, funcs):
    """np.packbits pads the last byte with zero bits; np.unpackbits without count= hands all of them back, so the array read back is
    up to 7 elements longer than the one written"""
    for f in funcs:
        for x in ast.walk(f.node):
            if isinstance(x, ast.Call) and isinstance(x.func, ast.Attribute) and x.func.attr == "unpackbits" and not any(k.arg == "count" for k in x.keywords):
                sliced = False
                for y in ast.walk(f.node):
                    if isinstance(y, ast.Subscript) and any(z is x for z in ast.walk(y.value)) and isinstance(y.slice, ast.Slice) and y.slice.upper is not None:
                        sliced = True
                ctx.decide(rule, f, "unpacked bits are cut back to the number of elements that were packed", True if sliced else False,
                           "`%s` returns a multiple of 8 elements: the padding bits of the last byte come back as data" % ast.unparse(x), node=x, engine="KB")


def h57_zero_test_is_not_a_sign_test(ctx, tk, rule, funcs):
    """`not x.any()` / `np.all(x == 0)` is also true for -0.0: a shortcut that then returns fresh zeros loses the sign of zero
    (1 / -0.0, copysign, arctan2 see the difference).  Fine for integer / bool data"""
    from .guards import reachable_under
    for f in funcs:
        fa = ctx.fa(f)
        for r in fa.cfg.returns():
            if r.ast.value is None:
                continue
            tm = fa.term(r.ast.value, r)
            if not any(np_call(a, {"zeros", "zeros_like"}) for a in alts(tm)):
                continue
            hit = None
            for t, truth, _ in facts_at(fa, r):
                if not truth and t.k == "call" and t.a[0].k == "attr" and t.a[0].a[1] == "any" and not t.a[1]:
                    hit = t
                if not truth and np_call(t, {"any", "count_nonzero"}):
                    hit = t
            if hit is None:
                continue
            subj = lambda x: (x.k == "attr" and x.a[1] == "dtype") or x.k == "param"
            floats = r.id in reachable_under(fa, "floating", subj)
            ctx.decide(rule, f, "a column of zeros keeps the sign of its zeros", False if floats else True,
                       "fresh zeros are returned when `%s` is false: that is also the case for -0.0 entries, whose sign matters to multiply, divide, copysign, arctan2" % (hit,),
                       node=r.ast, engine="KB")


def h58_nan_marker_promotes_integers(ctx, tk, rule, funcs):
    """np.where(cond, values, np.nan) (or np.inf) is float64 whatever `values` were: 64-bit integers above 2**53 lose their low bits,
    and later equality tests against the original data no longer match"""
    from .guards import reachable_under
    for f in funcs:
        if not any(isinstance(x, ast.Attribute) and x.attr in ("nan", "inf", "NaN") for x in ast.walk(f.node)):
            continue
        fa = ctx.fa(f)
        for n, c in find_calls(fa, lambda c: np_call(c, {"where"}) and len(c.a[1]) == 3):
            ops = c.a[1][1:]
            marker = [o for o in ops if (attr_chain(o) or ("",))[-1] in ("nan", "inf", "NaN")]
            data = [o for o in ops if o not in marker and o.k != "const"]
            if not marker or not data:
                continue
            subj = lambda x: (x.k == "attr" and x.a[1] == "dtype") or x.k == "param"
            ints = any(n.id in reachable_under(fa, k, subj) for k in ("signed", "unsigned"))
            ctx.decide(rule, f, "integer data is not mixed with a floating-point marker value", False if ints else True,
                       "`%s` is float64 for integer data: values above 2**53 are rounded (2**60 + 1 and 2**60 + 2 become equal)" % (c,), node=c.node, engine="KB")


def h59_data_stacked_with_positions(ctx, tk, rule, funcs):
    """np.vstack / np.stack / np.column_stack / np.array((data, positions)) builds ONE array: data values and int64 positions
    are promoted to a common type first - uint64 data become float64 (and lose their low bits), small ints become int64.
    Keys of different meaning are kept in a tuple (np.lexsort takes one)"""
    for f in funcs:
        fa = None
        for x in ast.walk(f.node):
            if not (isinstance(x, ast.Call) and isinstance(x.func, ast.Attribute) and x.func.attr in ("vstack", "stack", "column_stack", "hstack", "array", "concatenate")
                    and x.args and isinstance(x.args[0], (ast.Tuple, ast.List)) and len(x.args[0].elts) >= 2):
                continue
            def is_data(e):
                return any((isinstance(y, ast.Call) and isinstance(y.func, ast.Attribute) and y.func.attr in ("ravel",) and isinstance(y.func.value, ast.Name) and f.params and y.func.value.id == f.params[0])
                           or (isinstance(y, ast.Attribute) and y.attr in ("__data", "_values")) for y in ast.walk(e))
            def is_pos(e):
                return any((isinstance(y, ast.Call) and isinstance(y.func, ast.Attribute) and y.func.attr in ("index_array", "arange", "flatnonzero", "argsort"))
                           or (isinstance(y, ast.Attribute) and y.attr in ("starts", "ends", "lengths", "_indices", "_events")) for y in ast.walk(e)) and not is_data(e)
            els = x.args[0].elts
            if any(is_data(e) for e in els) and any(is_pos(e) for e in els):
                ctx.violated(rule, f, "data values and positions are not promoted into one array",
                             "`%s` puts the data next to int64 positions in one array: uint64 data are promoted to float64 (values above 2**53 collide), so an ordering or "
                             "comparison computed from it differs from numpy's on the data" % ast.unparse(x)[:110], node=x, engine="KB")


def h60_bincount_without_minlength(ctx, tk, rule, funcs):
    """np.bincount(x) has max(x) + 1 entries: an answer with one entry per key / row / column needs minlength=, otherwise the
    trailing entries are missing whenever the last positions do not occur (and the result is empty when nothing occurs)"""
    for f in funcs:
        fa = None
        for x in ast.walk(f.node):
            if isinstance(x, ast.Call) and isinstance(x.func, ast.Attribute) and x.func.attr == "bincount" and not any(k.arg == "minlength" for k in x.keywords) and len(x.args) < 3:
                # tolerated when the result is extended / indexed into a pre-sized buffer afterwards; reported when it is returned as the answer
                returned = any(isinstance(r, ast.Return) and r.value is not None and any(y is x for y in ast.walk(r.value)) for r in ast.walk(f.node))
                if returned:
                    ctx.violated(rule, f, "a count per key / row has one entry for each of them (np.bincount with minlength)",
                                 "`%s` is as long as the largest position that occurs plus one: the answer is shorter than the question whenever the last keys are absent" % ast.unparse(x)[:100],
                                 node=x, engine="KB")


def h61_shifted_window_in_chunk_loop(ctx, tk, rule, funcs):
    """for s in range(0, n, B): x[s + 1 : s + B] covers B - 1 elements: a window that is shifted at its lower end by k has to be
    shifted at its upper end as well, or the last k elements of every block are skipped"""
    for f in funcs:
        for loop in ast.walk(f.node):
            if not (isinstance(loop, ast.For) and isinstance(loop.target, ast.Name) and isinstance(loop.iter, ast.Call) and isinstance(loop.iter.func, ast.Name)
                    and loop.iter.func.id == "range" and len(loop.iter.args) == 3):
                continue
            v = loop.target.id
            B = ast.unparse(loop.iter.args[2])
            for sl in ast.walk(loop):
                if not (isinstance(sl, ast.Slice) and sl.lower is not None and sl.upper is not None):
                    continue
                lo, up = sl.lower, sl.upper
                if isinstance(lo, ast.BinOp) and isinstance(lo.op, ast.Add) and isinstance(lo.left, ast.Name) and lo.left.id == v and isinstance(lo.right, ast.Constant) and lo.right.value:
                    if isinstance(up, ast.BinOp) and isinstance(up.op, ast.Add) and isinstance(up.left, ast.Name) and up.left.id == v and ast.unparse(up.right) == B:
                        ctx.violated(rule, f, "a window shifted by k inside a block loop is shifted at both ends",
                                     "`%s` starts %s later than the block but ends with it: the last %s element(s) of every block get no partner" % (ast.unparse(sl), lo.right.value, lo.right.value),
                                     node=sl, engine="KB")


NARROW_INTS = {"int8", "int16", "int32", "uint8", "uint16", "uint32"}


def h62_positions_in_a_narrow_type(ctx, tk, rule, funcs):
    """positions / run boundaries kept in the smallest type that can hold them (np.min_scalar_type(n), int32, uint8) wrap around in
    the arithmetic done on them later - ceil-division by a step, products with values, offsets added - although each position fits"""
    for f in funcs:
        for x in ast.walk(f.node):
            if not (isinstance(x, ast.Call) and isinstance(x.func, ast.Attribute) and x.func.attr == "astype" and x.args):
                continue
            d = x.args[0]
            narrow = (isinstance(d, ast.Attribute) and d.attr in NARROW_INTS) or \
                (isinstance(d, ast.Call) and isinstance(d.func, ast.Attribute) and d.func.attr == "min_scalar_type") or \
                (isinstance(d, ast.Constant) and isinstance(d.value, str) and d.value.lstrip("<>=|") in ("i1", "i2", "i4", "u1", "u2", "u4"))
            if not narrow:
                continue
            recv = x.func.value
            positional = any((isinstance(y, ast.Name) and y.id in ("indices", "events", "positions", "starts", "ends", "offsets", "boundaries")) or
                             (isinstance(y, ast.Attribute) and y.attr in ("_events", "_indices", "starts", "ends", "_starts", "_ends", "_codes")) or
                             (isinstance(y, ast.Call) and isinstance(y.func, ast.Attribute) and y.func.attr in ("flatnonzero", "cumsum", "arange")) for y in ast.walk(recv))
            if positional:
                ctx.violated(rule, f, "positions and run boundaries are kept in the platform integer",
                             "`%s` stores positions in a narrow integer type: later arithmetic on them ((p + step - 1) // step, length * value, p + offset) is done in that type and wraps" % ast.unparse(x)[:100],
                             node=x, engine="KB")


def h63_sorted_order_undone_with_the_same_permutation(ctx, tk, rule, funcs):
    """order = np.argsort(keys); res = f(x[order]); res[order] does NOT restore the original order (that needs the inverse
    permutation: np.argsort(order), or out[order] = res).  The two agree only for permutations that are their own inverse"""
    for f in funcs:
        orders = {}
        for st in ast.walk(f.node):
            if isinstance(st, ast.Assign) and len(st.targets) == 1 and isinstance(st.targets[0], ast.Name) and isinstance(st.value, ast.Call) \
                    and isinstance(st.value.func, ast.Attribute) and st.value.func.attr in ("argsort", "lexsort"):
                orders[st.targets[0].id] = st.lineno
        for o, ln in orders.items():
            def by_o(e):
                return isinstance(e, ast.Subscript) and any(isinstance(y, ast.Name) and y.id == o for y in ast.walk(e.slice))
            tainted = {}          # name -> line of the statement that made it "computed in sorted order"
            assigns = sorted((st for st in ast.walk(f.node) if isinstance(st, ast.Assign) and st.lineno > ln), key=lambda st: st.lineno)
            for st in assigns:
                uses_sorted = any(by_o(y) for y in ast.walk(st.value)) or any(isinstance(y, ast.Name) and y.id in tainted for y in ast.walk(st.value))
                if uses_sorted and not by_o(st.value):
                    for tg in st.targets:
                        for y in ast.walk(tg):
                            if isinstance(y, ast.Name) and isinstance(y.ctx, ast.Store) and y.id not in tainted:
                                tainted[y.id] = getattr(st, "end_lineno", st.lineno)
            for x in ast.walk(f.node):
                if by_o(x) and isinstance(x.ctx, ast.Load) and isinstance(x.value, ast.Name) and x.value.id in tainted and x.lineno > tainted[x.value.id]:
                    ctx.violated(rule, f, "a result computed in sorted order is put back with the inverse permutation",
                                 "`%s`: `%s` was computed from data taken in the order `%s`; indexing it with `%s` again applies the permutation twice instead of undoing it "
                                 "(right only for self-inverse permutations such as reversals and swaps)" % (ast.unparse(x), x.value.id, o, o), node=x, engine="KB")
                    break


def h64_memo_handed_to_a_derived_object(ctx, tk, rule, funcs):
    """ret = cls(<something new>); ret._memo = self._memo: a per-object memo (set to None by the constructor, filled on demand)
    describes the object it was computed for; handed to an object built from another geometry / buffer it is wrong"""
    for f in funcs:
        if f.cls is None or not f.params:
            continue
        selfn = f.params[0]
        memos = set()
        for c in f.cls.mro():
            init = c.methods.get("__init__")
            if init is None:
                continue
            for x in ast.walk(init.node):
                if isinstance(x, ast.Assign) and isinstance(x.value, ast.Constant) and x.value.value is None:
                    for tg in x.targets:
                        if isinstance(tg, ast.Attribute) and isinstance(tg.value, ast.Name) and tg.value.id == init.params[0]:
                            memos.add(tg.attr)
        if not memos:
            continue
        built = {}
        for x in ast.walk(f.node):
            if isinstance(x, ast.Assign) and len(x.targets) == 1 and isinstance(x.targets[0], ast.Name) and isinstance(x.value, ast.Call):
                uses_param = any(isinstance(y, ast.Name) and y.id in f.params[1:] for a in list(x.value.args) + [k.value for k in x.value.keywords] for y in ast.walk(a))
                fn = x.value.func
                ctor = (isinstance(fn, ast.Attribute) and fn.attr in ("_cls", "__class__")) or (isinstance(fn, ast.Name) and fn.id[:1].isupper())
                if ctor and uses_param:
                    built[x.targets[0].id] = x
        for x in ast.walk(f.node):
            if isinstance(x, ast.Assign) and len(x.targets) == 1 and isinstance(x.targets[0], ast.Attribute) and isinstance(x.targets[0].value, ast.Name) \
                    and x.targets[0].value.id in built and x.targets[0].attr in memos \
                    and isinstance(x.value, ast.Attribute) and isinstance(x.value.value, ast.Name) and x.value.value.id == selfn and x.value.attr == x.targets[0].attr:
                ctx.violated(rule, f, "a memo is valid for the object it was computed for only",
                             "`%s`: `%s` was built from the argument(s) of %s, not from self's geometry; self's memo `%s` (None until filled) does not describe it" % (
                                 ast.unparse(x), x.targets[0].value.id, f.name, x.value.attr), node=x, engine="E3")


def h65_selector_cast_to_index_dtype(ctx, tk, rule, funcs):
    """rows.astype(<index dtype>) on a caller's row / position numbers BEFORE they were range-checked: under a 32-bit index
    dtype an out-of-range number wraps modulo 2**32 into a valid one instead of being refused"""
    selector_names = ("idx", "index", "indices", "raw_idx", "_index", "rows", "row_idx", "row_indices")
    for f in funcs:
        for x in ast.walk(f.node):
            if not (isinstance(x, ast.Call) and isinstance(x.func, ast.Attribute) and x.func.attr == "astype" and x.args
                    and isinstance(x.func.value, ast.Name) and x.func.value.id in f.params and x.func.value.id in selector_names):
                continue
            d = x.args[0]
            if (isinstance(d, ast.Attribute) and (d.attr == "_dtype" or d.attr in NARROW_INTS)):
                ctx.violated(rule, f, "a caller's row numbers are range-checked in their own type",
                             "`%s` converts the caller's row numbers to the configured index type first: a number beyond that type wraps into the valid range instead of being refused" % ast.unparse(x)[:100],
                             node=x, engine="KB")


def h66_key_dtype_as_value_dtype(ctx, tk, rule, funcs):
    """a value dtype taken from the table's key dtype (or the reverse): the two are independent"""
    for f in funcs:
        local = {}
        for x in ast.walk(f.node):
            if isinstance(x, ast.Assign) and len(x.targets) == 1 and isinstance(x.targets[0], ast.Name):
                local.setdefault(x.targets[0].id, []).append(x.value)
        for x in ast.walk(f.node):
            if not isinstance(x, ast.Call):
                continue
            for kw in x.keywords:
                if kw.arg not in ("value_dtype", "key_dtype"):
                    continue
                other = "_key_dtype" if kw.arg == "value_dtype" else "_value_dtype"
                own = "_value_dtype" if kw.arg == "value_dtype" else "_key_dtype"
                exprs = [kw.value] + [v for y in ast.walk(kw.value) if isinstance(y, ast.Name) for v in local.get(y.id, ())]
                attrs = {y.attr for e in exprs for y in ast.walk(e) if isinstance(y, ast.Attribute)}
                if other in attrs and own not in attrs:
                    ctx.violated(rule, f, "the value type of a derived table comes from the table's value type (keys and values are typed independently)",
                                 "`%s=%s` is derived from `%s`: float values of an integer-keyed table are truncated" % (kw.arg, ast.unparse(kw.value)[:60], other), node=x, engine="KB")


def h67_reshape_inferred_dimension(ctx, tk, rule, funcs):
    """x.reshape(-1, L) with a computed L: for L == 0 (only empty rows) numpy cannot infer the first dimension and raises,
    x.reshape(n_rows, L) works"""
    for f in funcs:
        for x in ast.walk(f.node):
            if not (isinstance(x, ast.Call) and isinstance(x.func, ast.Attribute) and x.func.attr == "reshape"):
                continue
            dims = list(x.args[0].elts) if len(x.args) == 1 and isinstance(x.args[0], ast.Tuple) else list(x.args)
            if len(dims) < 2:
                continue
            minus = [d for d in dims if isinstance(d, ast.UnaryOp) and isinstance(d.op, ast.USub) and isinstance(d.operand, ast.Constant) and d.operand.value == 1]
            others = [d for d in dims if d not in minus]
            if len(minus) == 1 and others and any(not isinstance(d, ast.Constant) for d in others):
                var = [d for d in others if not isinstance(d, ast.Constant)][0]
                lengthy = any((isinstance(y, ast.Attribute) and y.attr in ("lengths", "shape")) or (isinstance(y, ast.Name) and y.id in ("L", "row_len", "n_cols", "width", "max_len")) or
                              (isinstance(y, ast.Subscript) and isinstance(y.value, ast.Attribute) and y.value.attr == "lengths") for y in ast.walk(var)) or _from_lengths(f, var)
                if lengthy:
                    ctx.violated(rule, f, "a matrix of n rows with 0 columns is shaped with its explicit row count",
                                 "`%s`: when `%s` is 0 (every row empty) numpy cannot infer the -1 dimension and raises" % (ast.unparse(x)[:100], ast.unparse(var)), node=x, engine="KB")


def _from_lengths(f, var):
    if not isinstance(var, ast.Name):
        return False
    for x in ast.walk(f.node):
        if isinstance(x, ast.Assign) and any(isinstance(t, ast.Name) and t.id == var.id for t in x.targets):
            if any(isinstance(y, ast.Attribute) and y.attr == "lengths" for y in ast.walk(x.value)):
                return True
    return False


def h68_input_normalised_in_one_width_branch(ctx, tk, rule, funcs):
    """if self._dtype == np.int32: <idx = f(idx)> ... else: ...   A caller's argument rebound in only ONE arm of a branch on the
    configured index width makes what is accepted (mask lengths, ranges, shapes) depend on the configuration"""
    for f in funcs:
        params = set(f.params[1:] if f.cls is not None else f.params)
        if not params:
            continue
        for st in ast.walk(f.node):
            if not (isinstance(st, ast.If) and any(isinstance(y, ast.Attribute) and y.attr == "_dtype" for y in ast.walk(st.test))):
                continue

            def rebound(body):
                out = {}
                for b in body:
                    for y in ast.walk(b):
                        tgs = y.targets if isinstance(y, ast.Assign) else ([y.target] if isinstance(y, (ast.AugAssign, ast.AnnAssign)) else [])
                        for t in tgs:
                            if isinstance(t, ast.Name) and t.id in params:
                                out.setdefault(t.id, y)
                return out
            a, b = rebound(st.body), rebound(st.orelse)
            for name in sorted(set(a) ^ set(b)):
                y = a.get(name) or b.get(name)
                ctx.violated(rule, f, "both index-width branches treat the caller's argument alike",
                             "`%s` rebinds the argument `%s` in one arm of `if %s` only: what the function accepts then depends on the configured index width" % (
                                 ast.unparse(y)[:80], name, ast.unparse(st.test)[:50]), node=y, engine="KB")


def generic(ctx, tk, rule, funcs, skip=()):
    """all deviance-form hazard rules over a property's function scope"""
    fs = [f for f in funcs if f.qual not in skip]
    if "H1" not in skip:
        h1_buffered_updates(ctx, tk, rule + "/H1", fs, licensed={"raggedshape.RaggedShape._raw_broadcast"})
    h2_argmax_of_mask(ctx, tk, rule + "/H2", fs)
    h3_diff_as_comparison(ctx, tk, rule + "/H3", fs)
    h4_take_with_unknown_index(ctx, tk, rule + "/H4", fs)
    h5_python_list_promotion(ctx, tk, rule + "/H5", fs)
    h6_non_c_order(ctx, tk, rule + "/H6", fs)
    h7_any_guarded_update(ctx, tk, rule + "/H7", fs)
    h8_forced_accumulator(ctx, tk, rule + "/H8", fs)
    h9_negative_param_slice_bound(ctx, tk, rule + "/H9", fs)
    h9b_negative_width_slice_start(ctx, tk, rule + "/H9", fs)
    h10_counting_scatter(ctx, tk, rule + "/H10", fs)
    h11_isinstance_int(ctx, tk, rule + "/H11", fs)
    h13_int_cast_of_selector(ctx, tk, rule + "/H13", fs)
    h14_dtype_identity(ctx, tk, rule + "/H14", fs)
    h15_astype_none(ctx, tk, rule + "/H15", fs)
    h16_initial_in_extremum(ctx, tk, rule + "/H16", fs)
    h17_tolerance_as_equality(ctx, tk, rule + "/H17", fs)
    h18_cross_operand_store(ctx, tk, rule + "/H18", fs)
    h18b_blocks_into_first_operands_type(ctx, tk, rule + "/H18", fs)
    h18c_typed_by_the_first_operand(ctx, tk, rule + "/H18", fs)
    h20_chunk_loop_drops_tail(ctx, tk, rule + "/H20", fs)
    h22_reduceat_clamped(ctx, tk, rule + "/H22", fs)
    h23_uninitialised_result(ctx, tk, rule + "/H23", fs)
    h24_memory_layout_as_shape(ctx, tk, rule + "/H24", fs)
    h25_totals_equality_fast_path(ctx, tk, rule + "/H25", fs)
    h26_class_level_cache(ctx, tk, rule + "/H26", fs)
    h27_positional_arguments_dropped(ctx, tk, rule + "/H27", fs)
    h28_out_buffer_pins_dtype(ctx, tk, rule + "/H28", fs)
    h29_unsigned_cast_to_signed(ctx, tk, rule + "/H29", fs)
    h31_issubdtype_builtin(ctx, tk, rule + "/H31", fs)
    h32_unstable_second_sort(ctx, tk, rule + "/H32", fs)
    h33_truth_of_index_array(ctx, tk, rule + "/H33", fs)
    h34_shallow_copy_keeps_memos(ctx, tk, rule + "/H34", fs)
    h36_strict_negative_bound(ctx, tk, rule + "/H36", fs)
    h37_telescoping_needs_exact_arithmetic(ctx, tk, rule + "/H37", fs)
    h38_no_cells_is_not_no_rows(ctx, tk, rule + "/H38", fs)
    h39_exclusive_stop_clamped_like_a_position(ctx, tk, rule + "/H39", fs)
    h40_bit_pattern_equality(ctx, tk, rule + "/H40", fs)
    h41_own_annotations_only(ctx, tk, rule + "/H41", fs)
    h42_view_ends_as_range_stop(ctx, tk, rule + "/H42", fs)
    h43_typed_operand_made_weak(ctx, tk, rule + "/H43", fs)
    h44_operand_forced_into_own_dtype(ctx, tk, rule + "/H44", fs)
    h45_handler_returns_its_operand(ctx, tk, rule + "/H45", fs)
    h46_stale_sibling_after_filter(ctx, tk, rule + "/H46", fs)
    h50_full_like_takes_the_templates_type(ctx, tk, rule + "/H50", fs)
    h52_mask_of_unusual_width(ctx, tk, rule + "/H52", fs)
    h53_narrowed_before_clamped(ctx, tk, rule + "/H53", fs)
    h54_binary_search_in_caller_data(ctx, tk, rule + "/H54", fs)
    h55_scalar_test_misses_numpy_bool(ctx, tk, rule + "/H55", fs)
    h56_unpackbits_without_count(ctx, tk, rule + "/H56", fs)
    h57_zero_test_is_not_a_sign_test(ctx, tk, rule + "/H57", fs)
    h58_nan_marker_promotes_integers(ctx, tk, rule + "/H58", fs)
    h59_data_stacked_with_positions(ctx, tk, rule + "/H59", fs)
    h60_bincount_without_minlength(ctx, tk, rule + "/H60", fs)
    h61_shifted_window_in_chunk_loop(ctx, tk, rule + "/H61", fs)
    h62_positions_in_a_narrow_type(ctx, tk, rule + "/H62", fs)
    h63_sorted_order_undone_with_the_same_permutation(ctx, tk, rule + "/H63", fs)
    h64_memo_handed_to_a_derived_object(ctx, tk, rule + "/H64", fs)
    h65_selector_cast_to_index_dtype(ctx, tk, rule + "/H65", fs)
    h66_key_dtype_as_value_dtype(ctx, tk, rule + "/H66", fs)
    h67_reshape_inferred_dimension(ctx, tk, rule + "/H67", fs)
    h68_input_normalised_in_one_width_branch(ctx, tk, rule + "/H68", fs)
    from . import wellformed as _W
    _W.report_constant_truth(ctx, tk, rule, fs)
    # H19 (raw ufunc identity stored) depends on which ufunc the caller chose: it is applied by C05 only, where the
    # property quantifies over "any ufunc that has an identity"
