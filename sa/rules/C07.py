"""C07 - row-wise scans and reorderings equal numpy applied to each row.

Decided: boundary gathers cannot run off (or wrap around) the buffer when rows are empty (E5/U2 extents);
the dtype refusal of cumsum (dtype-class feasibility); row-keyed sort key order; the row-boundary barrier in
the adjacent-element comparison of unique; accumulate table agreement; non-negative lengths in diff; neighbour
comparison by (in)equality, not by arithmetic difference (KB hazard); operands are not written (E3).
Not decided: scan values, the offsets algebra of INVERSE_FUNCS, the count trick in unique.
"""
import ast
from ..lib import Toolkit
from ..guards import find_calls, facts_at, reachable_under, subject_dtype_of
from ..terms import alts, attr_chain, walk, is_const, call_name, np_call
from ..coherence import Coherence, report
from .. import layout, hazards
from .. import wellformed as W

LEVEL_TEXT = ("static extent/role analysis of boundary gathers (E5/U2), dtype-class feasibility of the cumsum refusal, key-role "
              "rule for lexsort, barrier must-pass in unique, table agreement (E6), clamp rule in diff (U5), numpy-hazard rules and "
              "effect analysis (E3) over cumsum, accumulate, sort, unique and diff; structural necessary conditions of C07")
ASSUMPTIONS = ["np.lexsort sorts by the last key first (numpy documentation)",
               "an index equal to len(a) raises IndexError, an index of -1 addresses the last element"]
MIN_OBLIGATIONS = 18
RA = "raggedarray.RaggedArray."


def check(ctx, tier):
    tk = Toolkit(ctx)
    fs = [ctx.func(RA + n) for n in ("cumsum", "_row_accumulate", "sort", "_accumulate")] + \
         [ctx.func("arrayfunctions." + n) for n in ("unique", "diff")]
    layout.boundary_gather_rules(ctx, tk, "C07.a", fs)
    # the per-row sort (and unique, which builds on it) orders by the row key of ViewBase.index_array: the flat-position -> row map must be exact
    layout.index_map_rules(ctx, tk, "C07.j")
    cumsum_rules(ctx, tk)
    sort_rules(ctx, tk)
    unique_rules(ctx, tk)
    accumulate_table(ctx, tk)
    scan_and_undo_exact(ctx, tk)
    diff_rules(ctx, tk)
    hazards.h3_diff_as_comparison(ctx, tk, "C07.g", fs)
    hazards.h1_buffered_updates(ctx, tk, "C07.g", fs)
    tk.purity("C07.h", fs, "scans and reorderings do not modify their operand", content_only=True,
              allowed=[("raggedarray.RaggedArray.sort", None, "sort(axis=None): ndarray.sort's in-place semantics", {RA + "sort"})])
    coh = ctx.cached("coherence", lambda: Coherence(tk))
    report(coh, "C07.i", funcs=[f.qual for f in fs])
    W.report(ctx, tk, "C07.i", fs)
    from .. import hazards as _hz, scopes as _sc
    _hz.generic(ctx, tk, "C07.z", _sc.scope(tk, "C07", depth=1))
    return {}


def cumsum_rules(ctx, tk):
    f = ctx.func(RA + "cumsum")
    fa = ctx.fa(f)
    selfn = f.params[0]
    subj = subject_dtype_of(selfn)
    # the row-wise computation node(s): np.cumsum over the flat data outside the axis=None branch
    comp = [n for n, c in find_calls(fa, lambda c: np_call(c, {"cumsum"}) and c.a[1])]
    rowwise = []
    for n in comp:
        facts = facts_at(fa, n)
        if not any(t.k == "cmp" and t.a[0] in ("is", "is not", "==", "!=") and t.a[1].k == "param" and t.a[1].a[0] == "axis" and ((t.a[0] in ("is", "==")) == truth) for t, truth, _ in facts):
            rowwise.append(n)
    what = "the global-cumsum-minus-offsets computation is reached only for integer dtypes; other dtypes are refused"
    if not rowwise:
        ctx.unknown("C07.b", f, what, "row-wise cumsum computation not recognised", engine="E1")
    else:
        bad = [k for k in ("bool", "floating") if any(n.id in reachable_under(fa, k, subj) for n in rowwise)]
        ctx.decide("C07.b", f, what, not bad, "%s arrays reach the computation (offsets of a global float/bool prefix sum are not exact per row)" % "/".join(bad),
                   node=rowwise[0].ast, key="dtype-refusal", engine="E1")
    # alignment of the prefix sum with the row starts: cm = [0] ++ cumsum(data); result data = cm[1:]; offsets = cm[starts]
    for r in fa.cfg.returns():
        tm = fa.term(r.ast.value, r)
        if tm.k == "bin" and tm.a[0] == "-" and tm.a[1].k == "call":
            ctor, offs = tm.a[1], tm.a[2]
            if not ctor.a[1]:
                continue
            data = ctor.a[1][0]
            is_base = lambda t: t.k == "call" and t.a[0].k == "attr" and t.a[0].a[1] == "ravel" and attr_chain(t.a[0].a[0]) == (selfn,)
            alg = layout.SeqAlg(is_base)
            dv = alg.ev(data)
            ctx.decide("C07.a", f, "the result's flat data is the inclusive prefix sum aligned with the elements",
                       None if dv is None else tuple(dv) == layout.END, "data evaluates to %s" % layout.show_seq(dv), node=r.ast, key="cumsum-data", engine="E5")
            o = offs
            while o.k == "sub" and o.a[1].k == "tuple":
                o = o.a[0]
            if o.k == "sub":
                src = alg.ev(o.a[0])
                idx = layout.boundary_index(o.a[1])
                ok = None
                if src is not None and idx is not None:
                    # sum of everything before position p: exclusive-at-position array [0] ++ End  indexed by starts
                    ok = (tuple(src) == layout.OFFSETS and idx == ("starts", 0, 0)) or (tuple(src) == layout.END and idx == ("starts", -1, -1) and False)
                    if tuple(src) == layout.END and idx[0] == "starts" and idx[1] == 0:
                        ok = False
                ctx.decide("C07.a", f, "per-row offsets are the sums of all elements before the row start ([0] ++ cumsum gathered at starts)",
                           ok, "offsets gather %s at %s" % (layout.show_seq(src), idx), node=r.ast, key="cumsum-offsets", engine="E5")


def sort_rules(ctx, tk):
    f = ctx.func(RA + "sort")
    fa = ctx.fa(f)
    selfn = f.params[0]
    calls = find_calls(fa, lambda c: np_call(c, {"lexsort"}))
    what = "rows are sorted independently: the primary (last) lexsort key is the row index of each element, the secondary key the data"
    if not calls:
        ctx.unknown("C07.c", f, what, "lexsort not found", engine="E5")
    for n, c in calls:
        keys = c.a[1][0] if c.a[1] else None
        if keys is None or keys.k not in ("tuple", "list") or len(keys.a[0]) != 2:
            ctx.unknown("C07.c", f, what, node=c.node, engine="E5")
            continue
        k0, k1 = keys.a[0]
        is_rowidx = lambda t: t.k == "call" and t.a[0].k == "attr" and t.a[0].a[1] == "index_array"
        is_data = lambda t: t.k == "call" and t.a[0].k == "attr" and t.a[0].a[1] == "ravel"
        ok = True if (is_data(k0) and is_rowidx(k1)) else (False if (is_rowidx(k0) and is_data(k1)) else None)
        ctx.decide("C07.c", f, what, ok, "keys are (%s, %s): the data is the primary key, so elements migrate between rows" % (k0, k1), node=c.node, engine="E5")
    for r in fa.cfg.returns():
        tm = fa.term(r.ast.value, r)
        if tm.k == "call" and len(tm.a[1]) == 2 and tm.a[1][0].k == "sub":
            d = tm.a[1][0]
            ok = d.a[1].k == "call" and np_call(d.a[1], {"lexsort"}) is not None
            ctx.decide("C07.c", f, "the sorted array is the flat data permuted by the lexsort order, with the receiver's geometry", True if ok else None, node=r.ast, key="permute", engine="E5")


def unique_rules(ctx, tk):
    f = ctx.func("arrayfunctions.unique")
    fa = ctx.fa(f)
    rp = f.params[0]
    # barrier: mask[starts] = True before the mask is consumed
    barrier = []
    for n in fa.cfg.stmts():
        if n.kind == "stmt" and isinstance(n.ast, ast.Assign) and isinstance(n.ast.targets[0], ast.Subscript):
            idx = fa.term(n.ast.targets[0].slice, n)
            if layout.boundary_index(idx) == ("starts", 0, 0) and isinstance(n.ast.value, ast.Constant) and n.ast.value.value is True:
                barrier.append(n)
    what = "the change mask is forced true at every row start before it is counted (equal values in adjacent rows are distinct rows' values)"
    consumers = [n for n, c in find_calls(fa, lambda c: np_call(c, {"cumsum", "flatnonzero"}) and c.a[1] and any(
        x.k == "cmp" and x.a[0] in ("!=", "==") for x in walk(c.a[1][0])))]
    if not barrier:
        ctx.violated("C07.d", f, what, "no `mask[starts] = True` barrier: a row that starts with the previous row's last value loses that value", engine="E1")
    elif not consumers:
        ctx.unknown("C07.d", f, what, "mask consumers not recognised", engine="E1")
    else:
        ok = all(fa.cfg.must_pass(barrier, c) for c in consumers)
        ctx.decide("C07.d", f, what, True if ok else False, "the mask is counted on a path that skips the barrier", node=barrier[0].ast, engine="E1")
    # U6: neighbour comparison uses complementary shifted slices of the same array
    for n in fa.cfg.stmts():
        if n.kind == "stmt" and isinstance(n.ast, ast.Assign):
            tm = fa.term(n.ast.value, n)
            for x in walk(tm):
                if x.k == "cmp" and x.a[0] in ("!=", "=="):
                    u6(ctx, "C07.d", f, x, n.ast)
    # the sorted copy is what is compared and selected
    srt = find_calls(fa, lambda c: c.a[0].k == "attr" and c.a[0].a[1] == "sort" and c.a[0].a[0].k == "param")
    ctx.decide("C07.d", f, "unique works on the row-sorted copy", True if srt else None, key="sorted", engine="E6")


def u6(ctx, rule, f, cmp_t, node):
    """x[:-1] op x[1:] : shifts differ by exactly one, same base"""
    l, r = cmp_t.a[1], cmp_t.a[2]
    sl = _shift(l)
    sr = _shift(r)
    if sl is None or sr is None or sl[0] != sr[0]:
        return
    what = "neighbouring elements are compared through complementary shifted slices (x[:-1] with x[1:])"
    a, b = sl[1], sr[1]
    ok = {a, b} == {(0, -1), (1, 0)}
    ctx.decide(rule, f, what, ok, "slices %s and %s of the same array: %s" % (a, b, "a self-comparison" if a == b else "shifts do not differ by one"),
               node=node, key="u6:" + repr(sl[0])[:50], engine="E5")


def _shift(t):
    if t.k == "sub" and t.a[1].k == "slice":
        lo, hi, st = t.a[1].a
        if not is_const(st, None):
            return None
        a = 0 if is_const(lo, None) else (lo.a[0] if lo.k == "const" else None)
        b = 0 if is_const(hi, None) else (hi.a[0] if hi.k == "const" else None)
        if a is None or b is None:
            return None
        return (t.a[0], (a, b))
    return None


def accumulate_table(ctx, tk):
    f = ctx.func(RA + "_accumulate")
    fa = ctx.fa(f)
    mod, node = ctx.program.const("raggedarray", "INVERSE_FUNCS")
    keys = set()
    pairs_ok = True
    if isinstance(node, ast.Dict):
        for k, v in zip(node.keys, node.values):
            keys.add(ast.unparse(k).split(".")[-1])
            if not (isinstance(v, ast.Tuple) and len(v.elts) == 2):
                pairs_ok = False
    accepted = set()
    for n in fa.cfg.nodes:
        if n.kind == "test" and fa.cfg.is_reachable(n):
            t = fa.term(n.ast, n)
            if t.k == "cmp" and t.a[0] == "in" and t.a[2].k in ("tuple", "list") and t.a[1].k == "param":
                accepted = {(attr_chain(x) or ("?",))[-1] for x in t.a[2].a[0]}
    what = "the ufuncs _accumulate sends to the generic row accumulate are exactly those with an inverse pair in INVERSE_FUNCS"
    if not keys or not accepted:
        ctx.unknown("C07.e", f, what, "table or membership test not recognised", engine="E6")
    else:
        ctx.decide("C07.e", f, what, accepted <= keys, "accepted %s, table has %s: %s would raise KeyError" % (sorted(accepted), sorted(keys), sorted(accepted - keys)),
                   key="table", engine="E6")
        ctx.decide("C07.e", f, "every INVERSE_FUNCS entry is a pair (inverse, forward)", pairs_ok, key="pairs", engine="E6")


def scan_and_undo_exact(ctx, tk):
    """the row accumulate runs ONE scan over the whole buffer and undoes each row's offset with the inverse ufunc:
    (prefix + x) - prefix == x holds in modular integer arithmetic (and for xor), not in floating point, where a large
    value in an earlier row cancels the later rows ([[1e16], [1.0, 1.0]] accumulates to [0.0, 0.0])"""
    from ..guards import reachable_under
    f = ctx.func(RA + "_accumulate")
    fa = ctx.fa(f)
    subj = lambda t: (t.k == "attr" and t.a[1] == "dtype") or t.k == "param"
    calls = [n for n, c in find_calls(fa, lambda c: c.a[0].k == "attr" and c.a[0].a[1] == "_row_accumulate")]
    what = "the scan-and-undo row accumulate is reached only for exact (integer / bool) arithmetic"
    if not calls:
        ctx.unknown("C07.e", f, what, "call of the generic row accumulate not found", key="exact", engine="KB")
        return
    reach = reachable_under(fa, "floating", subj)
    bad = [n for n in calls if n.id in reach]
    # `if is_float and self.size: <row by row>` - what falls through for floats has no cells
    from ..guards import dtype_truth
    still = []
    for n in bad:
        only_empty = False
        for test, truth in fa.cfg.facts_at(n):
            if truth or test.kind != "test":
                continue
            t = fa.term(test.ast, test)
            if t.k == "bool" and t.a[0] == "and":
                fl = [x for x in t.a[1] if (dtype_truth(x, subj) or set()) >= {"floating"}]
                sz = [x for x in t.a[1] if (x.k == "attr" and x.a[1] == "size") or (x.k == "call" and call_name(x) == "len")]
                if fl and sz and len(fl) + len(sz) == len(t.a[1]):
                    only_empty = True
        if not only_empty:
            still.append(n)
    bad = still
    tested = any(any(x.k == "call" and (attr_chain(x.a[0]) or ("",))[-1] == "issubdtype" for x in walk(fa.term(n.ast, n))) for n in fa.cfg.nodes if n.kind == "test" and fa.cfg.is_reachable(n))
    ctx.decide("C07.e", f, what, (False if not tested else None) if bad else True,
               "`%s` is reached for floating-point data: the offsets of earlier rows are added and subtracted again, which is not exact in floating point" % (
                   ast.unparse(bad[0].ast)[:80] if bad else "",), node=(bad[0].ast if bad else None), key="exact", engine="KB")


def diff_rules(ctx, tk):
    f = ctx.func("arrayfunctions.diff")
    fa = ctx.fa(f)
    rp = f.params[0]
    calls = find_calls(fa, lambda c: c.a[0].k in ("global",) and c.a[0].a[0] == "RaggedView" and len(c.a[1]) >= 2)
    what = "the shortened rows' lengths are clamped at 0 (a row shorter than n has no n-th difference)"
    if not calls:
        ctx.unknown("C07.f", f, what, "RaggedView(starts, lengths) not found", engine="E5")
    for n, c in calls:
        starts, lengths = c.a[1][0], c.a[1][1]
        ok = None
        if np_call(lengths, {"maximum"}) and len(lengths.a[1]) == 2:
            a, b = lengths.a[1]
            if is_const(b, 0) or is_const(a, 0):
                inner = a if is_const(b, 0) else b
                ok = inner.k == "bin" and inner.a[0] == "-" and (attr_chain(inner.a[1]) or ("",))[-1] == "lengths"
        elif lengths.k == "bin" and lengths.a[0] == "-" and (attr_chain(lengths.a[1]) or ("",))[-1] == "lengths":
            ok = False
        ctx.decide("C07.f", f, what, ok, "lengths are %s: negative for rows shorter than n" % (lengths,), node=c.node, key="clamp", engine="E5")
        oks = layout.boundary_index(starts) == ("starts", 0, 0)
        ctx.decide("C07.f", f, "the shortened rows start at the row starts of the differenced flat data", True if oks else (False if layout.boundary_index(starts) is not None else None),
                   "view starts are %s" % (starts,), node=c.node, key="starts", engine="E5")
    # np.diff over the flat data with the same order n
    d = find_calls(fa, lambda c: np_call(c, {"diff"}))
    for n, c in d:
        kw = dict(c.a[2])
        nn = kw.get("n", c.a[1][1] if len(c.a[1]) > 1 else None)
        ok = nn is not None and nn.k == "param" and nn.a[0] == f.params[1]
        ctx.decide("C07.f", f, "the flat differencing uses the requested order n", True if ok else (False if nn is None else None),
                   "np.diff is called without n: only first differences are taken", node=c.node, key="order", engine="E6")
