"""C16 - arithmetic on run-length arrays equals arithmetic on the dense arrays.

Decided: operand order in all three __array_ufunc__ branches and in all three ufunc calls of the boundary
merge (E4); the equal-length refusal (E1); canonicalisation order of the merged result; operands are not
written (E3); run-length weighting of sum / histogram, full-value reductions for any / all / max;
offsets and parallel iteration in concatenation; registry call-compatibility.  Not decided: decode equality,
correctness of the stable-sort boundary merge.
"""
import ast
from ..lib import Toolkit
from ..guards import Formulas, check_guard, find_calls, facts_at
from ..terms import alts, attr_chain, walk, is_const, call_name, np_call
from ..opflow import value_roots, param_names
from .. import rlrules, layout
from .. import wellformed as W

LEVEL_TEXT = ("static operand-flow analysis (E4) over RunLengthArray.__array_ufunc__ and _apply_binary_func, guard (E1), effect "
              "analysis (E3), reduction-shape and prefix-sum role rules (E5/E6); structural necessary conditions of C16")
ASSUMPTIONS = ["no run is empty (C14.a), so any/all/max over the run values equal those over the elements"]
MIN_OBLIGATIONS = 16
RL = "runlengtharray.RunLengthArray."


def check(ctx, tier):
    tk = Toolkit(ctx)
    ufunc_branches(ctx, tk, ctx.func(RL + "__array_ufunc__"), "C16.a", values_attr="_values", geom_attr="_events")
    merge(ctx, tk)
    reductions(ctx, tk)
    concatenate(ctx, tk)
    fs = [ctx.func(RL + n) for n in ("__array_ufunc__", "_apply_binary_func", "sum", "any", "all", "max", "mean", "astype", "__array_function__")] + \
         [ctx.func("runlengtharray.histogram"), ctx.func("runlengtharray.concatenate")]
    tk.purity("C16.c", fs, "arithmetic, reductions and concatenation do not modify their operands", content_only=True)
    W.report(ctx, tk, "C16.f", fs)
    registry(ctx, tk)
    from .. import hazards as _hz, scopes as _sc
    _hz.generic(ctx, tk, "C16.z", _sc.scope(tk, "C16", depth=1))
    _hz.h27_positional_arguments_dropped(ctx, tk, "C16.z/H27", [f_ for f_ in (ctx.program.funcs.get(q_) for q_ in ['runlengtharray.get_ra_func']) if f_ is not None])
    return {}


def ufunc_branches(ctx, tk, f, rule, values_attr, geom_attr):
    """scalar on the right: ufunc(self.values, inputs[1]); scalar on the left: ufunc(inputs[0], self.values)"""
    fa = ctx.fa(f)
    selfn, ufp = f.params[0], f.params[1]
    inp = f.vararg
    calls = find_calls(fa, lambda c: c.a[0].k == "param" and c.a[0].a[0] == ufp)
    seen = set()
    for n, c in calls:
        facts = facts_at(fa, n)
        which = None
        for t, truth, _ in facts:
            if t.k == "call" and call_name(t) == "isinstance" and truth and t.a[1] and t.a[1][0].k == "sub" and t.a[1][0].a[0].k == "param" \
                    and t.a[1][0].a[0].a[0] == inp and t.a[1][0].a[1].k == "const":
                which = t.a[1][0].a[1].a[0]
        args = c.a[1]
        if len(args) == 1:
            ok = (attr_chain(args[0]) or ("",))[-1] == values_attr
            ctx.decide(rule, f, "a unary ufunc is applied to the run values", True if ok else None, node=c.node, key="unary", engine="E4")
            continue
        if len(args) == 2 and which is None:
            # no test tells which operand is the scalar: then the operand that is not the array must still come from a fixed
            # position of the inputs; an element picked by kind ([i for i in inputs if isinstance(i, Number)][0]) has lost it
            others = [a for a in args if not ((attr_chain(a) or ("",))[-1] == values_attr and (attr_chain(a) or ("",))[0] == selfn)]
            arr = [a for a in args if a not in others]
            if len(others) == 1 and len(arr) == 1 and any(x.k == "param" and x.a[0] == inp for x in walk(others[0])):
                o = others[0]
                fixed = o.k == "sub" and o.a[0].k == "param" and o.a[0].a[0] == inp and o.a[1].k == "const"
                if not fixed and any(x.k in ("comp", "elem") for x in walk(o)):
                    ctx.violated(rule, f, "the ufunc receives the scalar and the array in the order the caller gave them",
                                 "`%s` always puts the run values %s and a scalar selected by its kind %s: for a scalar on the other side (10 - rla, 2 ** rla) the operands are swapped" % (
                                     c, "first" if args[0] is arr[0] else "second", "second" if args[0] is arr[0] else "first"), node=c.node, key="scalar-order", engine="E4")
        if len(args) != 2 or which is None:
            continue
        seen.add(which)
        pos_self = 1 - which          # the array is the operand that is not the scalar
        roles = []
        for a in args:
            ch = attr_chain(a)
            if ch and ch[0] == selfn and ch[-1] == values_attr:
                roles.append("self")
            elif a.k == "sub" and a.a[0].k == "param" and a.a[0].a[0] == inp and a.a[1].k == "const":
                roles.append(a.a[1].a[0])
            elif np_call(a, {"asanyarray", "asarray", "array"}) and a.a[1] and a.a[1][0].k == "sub" and a.a[1][0].a[0].k == "param" and a.a[1][0].a[0].a[0] == inp:
                roles.append(a.a[1][0].a[1].a[0])
                ctx.violated(rule, f, "a Python scalar operand reaches the ufunc unconverted (weak-scalar promotion)",
                             "`%s` wraps the scalar into a 0-d array, a strong type: uint8 run values + 10 are computed in int64 (250 + 10 = 260 instead of wrapping to 4)" % (a,),
                             node=c.node, key="weak-scalar-%d" % which, engine="E4")
            else:
                roles.append("?")
        want = ["self", "self"]
        want[which] = which
        ok = True if roles == want else (False if sorted(map(str, roles)) == sorted(map(str, want)) else None)
        ctx.decide(rule, f, "with the scalar/array operand in position %d the ufunc receives the operands in their original order" % which, ok,
                   "operands are passed as %s, expected %s: `s - array` is computed as `array - s`" % (roles, want), node=c.node, key="scalar-pos-%d" % which, engine="E4")
    if not seen:
        ctx.unknown(rule, f, "scalar-operand branches", "ufunc calls under isinstance(inputs[k], ...) not recognised", engine="E4")
    for r in fa.cfg.returns():
        tm = fa.term(r.ast.value, r)
        if tm.k == "call" and tm.a[0].k == "attr" and tm.a[0].a[1] == "__class__" and len(tm.a[1]) >= 2:
            g = tm.a[1][0]
            ok = (attr_chain(g) or ("",))[-1] == geom_attr
            ctx.decide(rule, f, "the result keeps the receiver's run boundaries, the ufunc result takes the values' place", True if ok else (False if (attr_chain(g) or ("",))[-1] == values_attr else None),
                       "first constructor argument is %s" % (g,), node=r.ast, key="ctor:%s" % r.lineno, engine="E6")
    for n, c in find_calls(fa, lambda c: c.a[0].k == "attr" and c.a[0].a[1] == "_apply_binary_func"):
        ok = len(c.a[1]) == 2 and c.a[1][0].k == "star" and c.a[1][0].a[0].k == "param" and c.a[1][0].a[0].a[0] == inp and c.a[1][1].k == "param" and c.a[1][1].a[0] == ufp
        ctx.decide(rule, f, "two run-length operands are merged in their original order", True if ok else None, node=c.node, key="merge-call", engine="E4")


def merge(ctx, tk):
    f = ctx.func(RL + "_apply_binary_func")
    fa = ctx.fa(f)
    first, other, ufp = f.params[1], f.params[2], f.params[3]
    calls = find_calls(fa, lambda c: c.a[0].k == "param" and c.a[0].a[0] == ufp and len(c.a[1]) == 2)
    if len(calls) < 3:
        ctx.unknown("C16.a", f, "the merge applies the ufunc at the boundaries of both operands and at position 0", "expected three ufunc calls, found %d" % len(calls), engine="E4")
    for n, c in calls:
        r0 = {x[1] for x in value_roots(c.a[1][0]) if x[0] == "param"}
        r1 = {x[1] for x in value_roots(c.a[1][1]) if x[0] == "param"}
        ok = True if (r0 == {first} and r1 == {other}) else (False if (r0 == {other} and r1 == {first}) else None)
        ctx.decide("C16.a", f, "every ufunc call of the merge takes the first operand's value on the left and the second's on the right", ok,
                   "operands derive from (%s, %s)" % (sorted(r0), sorted(r1)), node=c.node, engine="E4")
        # the ufunc sees the operands' own values: a conversion to a common type first changes which loop numpy picks
        # (int64 with uint64 is compared through float64; np.ldexp(float, float) does not exist)
        conv = [x for a_ in c.a[1] for x in walk(a_) if x.k == "call" and ((x.a[0].k == "attr" and x.a[0].a[1] == "astype") or
                                                                           (np_call(x, {"asarray", "asanyarray", "array"}) and "dtype" in dict(x.a[2])))]
        ctx.decide("C16.a", f, "the ufunc receives the operands' run values as they are (numpy chooses the type rules)", False if conv else True,
                   "`%s` converts an operand before the ufunc sees it: mixed signed/unsigned 64-bit operands are combined through float64 and lose exactness above 2**53" % (
                       conv[0] if conv else "",), node=c.node, key="unconverted:%s" % getattr(n, "lineno", 0), engine="E4")
    # lookups: which run of X is current at the boundaries of Y
    for n in fa.cfg.stmts():
        if n.kind == "stmt" and isinstance(n.ast, ast.Assign):
            tm = fa.term(n.ast.value, n)
            if tm.k == "bin" and tm.a[0] == "-" and np_call(tm.a[1], {"searchsorted"}):
                layout.searchsorted_row_lookup(ctx, "C16.a", f, tm, n.ast, "_events", key="current-run:%s" % ast.unparse(n.ast.targets[0]))
                c = tm.a[1]
                a, b = c.a[1][0], c.a[1][1]
                ra = {x[1] for x in value_roots(a) if x[0] == "param"}
                rb = {x[1] for x in value_roots(b) if x[0] == "param"}
                ctx.decide("C16.a", f, "the current run of one operand is looked up at the inner boundaries of the other", True if (ra and rb and ra != rb) else (False if ra == rb and ra else None),
                           "searches %s in %s" % (sorted(rb), sorted(ra)), node=n.ast, key="cross:%s" % ast.unparse(n.ast.targets[0]), engine="E4")
    # equal length refusal
    sinks = [r for r in fa.cfg.returns()]

    def m(t):
        if t.k == "cmp" and t.a[0] in ("==", "!=") and all(x.k == "call" and call_name(x) == "len" for x in (t.a[1], t.a[2])):
            return ("same_length", t.a[0] == "==")
        return None
    check_guard(ctx, "C16.b", f, sinks, Formulas([m]), lambda A: A["same_length"], ["same_length"],
                "two run-length arrays are combined only after refusing unless they have the same length", fa=fa)
    rlrules.canonical_construction(ctx, "C16.b", f)
    rlrules.boundary_arguments(ctx, "C16.b")


def reductions(ctx, tk):
    f = ctx.func(RL + "sum")
    fa = ctx.fa(f)
    for r in fa.cfg.returns():
        tm = fa.term(r.ast.value, r)
        ok = None
        for x in walk(tm):
            if x.k == "bin" and x.a[0] == "*":
                ops = (x.a[1], x.a[2])
                lens = [o for o in ops if all(any(np_call(y, {"diff"}) and y.a[1] and (attr_chain(y.a[1][0]) or ("",))[-1] == "_events" for y in walk(a)) for a in alts(o))]
                vals = [o for o in ops if (attr_chain(o) or ("",))[-1] == "_values"]
                ok = True if (lens and vals) else (False if vals and not any(any(np_call(y, {"diff"}) for y in walk(o)) for o in ops) else None)
        ctx.decide("C16.d", f, "sum weights every run value by its run length (diff of the boundaries)", ok, node=r.ast, engine="E5")
    from ..rlrules import weighted_sum_dtype
    weighted_sum_dtype(ctx, "C16.d", f)
    for name, npf in (("any", "any"), ("all", "all"), ("max", "max")):
        g = ctx.func(RL + name)
        ga = ctx.fa(g)
        for r in ga.cfg.returns():
            tm = ga.term(r.ast.value, r)
            full = (np_call(tm, {npf}) and tm.a[1] and (attr_chain(tm.a[1][0]) or ("",))[-1] == "_values") or \
                (tm.k == "call" and tm.a[0].k == "attr" and tm.a[0].a[1] == npf and (attr_chain(tm.a[0].a[0]) or ("",))[-1] == "_values")
            const = all(a.k == "const" or (a.k == "call" and a.a[1] and all(y.k == "const" for y in a.a[1])) for a in alts(tm))
            extremum = any(x.k == "cmp" and any(y.k == "call" and (attr_chain(y.a[0]) or ("",))[-1] in ("min", "max", "amin", "amax") for y in (x.a[1], x.a[2])) for a in alts(tm) for x in walk(a))
            if extremum and not full:
                ctx.violated("C16.d", g, "%s is decided from the truth value of every run value" % name,
                             "`%s` decides %s() from an extremum compared with 0: with negative values the smallest value is not the zero (all([-3, 0, 4]) is False, min != 0 is True)" % (
                                 ast.unparse(r.ast), name), node=r.ast, key="extremum:" + name, engine="KB")
                continue
            ctx.decide("C16.d", g, "%s is decided from all run values on every path" % name, True if full else (False if const else None),
                       "`%s` is returned without looking at the values: adjacent runs may hold equal values (results of scalar ufuncs and concatenation are not joined)" % ast.unparse(r.ast),
                       node=r.ast, engine="E6")
    h = ctx.func("runlengtharray.histogram")
    ha = ctx.fa(h)
    for r in ha.cfg.returns():
        tm = ha.term(r.ast.value, r)
        if np_call(tm, {"histogram"}) and len(tm.a[1]) >= 5:
            w = tm.a[1][4]
            okw = all(any(np_call(y, {"diff"}) for y in walk(a)) for a in alts(w))
            okv = (attr_chain(tm.a[1][0]) or ("",))[-1] == "_values"
            ctx.decide("C16.d", h, "the histogram of the run values is weighted by the run lengths", True if (okw and okv) else (False if not okw else None),
                       "weights are %s" % (w,), node=r.ast, engine="E5")
    # every argument of the handler is forwarded to numpy's histogram
    for r in ha.cfg.returns():
        tm = ha.term(r.ast.value, r)
        if np_call(tm, {"histogram"}):
            used = {x.a[0] for x in walk(tm) if x.k == "param"}
            missing = [p_ for p_ in h.params[1:] if p_ not in used]
            ctx.decide("C16.d", h, "every argument of the histogram handler is forwarded to np.histogram", not missing,
                       "%s not forwarded: np.histogram(rla, %s=...) silently ignores it" % (missing, missing[0] if missing else ""), node=r.ast, key="forward", engine="E4")
    mn = ctx.func(RL + "mean")
    ma = ctx.fa(mn)
    for r in ma.cfg.returns():
        tm = ma.term(r.ast.value, r)
        if tm.k == "bin" and tm.a[0] == "/":
            ok = tm.a[1].k == "call" and tm.a[1].a[0].k == "attr" and tm.a[1].a[0].a[1] == "sum" and (attr_chain(tm.a[2]) or ("",))[-1] == "size"
            ctx.decide("C16.d", mn, "mean is the weighted sum divided by the number of elements", True if ok else None, node=r.ast, engine="E5")
            # numpy's mean of integers accumulates in float64; the run-length sum multiplies and adds in the value dtype
            from ..guards import reachable_under
            subj = lambda t: t.k == "attr" and t.a[1] == "dtype"
            conv = any(x.k == "call" and x.a[0].k == "attr" and x.a[0].a[1] == "astype" for x in walk(tm))
            for kind in ("signed", "unsigned"):
                reach = reachable_under(ma, kind, subj)
                direct = r.id in reach and not conv
                from ..guards import facts_at as _facts, dtype_truth
                opaque = any(dtype_truth(t, subj) is None and any(x.k == "attr" and x.a[1] in ("dtype", "kind", "itemsize") for x in walk(t)) for t, _tr, _ in _facts(ma, r))
                ctx.decide("C16.d", mn, "the mean of %s integer values is accumulated in floating point, as numpy does" % kind, (None if opaque else False) if direct else True,
                           "`%s` is reached for %s integer values: the length-weighted sum is accumulated in the integer dtype and wraps where np.mean accumulates in float64" % (
                               ast.unparse(r.ast), kind), node=r.ast, key="float-accumulator:" + kind, engine="E1")


def concatenate(ctx, tk):
    f = ctx.func("runlengtharray.concatenate")
    fa = ctx.fa(f)
    p = f.params[0]
    for r in fa.cfg.returns():
        tm = fa.term(r.ast.value, r)
        if not (tm.k == "call" and len(tm.a[1]) == 2):
            continue
        ev, va = tm.a[1]
        # offsets = [0] ++ cumsum(sizes)
        offs = None
        for x in walk(ev):
            if x.k == "elem" and False:
                pass
        comps = [c for c in walk(ev) if c.k == "comp"]
        what = "each operand's run starts are shifted by the total size of the operands before it"
        ok = None
        zc = [c_ for c_ in comps if c_.a[2] and c_.a[2][0].k == "call" and call_name(c_.a[2][0]) == "zip"]
        if zc or comps:
            c = (zc or comps)[0]
            it = c.a[2][0]
            if it.k == "call" and call_name(it) == "zip" and len(it.a[1]) == 2:
                arrs, offs = it.a[1]
                alg = layout.SeqAlg(lambda t: t.k == "comp" and t.a[1].k == "attr" and t.a[1].a[1] == "size" and t.a[2][0].k == "param" and t.a[2][0].a[0] == p)
                v = alg.ev(offs)
                ok_off = None if v is None else (tuple(v) == layout.OFFSETS)
                if v is None:
                    # not evaluable in the sequence algebra: offsets that involve no running sum at all cannot be prefix sums
                    running = any((x.k == "call" and (attr_chain(x.a[0]) or ("",))[-1] in ("cumsum", "accumulate", "cumulative_sum")) for x in walk(offs))
                    loops = any(n_.kind == "for" for n_ in fa.cfg.nodes if fa.cfg.is_reachable(n_))
                    if not running and not loops:
                        ok_off = False
                ctx.decide("C16.e", f, "offsets are the exclusive prefix sums of the operand sizes ([0] ++ cumsum(sizes))", ok_off,
                           ("offsets evaluate to %s" % layout.show_seq(v)) if v is not None else
                           "`%s` contains no running sum: from the third operand on the pieces are shifted by one operand's size instead of the total before them" % (offs,),
                           node=r.ast, key="offsets", engine="E5")
                ok = arrs.k == "param" and arrs.a[0] == p
                elt = c.a[1]
                oke = elt.k == "bin" and elt.a[0] == "+" and any(y.k == "attr" and y.a[1] in ("starts", "_starts") for y in (elt.a[1], elt.a[2]))
                ctx.decide("C16.e", f, what, True if (ok and oke) else None, node=r.ast, key="shift", engine="E5")
        last = any(x.k == "sub" and x.a[1].k == "slice" and is_const(x.a[1].a[0], -1) for x in walk(ev))
        ctx.decide("C16.e", f, "the total size is appended as the final boundary", True if last else None, node=r.ast, key="final", engine="E5")
        vc = [c for c in walk(va) if c.k == "comp"]
        okv = bool(vc) and vc[0].a[2][0].k == "param" and vc[0].a[2][0].a[0] == p and not vc[0].a[3] and vc[0].a[1].k == "attr" and vc[0].a[1].a[1] in ("values", "_values")
        ctx.decide("C16.e", f, "values are concatenated from the same operand list, in order, unfiltered", True if okv else (False if vc and vc[0].a[3] else None), node=r.ast, key="values", engine="E6")


def registry(ctx, tk):
    mod = ctx.program.module("runlengtharray")
    node = mod.assigns.get("HANDLED_FUNCTIONS")
    cls = ctx.program.cls("runlengtharray.RunLengthArray")
    if isinstance(node, ast.Dict):
        for k, v in zip(node.keys, node.values):
            if isinstance(v, ast.Call) and v.args and isinstance(v.args[0], ast.Constant):
                nm = v.args[0].value
                kn = k.attr if isinstance(k, ast.Attribute) else None
                ctx.decide("C16.f", "runlengtharray.get_ra_func", "np.%s dispatches to RunLengthArray.%s" % (kn, nm), (cls.lookup(nm) is not None) and kn == nm,
                           "registered method %r for np.%s" % (nm, kn), node=v, key="reg:%s" % kn, engine="E6")
