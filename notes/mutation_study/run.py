import json, os, random, shutil, subprocess, sys, pathlib, time
from concurrent.futures import ProcessPoolExecutor
MUT = json.load(open("mutants.json"))
random.seed(1)
sel = [m for m in MUT if m["cat"]!="CONST"] + random.sample([m for m in MUT if m["cat"]=="CONST"], 250)
W = 16
def setup(i):
    d = pathlib.Path(f"/tmp/mut/w{i}")
    if d.exists(): shutil.rmtree(d)
    d.mkdir()
    shutil.copytree("/repo/npstructures", d/"npstructures", ignore=shutil.ignore_patterns("__pycache__"))
    shutil.copytree("/repo/tests", d/"tests", ignore=shutil.ignore_patterns("__pycache__"))
    for f in ("conftest.py","setup.cfg"): shutil.copy("/repo/"+f, d/f)
    return d
def work(args):
    i, chunk = args
    d = setup(i)
    res=[]
    env = dict(os.environ, PYTHONPATH=str(d), PYTHONDONTWRITEBYTECODE="1")
    for m in chunk:
        f = d/"npstructures"/m["file"]
        orig = f.read_text()
        f.write_text(m["src"])
        try:
            p = subprocess.run(["/venv/bin/python","-m","pytest","-x","-q","-p","no:cacheprovider","--timeout=60",
                                "--deselect","tests/test_raggedarray.py::test_two_indexing_row_n","tests"],
                               cwd=d, env=env, capture_output=True, text=True, timeout=300)
            rc = p.returncode
        except subprocess.TimeoutExpired:
            rc = 99
        f.write_text(orig)
        res.append((m["id"], rc))
    shutil.rmtree(d)
    return res
if __name__=="__main__":
    # sanity: baseline passes
    d = setup(99)
    env = dict(os.environ, PYTHONPATH=str(d), PYTHONDONTWRITEBYTECODE="1")
    p = subprocess.run(["/venv/bin/python","-m","pytest","-x","-q","-p","no:cacheprovider","--deselect","tests/test_raggedarray.py::test_two_indexing_row_n","tests"], cwd=d, env=env, capture_output=True, text=True)
    print("baseline rc", p.returncode, p.stdout.strip().splitlines()[-1])
    p = subprocess.run(["/venv/bin/python","-c","import npstructures;print(npstructures.__file__)"], cwd=d, env=env, capture_output=True, text=True); print(p.stdout)
    shutil.rmtree(d)
    random.shuffle(sel)
    chunks = [(i, sel[i::W]) for i in range(W)]
    t=time.time()
    results={}
    with ProcessPoolExecutor(W) as ex:
        for r in ex.map(work, chunks):
            for mid, rc in r: results[mid]=rc
    print("elapsed", time.time()-t, "n", len(results))
    json.dump(results, open("results.json","w"))
