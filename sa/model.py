"""E0 - program model of /repo/npstructures: modules, classes (MRO), functions
(including nested ones), imports, module-level tables.  Pure ``ast``; nothing
from the repository is imported or executed."""
import ast
import os


class AnalysisError(Exception):
    """An anchor the rules rely on has vanished, or the tree cannot be parsed.
    Reported as ANALYSIS-ERROR (exit 2): never a silent pass, never a VIOLATION."""


PKG = "npstructures"


class Func:
    def __init__(self, module, node, cls=None, parent=None):
        self.module = module
        self.node = node
        self.cls = cls
        self.parent = parent            # enclosing Func for nested functions
        self.name = node.name
        self.nested = {}                # name -> Func
        if parent is not None:
            self.qual = parent.qual + "." + node.name
        elif cls is not None:
            self.qual = cls.qual + "." + node.name
        else:
            self.qual = module.short + "." + node.name
        self.decorators = node.decorator_list
        self.deco_names = [_deco_name(d) for d in node.decorator_list]
        self.is_classmethod = "classmethod" in self.deco_names
        self.is_staticmethod = "staticmethod" in self.deco_names
        self.is_property = "property" in self.deco_names
        a = node.args
        self.posonly = [x.arg for x in a.posonlyargs]
        self.params = [x.arg for x in a.posonlyargs + a.args]
        self.kwonly = [x.arg for x in a.kwonlyargs]
        self.vararg = a.vararg.arg if a.vararg else None
        self.kwarg = a.kwarg.arg if a.kwarg else None
        nd = len(a.defaults)
        self.defaults = {}
        for p, d in zip(self.params[len(self.params) - nd:], a.defaults):
            self.defaults[p] = d
        for p, d in zip(self.kwonly, a.kw_defaults):
            if d is not None:
                self.defaults[p] = d

    @property
    def file(self):
        return self.module.relpath

    @property
    def lineno(self):
        return self.node.lineno

    def all_params(self):
        r = list(self.params) + list(self.kwonly)
        if self.vararg:
            r.append(self.vararg)
        if self.kwarg:
            r.append(self.kwarg)
        return r

    @property
    def self_name(self):
        """name of the receiver parameter (self / cls) or None"""
        if self.cls is None or self.is_staticmethod or self.parent is not None:
            return None
        return self.params[0] if self.params else None

    def __repr__(self):
        return "<Func %s>" % self.qual


def _deco_name(d):
    if isinstance(d, ast.Call):
        d = d.func
    if isinstance(d, ast.Name):
        return d.id
    if isinstance(d, ast.Attribute):
        return d.attr
    return "?"


class Class:
    def __init__(self, module, node, parent_func=None):
        self.module = module
        self.node = node
        self.name = node.name
        self.parent_func = parent_func
        self.qual = (parent_func.qual + "." if parent_func else module.short + ".") + node.name
        self.methods = {}
        self.attrs = {}                 # class-level assignments  name -> ast value
        self.base_exprs = node.bases
        self.bases = []                 # resolved Class objects (repo classes only)
        self.ext_bases = []             # dotted names of external bases
        self.decorators = [_deco_name(d) for d in node.decorator_list]
        self.fields = []                # annotated dataclass-like fields (name, default ast or None)

    def mro(self):
        # C3 is overkill here; depth-first left-to-right without duplicates
        # (keeps the last occurrence like C3 for the diamond-free hierarchies in the repo)
        out = []

        def walk(c):
            if c in out:
                return
            out.append(c)
            for b in c.bases:
                walk(b)
        walk(self)
        return out

    def lookup(self, name):
        for c in self.mro():
            if name in c.methods:
                return c.methods[name]
        return None

    def lookup_after(self, owner, name):
        """super() resolution: first definition of `name` after `owner` in self's MRO"""
        m = self.mro()
        if owner in m:
            m = m[m.index(owner) + 1:]
        for c in m:
            if name in c.methods:
                return c.methods[name]
        return None

    def has_attr_def(self, name):
        for c in self.mro():
            if name in c.methods or name in c.attrs or any(f[0] == name for f in c.fields):
                return True
        return False

    def __repr__(self):
        return "<Class %s>" % self.qual


class Module:
    def __init__(self, root, relpath):
        self.relpath = relpath
        self.path = os.path.join(root, relpath)
        with open(self.path, encoding="utf-8") as fh:
            self.source = fh.read()
        try:
            self.tree = ast.parse(self.source, filename=relpath)
        except SyntaxError as e:
            raise AnalysisError("cannot parse %s: %s" % (relpath, e))
        self.lines = self.source.splitlines()
        dotted = relpath[:-3].replace("/", ".")
        if dotted.endswith(".__init__"):
            dotted = dotted[:-9]
            self.is_pkg = True
        else:
            self.is_pkg = False
        self.dotted = dotted                       # npstructures.raggedarray.base
        self.short = dotted[len(PKG) + 1:] if dotted != PKG else ""   # raggedarray.base
        if self.short == "":
            self.short = "__init__"
        self.functions = {}
        self.classes = {}
        self.assigns = {}       # module-level  name -> ast value (last assignment)
        self.imports = {}       # local name -> ("module", dotted) | ("symbol", dotted_module, name)

    def pkg_of(self):
        return self.dotted if self.is_pkg else self.dotted.rsplit(".", 1)[0]


class Program:
    def __init__(self, root):
        self.root = os.path.abspath(root)
        pkgdir = os.path.join(self.root, PKG)
        if not os.path.isdir(pkgdir):
            raise AnalysisError("no package directory %s" % pkgdir)
        self.modules = {}
        for dp, dn, fn in os.walk(pkgdir):
            dn[:] = sorted(d for d in dn if d != "__pycache__")
            for f in sorted(fn):
                if f.endswith(".py"):
                    rel = os.path.relpath(os.path.join(dp, f), self.root)
                    m = Module(self.root, rel)
                    self.modules[m.dotted] = m
        self.funcs = {}
        self.classes = {}
        for m in self.modules.values():
            self._index_module(m)
        for c in list(self.classes.values()):
            self._resolve_bases(c)

    # ------------------------------------------------------------------
    def _index_module(self, m):
        for st in m.tree.body:
            self._index_stmt(m, st, toplevel=True)

    def _index_stmt(self, m, st, toplevel):
        if isinstance(st, (ast.FunctionDef, ast.AsyncFunctionDef)):
            f = Func(m, st)
            m.functions[st.name] = f       # later definitions shadow earlier ones (hashtable.zeros_like)
            self._register_func(f)
        elif isinstance(st, ast.ClassDef):
            c = Class(m, st)
            m.classes[st.name] = c
            self._index_class(c)
        elif isinstance(st, ast.Assign):
            for t in st.targets:
                if isinstance(t, ast.Name):
                    m.assigns[t.id] = st.value
        elif isinstance(st, ast.AnnAssign) and isinstance(st.target, ast.Name) and st.value is not None:
            m.assigns[st.target.id] = st.value
        elif isinstance(st, ast.Import):
            for a in st.names:
                m.imports[a.asname or a.name.split(".")[0]] = ("module", a.name if a.asname else a.name.split(".")[0])
        elif isinstance(st, ast.ImportFrom):
            base = self._abs_module(m, st.module, st.level)
            for a in st.names:
                m.imports[a.asname or a.name] = ("symbol", base, a.name)
        elif isinstance(st, (ast.If, ast.Try)):
            for sub in ast.iter_child_nodes(st):
                if isinstance(sub, ast.stmt):
                    self._index_stmt(m, sub, toplevel)

    def _abs_module(self, m, name, level):
        if level == 0:
            return name or ""
        base = m.pkg_of().split(".")
        if level > 1:
            base = base[:-(level - 1)]
        if name:
            base = base + name.split(".")
        return ".".join(base)

    def _register_func(self, f):
        self.funcs[f.qual] = f
        self._index_nested(f)

    def _index_nested(self, f):
        for st in _body_stmts(f.node):
            if isinstance(st, (ast.FunctionDef, ast.AsyncFunctionDef)):
                g = Func(f.module, st, cls=None, parent=f)
                f.nested[st.name] = g
                self._register_func(g)
            elif isinstance(st, ast.ClassDef):
                c = Class(f.module, st, parent_func=f)
                f.nested[st.name] = c
                self._index_class(c)

    def _index_class(self, c):
        self.classes[c.qual] = c
        for st in c.node.body:
            if isinstance(st, (ast.FunctionDef, ast.AsyncFunctionDef)):
                f = Func(c.module, st, cls=c)
                c.methods[st.name] = f
                self._register_func(f)
            elif isinstance(st, ast.Assign):
                for t in st.targets:
                    if isinstance(t, ast.Name):
                        c.attrs[t.id] = st.value
                    elif isinstance(t, ast.Tuple):
                        for e in t.elts:
                            if isinstance(e, ast.Name):
                                c.attrs[e.id] = st.value
            elif isinstance(st, ast.AnnAssign) and isinstance(st.target, ast.Name):
                c.fields.append((st.target.id, st.value))
                if st.value is not None:
                    c.attrs[st.target.id] = st.value

    def _resolve_bases(self, c):
        for b in c.base_exprs:
            r = self.resolve_expr_static(c.module, b, c.parent_func)
            if isinstance(r, Class):
                c.bases.append(r)
            else:
                c.ext_bases.append(dotted_name(b) or "?")

    # ------------------------------------------------------------------
    def resolve_global(self, module, name, _seen=None):
        """Resolve a module-level name to Func | Class | ("const", module, ast) |
        ("ext", dotted) | None."""
        _seen = _seen or set()
        key = (module.dotted, name)
        if key in _seen:
            return None
        _seen.add(key)
        if name in module.classes:
            return module.classes[name]
        if name in module.functions:
            return module.functions[name]
        if name in module.assigns:
            return ("const", module, module.assigns[name])
        if name in module.imports:
            imp = module.imports[name]
            if imp[0] == "module":
                if imp[1] in self.modules:
                    return ("module", self.modules[imp[1]])
                return ("ext", imp[1])
            _, mod, sym = imp
            if mod in self.modules:
                target = self.modules[mod]
                r = self.resolve_global(target, sym, _seen)
                if r is not None:
                    return r
                sub = mod + "." + sym
                if sub in self.modules:
                    return ("module", self.modules[sub])
                return None
            # "from npstructures import RaggedArray" style absolute import of the package
            return ("ext", mod + "." + sym)
        return None

    def resolve_expr_static(self, module, expr, func=None):
        """Resolve Name / dotted Attribute expressions that denote repo symbols."""
        if isinstance(expr, ast.Name):
            f = func
            while f is not None:
                if expr.id in f.nested:
                    return f.nested[expr.id]
                f = f.parent
            return self.resolve_global(module, expr.id)
        if isinstance(expr, ast.Attribute):
            base = self.resolve_expr_static(module, expr.value, func)
            if isinstance(base, tuple) and base[0] == "module":
                return self.resolve_global(base[1], expr.attr)
            if isinstance(base, tuple) and base[0] == "ext":
                return ("ext", base[1] + "." + expr.attr)
            if isinstance(base, Class):
                m = base.lookup(expr.attr)
                if m is not None:
                    return m
        return None

    # ------------------------------------------------------------------
    def func(self, qual):
        f = self.funcs.get(qual)
        if f is None and "." in qual:
            # a method named through a class that only inherits it (e.g. after a pull-up into the base class):
            # resolve it the way Python does, along the MRO
            cq, name = qual.rsplit(".", 1)
            c = self.classes.get(cq)
            if c is not None:
                f = c.lookup(name)
        if f is None:
            raise AnalysisError("anchor function %s not found in %s" % (qual, self.root))
        return f

    def cls(self, qual):
        c = self.classes.get(qual)
        if c is None:
            raise AnalysisError("anchor class %s not found in %s" % (qual, self.root))
        return c

    def maybe_func(self, qual):
        return self.funcs.get(qual)

    def subclasses(self, c):
        return [k for k in self.classes.values() if c in k.mro()]

    def const(self, modshort, name):
        for m in self.modules.values():
            if m.short == modshort:
                if name not in m.assigns:
                    raise AnalysisError("anchor table %s.%s not found" % (modshort, name))
                return m, m.assigns[name]
        raise AnalysisError("anchor module %s not found" % modshort)

    def module(self, modshort):
        for m in self.modules.values():
            if m.short == modshort:
                return m
        raise AnalysisError("anchor module %s not found" % modshort)


def _body_stmts(node):
    """all statements in a function body, not descending into nested defs/classes"""
    out = []

    def walk(stmts):
        for st in stmts:
            out.append(st)
            if isinstance(st, (ast.FunctionDef, ast.AsyncFunctionDef, ast.ClassDef)):
                continue
            for fld in ("body", "orelse", "finalbody"):
                sub = getattr(st, fld, None)
                if isinstance(sub, list):
                    walk(sub)
            for h in getattr(st, "handlers", []) or []:
                walk(h.body)
            if isinstance(st, ast.Match):
                for c in st.cases:
                    walk(c.body)
    walk(node.body)
    return out


def dotted_name(e):
    if isinstance(e, ast.Name):
        return e.id
    if isinstance(e, ast.Attribute):
        b = dotted_name(e.value)
        return b + "." + e.attr if b else None
    return None


def src(node):
    try:
        return ast.unparse(node)
    except Exception:
        return "<?>"
