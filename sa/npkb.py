"""numpy knowledge base (trusted base; source: numpy reference documentation).

One table per question the engines ask about a numpy callable / ndarray method.
The thorough tier audits the freshness part against the installed numpy with
numpy-only probes (tools/kb_audit.py) - that executes numpy, never the repository.
"""

NP_NAMES = ("np", "_np", "numpy")

# np.<f>(...) whose result never shares memory with an argument
NP_FRESH = {
    "zeros", "ones", "empty", "full", "zeros_like", "ones_like", "empty_like", "full_like", "arange", "array",
    "concatenate", "hstack", "vstack", "stack", "append", "insert", "delete", "pad", "tile", "repeat", "copy",
    "cumsum", "cumprod", "diff", "flatnonzero", "nonzero", "where", "argsort", "lexsort", "searchsorted", "sort",
    "bincount", "unique", "minimum", "maximum", "abs", "sign", "sum", "prod", "all", "any", "max", "min", "mean",
    "isin", "logical_and", "logical_or", "logical_not", "logical_xor", "bitwise_xor", "bitwise_and", "bitwise_or",
    "add", "subtract", "multiply", "result_type", "issubdtype", "dtype", "histogram", "clip", "argmax", "argmin",
    "fromiter", "linspace", "eye", "identity", "sqrt", "floor", "ceil", "mod", "power", "equal", "not_equal",
    "amax", "amin", "count_nonzero", "array_equal", "allclose", "size", "ndim", "shape", "int64", "int32", "uint64",
    "uint8", "uint16", "uint32", "float64", "float32", "bool_", "load", "take",
}
# np.<f>(a, ...) whose result may be (a view of) argument 0
NP_ALIAS0 = {
    "asarray", "asanyarray", "atleast_1d", "atleast_2d", "ravel", "reshape", "squeeze", "transpose",
    "ascontiguousarray", "broadcast_to", "swapaxes", "expand_dims", "moveaxis", "flip", "real", "imag",
}
# ndarray methods
M_FRESH = {
    "copy", "astype", "tolist", "item", "sum", "prod", "max", "min", "mean", "any", "all", "cumsum", "cumprod",
    "nonzero", "argsort", "argmax", "argmin", "flatten", "tobytes", "repeat", "take", "round", "dot", "std", "var",
    "searchsorted", "clip", "conj",
}
M_ALIAS = {"view", "ravel", "reshape", "squeeze", "swapaxes", "transpose", "diagonal", "byteswap", "newbyteorder"}
# attributes that are views
A_ALIAS = {"T", "real", "imag", "flat", "base"}
A_FRESH = {"shape", "size", "dtype", "ndim", "itemsize", "nbytes", "strides", "identity"}

# ndarray / ufunc methods that write their receiver / an argument in place
M_INPLACE = {"sort", "fill", "put", "itemset", "partition", "resize", "setfield", "setflags"}
UFUNC_INPLACE_ARG0 = {"at"}                     # np.add.at(target, idx, v) writes target
NP_INPLACE_ARG0 = {"put", "place", "putmask", "copyto", "fill_diagonal", "put_along_axis"}

# ufunc / function results: method names of ufunc objects that return fresh arrays unless out= is given
UFUNC_METHODS_FRESH = {"reduce", "accumulate", "reduceat", "outer"}

UFUNC_NAMES = {
    "add", "subtract", "multiply", "divide", "true_divide", "floor_divide", "mod", "power", "negative", "abs",
    "absolute", "sign", "maximum", "minimum", "logical_and", "logical_or", "logical_xor", "logical_not",
    "bitwise_and", "bitwise_or", "bitwise_xor", "invert", "left_shift", "right_shift", "equal", "not_equal",
    "less", "less_equal", "greater", "greater_equal", "sqrt", "exp", "log", "floor", "ceil", "isnan",
}

# numpy's definition of the named reductions (numpy reference: np.sum = np.add.reduce, ...)
REDUCTION_UFUNC = {"sum": "add", "prod": "multiply", "all": "logical_and", "any": "logical_or",
                   "max": "maximum", "min": "minimum"}

# item sizes (bytes) of fixed-width dtypes, for reinterpretation tables
ITEMSIZE = {"bool": 1, "bool_": 1, "int8": 1, "uint8": 1, "int16": 2, "uint16": 2, "float16": 2, "int32": 4,
            "uint32": 4, "float32": 4, "int64": 8, "uint64": 8, "float64": 8, "uint128": 16, "float128": 16,
            "int": 8, "float": 8}
UNSIGNED = {"uint8", "uint16", "uint32", "uint64", "uint128"}

# dtype classes used by the dtype-case analysis: which abstract scalar kinds satisfy np.issubdtype(d, K)
DTYPE_KINDS = ("bool", "signed", "unsigned", "floating")
ISSUBDTYPE = {
    "bool": {"bool"}, "bool_": {"bool"},
    "integer": {"signed", "unsigned"}, "signedinteger": {"signed"}, "unsignedinteger": {"unsigned"},
    "floating": {"floating"}, "inexact": {"floating"}, "number": {"signed", "unsigned", "floating"},
    "generic": {"bool", "signed", "unsigned", "floating"},
    "int": {"signed"}, "float": {"floating"},
    "int8": {"signed"}, "int16": {"signed"}, "int32": {"signed"}, "int64": {"signed"},
    "uint8": {"unsigned"}, "uint16": {"unsigned"}, "uint32": {"unsigned"}, "uint64": {"unsigned"},
    "float16": {"floating"}, "float32": {"floating"}, "float64": {"floating"},
}


def index_kind(t):
    """'basic' (result is a view), 'fancy' (result is a copy), 'scalar' or None (unknown)
    for the index term of a subscript on an ndarray"""
    from .terms import alts
    kinds = set()
    for a in alts(t):
        kinds.add(_index_kind1(a))
    if kinds == {"basic"}:
        return "basic"
    if "basic" in kinds:
        return "maybe-basic"
    if kinds <= {"fancy"}:
        return "fancy"
    return None


def _index_kind1(t):
    k = t.k
    if k == "slice":
        return "basic"
    if k == "const":
        v = t.a[0]
        if v is None or v is Ellipsis or (isinstance(v, int) and not isinstance(v, bool)):
            return "basic"
        return None
    if k == "tuple":
        ks = [_index_kind1(x) for x in t.a[0]]
        if all(x == "basic" for x in ks):
            return "basic"
        if any(x == "fancy" for x in ks):
            return "fancy"
        return None
    if k == "attr" and t.a[1] == "newaxis":
        return "basic"
    if k == "call":
        from .terms import attr_chain
        c = attr_chain(t.a[0])
        if c and c[0] in NP_NAMES and len(c) == 2:
            if c[1] in ("asarray", "asanyarray", "array", "flatnonzero", "arange", "argsort", "lexsort", "where",
                        "minimum", "maximum", "searchsorted", "insert", "cumsum", "nonzero", "zeros", "ones",
                        "full", "concatenate", "append", "unique", "atleast_1d", "abs", "delete"):
                return "fancy"
        if c and c[0] == "slice":
            return "basic"
        if t.a[0].k == "global" and t.a[0].a[0] == "slice":
            return "basic"
        if t.a[0].k == "global" and t.a[0].a[0] == "int":
            return "basic"
        if t.a[0].k == "attr" and t.a[0].a[1] in ("ravel", "astype", "nonzero", "flatten"):
            return _index_kind1(t.a[0].a[0]) if t.a[0].a[1] == "ravel" else "fancy"
        return None
    if k in ("bin", "cmp", "un"):
        # arithmetic / comparison on arrays gives arrays; on Python ints gives ints: unknown unless an
        # operand is known to be an array
        for x in t.a[1:]:
            if hasattr(x, "k") and _index_kind1(x) == "fancy":
                return "fancy"
        if k == "cmp":
            return "fancy"      # boolean mask (or a bool scalar, which also copies)
        return None
    if k == "list" or k == "comp":
        return "fancy"
    if k == "sub":
        return "fancy" if _index_kind1(t.a[0]) == "fancy" and _index_kind1(t.a[1]) in ("basic", "fancy") else None
    return None
