"""E2 - view-coherence typestate.

A RaggedArray-like object is *mat* when its `_shape` describes its own flat buffer, and possibly a
lazy view (bottom) otherwise.  Forward must-analysis over the CFG with Python's evaluation order inside
each statement.  Tracked objects are access paths (`self`, `ra`, `input`, `rows._indices`, ...).

Products:
  shape_state[id(Attribute node  P._shape)] -> bool   (was P mat when that read was evaluated)
  call_state[id(Call node)] -> frozenset(mat paths just before the call happens)
  ret_state[id(Return node)] -> frozenset(mat paths)
"""
import ast
from .model import Func, Class
from .terms import T, alts, walk, attr_chain

LI = {"lengths", "n_rows", "view", "view_rows", "col_slice", "get_flat_indices", "_get_flat_indices", "get_shape",
      "_dtype", "__class__", "empty_rows_removed", "empty_removed", "col_step", "_step"}
NEUTRAL_CALLS = {"isinstance", "hasattr", "type", "repr", "str", "id", "print", "issubclass"}
BASE_MATERIALISERS = set()    # historical: materialisers are inferred from structure, see TypeState.materialisers


def path_of(e):
    """'self', 'rows._indices' for Name / dotted Attribute chains; None otherwise"""
    if isinstance(e, ast.Name):
        return e.id
    if isinstance(e, ast.Attribute):
        b = path_of(e.value)
        return b + "." + e.attr if b else None
    return None


def eval_order(e):
    """yield (node, conditional) for every sub-expression in Python evaluation order (post-order)"""
    yield from _eo(e, False)


def _eo(e, cond):
    if e is None:
        return
    if isinstance(e, ast.BoolOp):
        first = True
        for v in e.values:
            yield from _eo(v, cond or not first)
            first = False
        yield (e, cond)
        return
    if isinstance(e, ast.IfExp):
        yield from _eo(e.test, cond)
        yield from _eo(e.body, True)
        yield from _eo(e.orelse, True)
        yield (e, cond)
        return
    if isinstance(e, (ast.ListComp, ast.SetComp, ast.GeneratorExp, ast.DictComp)):
        # first iterable is evaluated eagerly; the rest conditionally / repeatedly
        gens = e.generators
        yield from _eo(gens[0].iter, cond)
        for i, g in enumerate(gens):
            if i > 0:
                yield from _eo(g.iter, True)
            for c in g.ifs:
                yield from _eo(c, True)
        if isinstance(e, ast.DictComp):
            yield from _eo(e.key, True)
            yield from _eo(e.value, True)
        else:
            yield from _eo(e.elt, True)
        yield (e, cond)
        return
    if isinstance(e, ast.Lambda):
        yield (e, cond)         # body not evaluated here
        return
    if isinstance(e, ast.Call):
        yield from _eo(e.func, cond)
        for a in e.args:
            yield from _eo(a, cond)
        for k in e.keywords:
            yield from _eo(k.value, cond)
        yield (e, cond)
        return
    if isinstance(e, ast.Compare):
        yield from _eo(e.left, cond)
        for i, c in enumerate(e.comparators):
            yield from _eo(c, cond or i > 0)
        yield (e, cond)
        return
    if isinstance(e, ast.Dict):
        for k, v in zip(e.keys, e.values):
            if k is not None:
                yield from _eo(k, cond)
            yield from _eo(v, cond)
        yield (e, cond)
        return
    if isinstance(e, ast.NamedExpr):
        yield from _eo(e.value, cond)
        yield (e, cond)
        return
    for ch in ast.iter_child_nodes(e):
        if isinstance(ch, ast.expr):
            yield from _eo(ch, cond)
        elif isinstance(ch, ast.keyword):
            yield from _eo(ch.value, cond)
        elif isinstance(ch, ast.comprehension):
            pass
    yield (e, cond)


def _class_names(t, module, depth=0):
    """class names mentioned by the second argument of isinstance(); a module-level constant naming a tuple of classes
    (`_LAZY_VIEWS = (RaggedView, RaggedView2)`) is expanded"""
    out = set()
    for x in walk(t):
        if x.k == "global":
            v = module.assigns.get(x.a[0]) if module is not None else None
            if v is not None and isinstance(v, (ast.Tuple, ast.List)) and depth < 3 and all(isinstance(e, (ast.Name, ast.Attribute)) for e in v.elts):
                for e in v.elts:
                    out.add(e.id if isinstance(e, ast.Name) else e.attr)
            else:
                out.add(x.a[0])
    return out


class TypeState:
    def __init__(self, tk):
        self.tk = tk
        self.ctx = tk.ctx
        self.R = tk.R
        self._mat_methods = None
        self._res = {}
        self._retmat = {}
        self._retstack = set()
        self._cur_module = None

    # -- which methods leave their receiver materialised on every path ----------
    def materialisers(self):
        """methods of the RaggedBase hierarchy after which `self` is materialised on every normal exit.
        Structure based (no method names): a *materialising point* is a statement that stores `self.is_contigous = True`
        (the function must also store the buffer and the geometry) or a call `self.m()` of a method already known to
        materialise.  A path may bypass the materialising points only through a *licence*: a branch taken because
        `self.is_contigous` is true, or because the geometry is not a lazy view class (such arrays are materialised by
        construction)."""
        if self._mat_methods is not None:
            return self._mat_methods
        p = self.ctx.program
        mats = set()
        cands = []
        for q, f in p.funcs.items():
            if f.cls is None or not f.params or f.is_staticmethod or f.is_classmethod or f.parent:
                continue
            if not any(c.qual == "raggedarray.base.RaggedBase" for c in f.cls.mro()):
                continue
            if f.name in ("__init__", "__new__"):
                continue
            cands.append((q, f))
        changed = True
        while changed:
            changed = False
            for q, f in cands:
                if q in mats:
                    continue
                if self._leaves_materialised(f, mats):
                    mats.add(q)
                    changed = True
        self._mat_methods = mats
        return mats

    def core_materialisers(self):
        """the functions that themselves replace buffer, geometry and flag (today: RaggedBase._flatten_myself)"""
        out = []
        for q in sorted(self.materialisers()):
            f = self.ctx.program.funcs[q]
            if self._own_points(f):
                out.append(f)
        return out

    def _self_stores(self, f):
        fa = self.ctx.fa(f)
        stores = {}
        for n in fa.cfg.stmts():
            if n.kind == "stmt" and isinstance(n.ast, ast.Assign) and fa.cfg.is_reachable(n):
                tgs = []
                for tg in n.ast.targets:
                    tgs += list(tg.elts) if isinstance(tg, (ast.Tuple, ast.List)) else [tg]
                for tg in tgs:
                    if isinstance(tg, ast.Attribute) and isinstance(tg.value, ast.Name) and tg.value.id == f.params[0]:
                        stores.setdefault(tg.attr, []).append(n)
        return stores

    def _own_points(self, f):
        """statements of f that set is_contigous = True, provided f also stores the buffer and the geometry"""
        stores = self._self_stores(f)
        if not all(k in stores for k in ("__data", "_shape", "is_contigous")):
            return []
        return [n for n in stores["is_contigous"] if isinstance(n.ast.value, ast.Constant) and n.ast.value.value is True]

    def _licence(self, t, selfn):
        """'T' / 'F': the truth value of condition t under which self is certainly materialised already; None otherwise"""
        if t.k == "un" and t.a[0] == "not":
            r = self._licence(t.a[1], selfn)
            return {"T": "F", "F": "T"}.get(r)
        if attr_chain(t) == (selfn, "is_contigous"):
            return "T"
        if t.k == "call" and t.a[0].k == "global" and t.a[0].a[0] == "isinstance" and len(t.a[1]) == 2:
            subj = t.a[1][0]
            names = _class_names(t.a[1][1], self._cur_module)
            if any(attr_chain(a) == (selfn, "_shape") for a in alts(subj)) and names and names <= {"RaggedView", "RaggedView2"}:
                return "F"
            return None
        if t.k == "bool":
            rs = [self._licence(x, selfn) for x in t.a[1]]
            if t.a[0] == "or" and all(r == "T" for r in rs):
                return "T"
            if t.a[0] == "and" and all(r == "F" for r in rs):
                return "F"
        return None

    def _leaves_materialised(self, f, mats):
        fa = self.ctx.fa(f)
        selfn = f.params[0]
        self._cur_module = f.module
        points = set(n.id for n in self._own_points(f))
        for n in fa.cfg.nodes:
            if n.kind != "stmt" or not fa.cfg.is_reachable(n) or n.ast is None:
                continue
            v = _stmt_value(n.ast)
            if v is None:
                continue
            for sub, cond in eval_order(v):
                if cond or not isinstance(sub, ast.Call) or not isinstance(sub.func, ast.Attribute):
                    continue
                if isinstance(sub.func.value, ast.Name) and sub.func.value.id == selfn:
                    tg = f.cls.lookup(sub.func.attr)
                    if tg is not None and tg.qual in mats:
                        points.add(n.id)
                        break
        if not points:
            return False
        # is the normal exit reachable from the entry without a materialising point and without a licence?
        seen = set()
        stack = [fa.cfg.entry]
        while stack:
            n = stack.pop()
            if n.id in seen or n.id in points:
                continue
            seen.add(n.id)
            if n is fa.cfg.exit:
                return False
            if n.kind == "test":
                lic = self._licence(fa.term(n.ast, n), selfn)
                for e in n.succ:
                    if e.kind == "edge" and lic is not None and e.info[1] == (lic == "T"):
                        continue            # licensed edge: already materialised
                    stack.append(e)
                continue
            stack.extend(n.succ)
        return True

    def is_materialiser_call(self, call, fa):
        """call node `P.m(...)` where m leaves P materialised"""
        if not isinstance(call.func, ast.Attribute):
            return None
        p = path_of(call.func.value)
        if p is None:
            return None
        name = call.func.attr
        mats = self.materialisers()
        ra = self.ctx.program.classes.get("raggedarray.RaggedArray")
        tg = ra.lookup(name) if ra is not None else None
        if tg is not None and tg.qual in mats:
            return p
        return None

    # -- per function analysis ------------------------------------------------------
    def analyse(self, f, entry=frozenset()):
        key = (f.qual, entry)
        if key in self._res:
            return self._res[key]
        fa = self.ctx.fa(f)
        cfg = fa.cfg
        order = cfg.rpo()
        TOP = None
        IN = {n.id: TOP for n in order}
        OUT = {n.id: TOP for n in order}
        OUT[cfg.entry.id] = frozenset(entry)
        res = {"shape": {}, "call": {}, "ret": {}, "fa": fa, "entry": entry}
        changed = True
        it = 0
        while changed and it < 50:
            changed = False
            it += 1
            for n in order:
                if n is cfg.entry:
                    continue
                ins = [OUT[p.id] for p in n.pred if p.id in OUT and OUT[p.id] is not TOP]
                if not ins:
                    continue
                st = frozenset.intersection(*ins)
                IN[n.id] = st
                out = self._transfer(n, st, fa, res)
                if out != OUT[n.id]:
                    OUT[n.id] = out
                    changed = True
        res["IN"], res["OUT"] = IN, OUT
        self._res[key] = res
        return res

    def _kill(self, st, name):
        return frozenset(p for p in st if p != name and not p.startswith(name + "."))

    def _transfer(self, n, st, fa, res):
        a = n.ast
        if n.kind == "edge":
            t, truth = n.info
            if t.kind == "for" and truth:
                from .terms import target_names
                for nm in target_names(t.ast.target):
                    st = self._kill(st, nm)
            return st
        if n.kind == "test":
            return self._eval(a, st, fa, res)
        if n.kind == "for":
            return self._eval(a.iter, st, fa, res)
        if n.kind == "with":
            for it in a.items:
                st = self._eval(it.context_expr, st, fa, res)
            return st
        if n.kind != "stmt" or a is None:
            return st
        if isinstance(a, ast.Assign):
            st = self._eval(a.value, st, fa, res)
            for tg in a.targets:
                st = self._eval_target(tg, st, fa, res)
            mat = self._value_mat(a.value, st, fa, res)
            for tg in a.targets:
                st = self._bind(tg, a.value, mat, st, fa, res)
            return st
        if isinstance(a, ast.AugAssign):
            st = self._eval(a.value, st, fa, res)
            st = self._eval_target(a.target, st, fa, res)
            if isinstance(a.target, ast.Name):
                st = self._kill(st, a.target.id)
            return st
        if isinstance(a, ast.AnnAssign):
            if a.value is not None:
                st = self._eval(a.value, st, fa, res)
                mat = self._value_mat(a.value, st, fa, res)
                st = self._bind(a.target, a.value, mat, st, fa, res)
            return st
        if isinstance(a, ast.Return):
            st = self._eval(a.value, st, fa, res) if a.value is not None else st
            res["ret"][id(a)] = st
            return st
        if isinstance(a, (ast.Expr, ast.Raise, ast.Assert, ast.Delete)):
            for ch in ast.iter_child_nodes(a):
                if isinstance(ch, ast.expr):
                    st = self._eval(ch, st, fa, res)
            return st
        return st

    def _eval_target(self, tg, st, fa, res):
        if isinstance(tg, ast.Subscript):
            st = self._eval(tg.value, st, fa, res)
            st = self._eval(tg.slice, st, fa, res)
        elif isinstance(tg, ast.Attribute):
            st = self._eval(tg.value, st, fa, res)
        elif isinstance(tg, (ast.Tuple, ast.List)):
            for e in tg.elts:
                st = self._eval_target(e, st, fa, res)
        return st

    def _bind(self, tg, value, mat, st, fa, res):
        if isinstance(tg, ast.Name):
            st = self._kill(st, tg.id)
            if mat is True:
                st = st | {tg.id}
            elif isinstance(mat, str) and mat in st:
                st = st | {tg.id}            # plain alias of a materialised path
        elif isinstance(tg, (ast.Tuple, ast.List)):
            vals = value.elts if isinstance(value, (ast.Tuple, ast.List)) and len(value.elts) == len(tg.elts) else None
            for i, e in enumerate(tg.elts):
                if isinstance(e, ast.Name):
                    st = self._kill(st, e.id)
                    if vals is not None:
                        m = self._value_mat(vals[i], st, fa, res)
                        if m is True or (isinstance(m, str) and m in st):
                            st = st | {e.id}
        elif isinstance(tg, ast.Attribute):
            p = path_of(tg)
            if p:
                st = self._kill(st, p)
                if mat is True or (isinstance(mat, str) and mat in st):
                    st = st | {p}
        return st

    def _eval(self, e, st, fa, res):
        if e is None:
            return st
        for sub, cond in eval_order(e):
            if isinstance(sub, ast.Attribute) and sub.attr == "_shape":
                p = path_of(sub.value)
                if p is not None:
                    res["shape"][id(sub)] = (p in st, p, sub)
            elif isinstance(sub, ast.Call):
                res["call"][id(sub)] = st
                if not cond:
                    p = self.is_materialiser_call(sub, fa)
                    if p is not None:
                        st = st | {p}
        return st

    def _value_mat(self, v, st, fa, res):
        """True if the expression yields a materialised RaggedArray-like object, a path string if it is a
        plain alias of that path, None/False otherwise"""
        p = path_of(v)
        if p is not None:
            return p
        if isinstance(v, ast.Call):
            return self._call_returns_mat(v, st, fa, res)
        if isinstance(v, (ast.BinOp, ast.UnaryOp, ast.Compare)):
            # operators on RaggedArray operands go through __array_ufunc__, which materialises and
            # returns RaggedArray(ufunc(...), self._shape)
            return self._operator_mat(v, fa)
        return None

    def _operator_mat(self, v, fa):
        node = fa.node_of(v)
        if node is None:
            return None
        tm = fa.term(v, node)
        tt = self.R.typeof(tm, fa)
        if tt and tt[0] == "inst":
            for c in tt[1]:
                m = c.lookup("__array_ufunc__")
                if m is not None and self.returns_mat(m):
                    return True
        return None

    def _call_returns_mat(self, call, st, fa, res):
        node = fa.node_of(call)
        if node is None:
            return None
        tm = fa.term(call, node)
        ft = self.R.callee_type(tm.a[0], fa)
        if ft is None:
            return None
        if ft[0] == "class":
            if not any(self._is_ragged(c) for c in ft[1]):
                return None
            return self._ctor_mat(call, st, fa, res)
        if ft[0] in ("func", "bound"):
            targets = self.R.resolve_call(tm, fa)
            if targets and all(self.returns_mat(g) for g in targets):
                return True
        return None

    def _is_ragged(self, c):
        return any(k.qual == "raggedarray.base.RaggedBase" for k in c.mro())

    def _ctor_mat(self, call, st, fa, res):
        """RaggedArray(data, shape): mat unless the shape argument may be a lazy view"""
        shape = None
        if len(call.args) >= 2:
            shape = call.args[1]
        for k in call.keywords:
            if k.arg == "shape":
                shape = k.value
        if shape is None:
            return True                      # built from a list of rows
        if isinstance(shape, ast.Attribute) and shape.attr == "_shape":
            rec = res["shape"].get(id(shape))
            return bool(rec and rec[0])
        node = fa.node_of(shape)
        tm = fa.term(shape, node) if node is not None else None
        if tm is None:
            return None
        ok = True
        for a in alts(tm):
            tt = self.R.typeof(a, fa)
            if tt and tt[0] == "inst":
                if any(c.name in ("RaggedView", "RaggedView2") for c in tt[1]):
                    ok = False
            elif a.k == "attr" and a.a[1] == "_shape":
                # shape of another object: mat iff that object was mat when read
                rec = res["shape"].get(id(a.node)) if a.node is not None else None
                if not (rec and rec[0]):
                    ok = False
            elif a.k in ("param",):
                ok = False
        return ok

    def returns_mat(self, g):
        """every value returned by g is a materialised object (entry: receiver not materialised)"""
        if g.qual in self._retmat:
            return self._retmat[g.qual]
        if g.qual in self._retstack:
            return False
        self._retstack.add(g.qual)
        try:
            res = self.analyse(g, frozenset())
            fa = res["fa"]
            rets = [n for n in fa.cfg.returns() if n.ast.value is not None]
            ok = bool(rets)
            for n in rets:
                st = res["IN"].get(n.id) or frozenset()
                m = self._value_mat(n.ast.value, res["ret"].get(id(n.ast), st), fa, res)
                if isinstance(n.ast.value, ast.Constant) and n.ast.value.value is NotImplemented:
                    continue
                if isinstance(n.ast.value, ast.Name) and n.ast.value.id == "NotImplemented":
                    continue
                if m is True:
                    continue
                if isinstance(m, str) and m in (res["ret"].get(id(n.ast)) or frozenset()):
                    continue
                ok = False
        finally:
            self._retstack.discard(g.qual)
        self._retmat[g.qual] = ok
        return ok


def _stmt_value(st):
    if isinstance(st, (ast.Expr, ast.Return)):
        return st.value
    if isinstance(st, (ast.Assign, ast.AugAssign, ast.AnnAssign)):
        return st.value
    return None


def parent_map(root):
    pm = {}
    for n in ast.walk(root):
        for ch in ast.iter_child_nodes(n):
            pm[id(ch)] = n
    return pm
