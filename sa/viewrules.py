"""Rule instances over the geometry classes' column/row arithmetic (shared by C02, C03, C06, C08)."""
import ast
from .guards import Formulas, check_guard, facts_at, find_calls
from .terms import T, alts, attr_chain, walk, is_const, call_name, np_call
from .bounds import Intervals, le, show, INF, NINF
from .units import Units, view2_table, view2_seed, NUM

V2 = "raggedshape.RaggedView2."


def wrap_idiom(ctx, rule, f, tm, node):
    """np.where(x < 0, N + x, x): the test must be strict - with `<=` index 0 is wrapped to N"""
    for x in walk(tm):
        if np_call(x, {"where"}) and len(x.a[1]) == 3:
            cond, a, b = x.a[1]
            if cond.k == "cmp" and is_const(cond.a[2], 0) and b == cond.a[1] and a.k == "bin" and a.a[0] == "+" \
                    and (a.a[1] == b or a.a[2] == b):
                what = "a negative index is wrapped by adding the length exactly when it is < 0"
                if cond.a[0] == "<":
                    ctx.holds(rule, f, what, node=node, key="wrap:" + repr(cond.a[1])[:60], engine="E8")
                elif cond.a[0] == "<=":
                    ctx.violated(rule, f, what, "`%s`: index 0 is treated as negative and becomes the length (one past the last element)" % (cond,),
                                 node=node, key="wrap:" + repr(cond.a[1])[:60], engine="E8")


def _self_attr(t, selfn, name):
    c = attr_chain(t)
    return bool(c and c == (selfn, name))


def int_column_bounds(ctx, tk, rule):
    f = ctx.func(V2 + "col_slice")
    fa = ctx.fa(f)
    selfn, cp = f.params[0], f.params[1]
    what = ("an integer column is turned into addresses only after refusing idx >= len(shortest row) and "
            "idx < -len(shortest row) (unless there are no rows)")
    sinks = []
    for n in fa.cfg.returns():
        facts = facts_at(fa, n)
        if any(_isinstance_of(t, cp, "Number") and truth for t, truth, _ in facts):
            sinks.append(n)
    if not sinks:
        ctx.unknown(rule, f, what, "integer-column branch not recognised", engine="E1")
        return

    def is_idx(t):
        # the caller's scalar itself, or its value as a Python int (int(x) / operator.index(x) / x.item())
        def one(a):
            if a.k == "param" and a.a[0] == cp:
                return True
            if a.k == "call" and len(a.a[1]) == 1 and ((a.a[0].k == "global" and a.a[0].a[0] == "int") or (attr_chain(a.a[0]) or ("",))[-1] == "index"):
                return is_idx(a.a[1][0])
            if a.k == "ifexp":
                return all(is_idx(x) for x in a.a[1:3]) if len(a.a) >= 3 else False
            return False
        return all(one(a) for a in alts(t))

    def is_min(t):
        return (np_call(t, {"min", "amin"}) and t.a[1] and _self_attr(t.a[1][0], selfn, "lengths")) or \
            (t.k == "call" and t.a[0].k == "attr" and t.a[0].a[1] == "min" and _self_attr(t.a[0].a[0], selfn, "lengths")) or \
            (t.k == "call" and t.a[0].k == "global" and t.a[0].a[0] == "min" and t.a[1] and _self_attr(t.a[1][0], selfn, "lengths"))

    def m(t):
        if t.k == "call" and t.a[0].k == "global" and t.a[0].a[0] == "len" and t.a[1] and _self_attr(t.a[1][0], selfn, "lengths"):
            return ("nonempty", True)
        if t.k == "attr" and t.a[1] in ("size",) and _self_attr(t.a[0], selfn, "lengths"):
            return ("nonempty", True)
        if t.k != "cmp" or t.a[0] not in ("<", "<=", ">", ">="):
            return None
        op, l, r = t.a
        if is_idx(r) and not is_idx(l):
            l, r = r, l
            op = {"<": ">", ">": "<", "<=": ">=", ">=": "<="}[op]
        if not is_idx(l):
            return None
        if is_const(r, 0):
            return {">=": ("nonneg", True), "<": ("nonneg", False)}.get(op)
        if is_min(r):
            return {">=": ("hi", True), "<": ("hi", False), ">": ("hi_weak", True)}.get(op)
        if r.k == "un" and r.a[0] == "-" and is_min(r.a[1]):
            return {"<": ("lo", True), ">=": ("lo", False), "<=": ("lo_strong", True)}.get(op)
        return None
    forms = Formulas([m])
    # lengths are >= 0: a non-negative column is never below -len, a negative one never >= len
    cons = [("not", ("and", [("atom", "nonneg"), ("atom", "lo")])),
            ("or", [("atom", "nonneg"), ("not", ("atom", "hi"))])]
    check_guard(ctx, rule, f, sinks, forms, lambda A: (not A["nonempty"]) or (not A["hi"] and not A["lo"]),
                ["nonempty", "hi", "lo", "nonneg"], what, fa=fa, constraints=cons,
                describe="a column outside every row's range produces addresses in neighbouring rows")


def _isinstance_of(t, pname, clsname):
    if t.k == "call" and t.a[0].k == "global" and t.a[0].a[0] == "isinstance" and len(t.a[1]) == 2:
        a, c = t.a[1]
        names = [x.a[0] for x in walk(c) if x.k == "global"]
        return a.k == "param" and a.a[0] == pname and clsname in names
    return False


def _step_factor(addr, selfn):
    """for  self.starts + self.col_step * X  (any operand order) return X"""
    for a in alts(addr):
        if a.k == "bin" and a.a[0] == "+":
            for base, off in ((a.a[1], a.a[2]), (a.a[2], a.a[1])):
                if _self_attr(base, selfn, "starts") and off.k == "bin" and off.a[0] == "*":
                    for s, x in ((off.a[1], off.a[2]), (off.a[2], off.a[1])):
                        if _self_attr(s, selfn, "col_step"):
                            return x
    return None


def _ctor_calls(fa, selfn):
    out = []
    for n, c in find_calls(fa, lambda c: c.a[0].k == "attr" and c.a[0].a[1] == "__class__" and attr_chain(c.a[0]) and attr_chain(c.a[0])[0] == selfn):
        out.append((n, c))
    return out


def slice_normalisation(ctx, tk, rule):
    # positive steps
    f = ctx.func(V2 + "_pos_col_slice")
    fa = ctx.fa(f)
    selfn, sp = f.params[0], f.params[1]
    is_N = lambda t: _self_attr(t, selfn, "lengths")
    is_subj = lambda t: t.k == "attr" and t.a[1] in ("start", "stop") and any(x.k == "param" and x.a[0] == sp for x in walk(t.a[0]))
    for n, c in _ctor_calls(fa, selfn):
        if len(c.a[1]) < 2:
            continue
        start = _step_factor(c.a[1][0], selfn)
        whats = "the first selected column of a positive-step column slice is normalised into [0, len(row)] (None, negative, too small, too large)"
        _interval_rule(ctx, rule, f, fa, start, is_N, is_subj, (0, 0), (1, 0), whats, c.node, "pos-start")
        wrap_branch_strictness(ctx, rule, f, fa, start, is_N, is_subj, c.node, "pos-start")
        # stop: in the length expression (stop - start + k - 1) // k
        stop = None
        for x in walk(c.a[1][1]):
            if x.k == "bin" and x.a[0] == "-" and start is not None and x.a[2] == start:
                stop = x.a[1]
                break
        whatp = "the stop column of a positive-step column slice is normalised into [0, len(row)]"
        _interval_rule(ctx, rule, f, fa, stop, is_N, is_subj, (0, 0), (1, 0), whatp, c.node, "pos-stop")
        wrap_branch_strictness(ctx, rule, f, fa, stop, is_N, is_subj, c.node, "pos-stop")
    # negative steps
    g = ctx.func(V2 + "col_slice")
    ga = ctx.fa(g)
    selfn, sp = g.params[0], g.params[1]
    is_N = lambda t: _self_attr(t, selfn, "lengths")
    is_subj = lambda t: t.k == "attr" and t.a[1] in ("start", "stop") and any(x.k == "param" and x.a[0] == sp for x in walk(t.a[0]))
    found = False
    for n, c in _ctor_calls(ga, selfn):
        if len(c.a[1]) < 3:
            continue
        start = _step_factor(c.a[1][0], selfn)
        if start is None:
            continue
        found = True
        whatn = "the first selected column of a negative-step column slice is clamped to an existing cell [0, len(row)-1]"
        _interval_rule(ctx, rule, g, ga, start, is_N, is_subj, (0, 0), (1, -1), whatn, c.node, "neg-start", modes=("pos",))
        wrap_branch_strictness(ctx, rule, g, ga, start, is_N, is_subj, c.node, "neg-start")
    if not found:
        ctx.unknown(rule, g, "negative-step start normalisation", "address construct not recognised", engine="E8")
    # _calculate_lengths: start/stop normalisation clamps
    h = ctx.func(V2 + "_calculate_lengths")
    ha = ctx.fa(h)
    selfn, sp = h.params[0], h.params[1]
    is_N = lambda t: _self_attr(t, selfn, "lengths")
    # terms named L = stop - start at the end: find final  np.where(mask, 0, (abs(L)-1)//abs(step)+1)
    for r in ha.cfg.returns():
        t = ha.term(r.ast.value, r)
        L = None
        for x in walk(t):
            if x.k == "bin" and x.a[0] == "-" and x.a[1].k == "call" and x.a[2].k == "call" and np_call(x.a[1], {"maximum"}) and np_call(x.a[2], {"maximum"}):
                L = x
                break
        if L is None:
            ctx.unknown(rule, h, "selected-length computation uses clamped start/stop", "L = stop - start over clamped bounds not recognised", node=r.ast, engine="E8")
            continue
        stop, start = L.a[1], L.a[2]
        # lower bound -1 (= "before the first cell", the resting point of a backward slice) or 0: both give the right
        # length because a start below 0 is masked to length 0; the upper bound is what keeps lengths within the row
        whatc = "the start used for the selected length is clamped into [-1, len(row)-1]"
        _interval_rule(ctx, rule, h, ha, start, is_N, lambda t: False, (0, -1), (1, -1), whatc, r.ast, "len-start", modes=("pos",))


def _interval_rule(ctx, rule, f, fa, term, is_N, is_subj, lo_req, hi_req, what, node, key, modes=("zero", "pos")):
    """the value of `term` lies in [lo_req, hi_req]; decided separately for N == 0 and N >= 1"""
    from .bounds import mode
    if term is None:
        ctx.unknown(rule, f, what, "operand not recognised", node=node, key=key, engine="E8")
        return
    verdicts = []
    for md in modes:
        with mode(md):
            iv = Intervals(is_N, fa=fa, is_subject=is_subj).iv(term)
            if iv is None:
                verdicts.append((None, md, None))
                continue
            lo_r = lo_req if md != "zero" else (0, lo_req[1])
            hi_r = hi_req if md != "zero" else (0, hi_req[1])
            lo_ok = le(lo_r, iv[0])
            hi_ok = le(iv[1], hi_r)
            if lo_ok is True and hi_ok is True:
                verdicts.append((True, md, iv))
            elif lo_ok is False or hi_ok is False or iv[0] == NINF or iv[1] == INF:
                verdicts.append((False, md, iv))
            else:
                verdicts.append((None, md, iv))
    bad = [v for v in verdicts if v[0] is False]
    if bad:
        _, md, iv = bad[0]
        ctx.violated(rule, f, what, "for rows of length N %s the value lies in [%s, %s]; required [%s, %s]: %s" % (
            "== 0" if md == "zero" else ">= 1", show(iv[0]), show(iv[1]), show(lo_req), show(hi_req),
            "a sufficiently negative bound is not clamped" if iv[0] == NINF else (
                "a bound beyond the row end is not clamped" if iv[1] == INF else "off by one against the row end")),
            node=node, key=key, engine="E8")
    elif all(v[0] is True for v in verdicts):
        ctx.holds(rule, f, what, node=node, key=key, engine="E8")
    else:
        ctx.unknown(rule, f, what, "bounds not decided: %s" % ", ".join(
            "%s:[%s,%s]" % (v[1], show(v[2][0]) if v[2] else "?", show(v[2][1]) if v[2] else "?") for v in verdicts),
            node=node, key=key, engine="E8")


def column_units(ctx, tk, rule):
    """E5/U1 over every RaggedView2 method: raw position = start + column * col_step"""
    cls = ctx.program.cls("raggedshape.RaggedView2")
    for name, m in cls.methods.items():
        if name in ("row_slice", "get_flat_indices", "_get_flat_indices", "__post_init__", "get_shape", "n_rows", "view", "view_rows"):
            continue
        fa = ctx.fa(m)
        selfn = m.params[0]
        sp = m.params[1] if len(m.params) > 1 else None
        seed = view2_seed(selfn, sp, col_locals=())
        # integer column parameter of col_slice
        if name == "col_slice":
            base = seed

            def seed(t, base=base, sp=sp):
                u = base(t)
                if u is None and t.k == "param" and t.a[0] == sp:
                    return "C"
                return u
        U = Units(seed, view2_table)
        checked = 0
        for n in fa.cfg.stmts():
            exprs = []
            if n.kind == "stmt" and isinstance(n.ast, (ast.Return, ast.Assign)) and n.ast.value is not None:
                exprs.append(n.ast.value)
            for e in exprs:
                tm = fa.term(e, n)
                for c in walk(tm):
                    if c.k == "call" and c.a[0].k == "attr" and c.a[0].a[1] == "__class__":
                        args = list(c.a[1])
                        kw = dict(c.a[2])
                        sa = args[0] if args else kw.get("starts")
                        if sa is not None and name != "row_slice":
                            from_ends = any(_self_attr(x, selfn, "ends") for x in walk(sa))
                            ctx.decide(rule, m, "cell addresses of a derived view are computed from the row starts (start + column * col_step), never from the row ends",
                                       not from_ends, "`%s`: ends = start + (length-1)*col_step + 1 is not on the column lattice unless col_step == 1, so "
                                       "end + k*col_step addresses neighbouring cells of a strided or reversed view" % (sa,), node=c.node, key="%s:from-ends" % name, engine="E5")
                        slots = [("starts", "P"), ("lengths", "C"), ("col_step", "S")]
                        for i, (sn, want) in enumerate(slots):
                            a = args[i] if i < len(args) else kw.get(sn)
                            if a is None:
                                continue
                            u = U.unit(a)
                            checked += 1
                            what = "%s argument of a derived view is a %s" % (sn, {"P": "raw position", "C": "view column count", "S": "column step"}[want])
                            if u is None or u == NUM:
                                ctx.add(rule, m, what, "holds" if u == NUM else "unknown", node=c.node, key="%s:%s" % (name, sn), engine="E5")
                            else:
                                ctx.decide(rule, m, what, u == want, "argument has unit %s" % u, node=c.node, key="%s:%s" % (name, sn), engine="E5")
                if isinstance(n.ast, ast.Return):
                    U.unit(tm)
        for (t, why, l, r) in U.bad:
            ctx.violated(rule, m, "column arithmetic of a view is dimensionally consistent (raw = start + column * col_step)",
                         "%s: %s" % (t, why), node=t.node, engine="E5")
        if not U.bad and checked == 0 and name == "ends":
            # property: starts + (lengths-1)*col_step + 1
            for r in fa.cfg.returns():
                u = U.unit(fa.term(r.ast.value, r))
                ctx.decide(rule, m, "the end of a view row is a raw position: start + (length-1)*col_step + 1",
                           True if u == "P" else (None if u is None else False), "unit %s" % u, node=r.ast, engine="E5")
                for (t, why, l, rr) in U.bad:
                    ctx.violated(rule, m, "column arithmetic of a view is dimensionally consistent", "%s: %s" % (t, why), node=t.node, engine="E5")


def step_propagation(ctx, tk, rule):
    """every derived RaggedView2 carries a column step that depends on the receiver's step, unless its rows
    have length 1 (ones_like lengths), where the step is irrelevant"""
    cls = ctx.program.cls("raggedshape.RaggedView2")
    for name, m in cls.methods.items():
        if name in ("row_slice",):
            continue
        fa = ctx.fa(m)
        selfn = m.params[0] if m.params else None
        if selfn is None:
            continue
        for n, c in _ctor_calls(fa, selfn):
            args, kw = list(c.a[1]), dict(c.a[2])
            step = args[2] if len(args) > 2 else kw.get("col_step")
            lengths = args[1] if len(args) > 1 else kw.get("lengths")
            what = "a view derived from a view keeps (or compounds) the receiver's column step"
            if step is None:
                single = lengths is not None and all(np_call(a, {"ones_like", "ones"}) for a in alts(lengths))
                if single:
                    ctx.holds(rule, m, what + " [single-column rows: step irrelevant]", node=c.node, engine="E5")
                else:
                    ctx.violated(rule, m, what, "`%s` passes no col_step: the derived view falls back to step 1 and reads "
                                 "contiguous cells of a strided parent" % (c,), node=c.node, engine="E5")
            else:
                dep = any(_self_attr(x, selfn, "col_step") for x in walk(step))
                ctx.decide(rule, m, what, True if dep else False, "col_step argument %s does not depend on self.col_step" % (step,),
                           node=c.node, engine="E5")


def build_indices_rules(ctx, tk, rule):
    f = ctx.func("raggedshape.build_indices")
    fa = ctx.fa(f)
    viewp, shapep = f.params[0], f.params[1]
    found = False
    sel_verdicts = []
    for n in fa.cfg.stmts():
        if not (n.kind == "stmt" and isinstance(n.ast, ast.Assign) and isinstance(n.ast.targets[0], ast.Subscript)):
            continue
        tgt_idx = fa.term(n.ast.targets[0].slice, n)
        val = fa.term(n.ast.value, n)
        # row-to-row jump store:  builder[to_shape.starts[sel][1:]] = view.starts[sel][1:] - view.ends[sel][:-1] + 1
        parts = _sel_parts(tgt_idx)
        if parts is None or parts[0] != (shapep, "starts"):
            continue
        found = True
        sel_t = parts[1]
        vs = [(_sel_parts(x), x) for x in walk(val) if x.k == "sub" and _sel_parts(x) is not None]
        ok = True
        detail = []
        want = {(viewp, "starts"): (1, None), (viewp, "ends"): (None, -1)}
        seen = {}
        for p, x in vs:
            if p[0] in want:
                seen[p[0]] = p
                if p[1] != sel_t:
                    ok = False
                    detail.append("%s.%s is selected by %s, the scatter positions by %s" % (p[0][0], p[0][1], p[1], sel_t))
                if p[2] != want[p[0]]:
                    ok = False
                    detail.append("%s.%s is shifted %s, expected %s" % (p[0][0], p[0][1], p[2], want[p[0]]))
        if parts[2] != (1, None):
            ok = False
            detail.append("scatter positions are shifted %s, expected [1:]" % (parts[2],))
        # `ends` is the position after the last visited cell, whatever the stride: the jump to the next row's first cell is
        # next start - previous end + 1 (a constant one, not the stride)
        for a in alts(val):
            if a.k == "bin" and a.a[0] == "+":
                c = a.a[2] if a.a[1].k == "bin" else a.a[1]
                if c.k == "const":
                    if c.a[0] != 1:
                        ok = False
                        detail.append("the jump adds %r, expected 1" % (c.a[0],))
                elif any(x.k in ("param", "ifexp") or (x.k == "attr" and x.a[1] in ("col_step", "_step")) for x in walk(c)):
                    ok = False
                    detail.append("the jump adds %s (the stride) where `ends` already is one past the last visited cell: expected + 1" % (c,))
        if set(seen) != set(want):
            ctx.unknown(rule, f, "row-to-row jumps use next start and previous end of the same non-empty rows", node=n.ast, engine="E6")
        else:
            ctx.decide(rule, f, "row-to-row jumps use next start and previous end of the same non-empty rows (one selector, complementary shifts)",
                       ok, "; ".join(detail), node=n.ast, engine="E6")
        # selector: all rows, or flatnonzero(lengths != 0)
        okp = None
        for a in alts(sel_t):
            if a.k == "call" and a.a[0].k == "global" and a.a[0].a[0] == "slice":
                continue
            if np_call(a, {"flatnonzero"}) and a.a[1]:
                c = a.a[1][0]
                if c.k == "cmp" and is_const(c.a[2], 0) and attr_chain(c.a[1]) == (shapep, "lengths"):
                    okp = (c.a[0] in ("!=", ">")) if okp is not False else False
                    if c.a[0] in ("==", "<="):
                        okp = False
                    continue
            okp = None if okp is not False else False
            break
        ctx.decide(rule, f, "the selector keeps exactly the non-empty rows", okp, "selector is %s" % (sel_t,), node=n.ast, key="selector", engine="E1")
        sel_verdicts.append(okp)
    if not found:
        ctx.unknown(rule, f, "row-to-row jump scatter", "construct not recognised", engine="E6")
    # extent: builder has size+1 entries, result drops the last
    for n in fa.cfg.stmts():
        if n.kind == "stmt" and isinstance(n.ast, ast.Assign):
            tm = fa.term(n.ast.value, n)
            if np_call(tm, {"full", "ones", "zeros", "empty"}) and tm.a[1]:
                ext = tm.a[1][0]
                while ext.k == "call" and ext.a[0].k == "global" and ext.a[0].a[0] == "int":
                    ext = ext.a[1][0]
                if any(attr_chain(x) == (shapep, "size") for x in walk(ext)):
                    ok = ext.k == "bin" and ext.a[0] == "+" and is_const(ext.a[2], 1)
                    if not ok and attr_chain(ext) == (shapep, "size"):
                        # exactly `size` entries suffice when only starts of non-empty rows are written (each < size) and the
                        # result is not shortened afterwards
                        trimmed = False
                        for r in fa.cfg.returns():
                            rv = fa.term(r.ast.value, r) if r.ast.value is not None else None
                            tops = []
                            for a in (alts(rv) if rv is not None else ()):
                                tops += list(a.a[0]) if a.k == "tuple" else [a]
                            for x in tops:
                                for y in alts(x):
                                    if y.k == "sub" and y.a[1].k == "slice" and is_const(y.a[1].a[1], -1):
                                        trimmed = True
                        if sel_verdicts and all(v is True for v in sel_verdicts) and not trimmed:
                            ok = True
                        elif not trimmed and sel_verdicts and all(v is not False for v in sel_verdicts):
                            ok = None
                    ctx.decide(rule, f, "the index builder has room for every position written: size+1 entries (row starts of trailing empty rows equal size), "
                               "or size entries when only starts of non-empty rows are written", ok,
                               "extent is %s" % (ext,), node=n.ast, key="extent", engine="E5")


def _sel_parts(t):
    """X.attr[sel][a:b] -> ((X, attr), sel term, (a, b))"""
    if t.k == "sub" and t.a[1].k == "slice" and t.a[0].k == "sub":
        sl = t.a[1]
        base = t.a[0]
        c = attr_chain(base.a[0])
        if c and len(c) == 2:
            def cv(x):
                return None if is_const(x, None) else (x.a[0] if x.k == "const" else "?")
            return ((c[0], c[1]), base.a[1], (cv(sl.a[0]), cv(sl.a[1])))
    return None


def wrap_branch_strictness(ctx, rule, f, fa, term, is_N, is_subj, node, key):
    """an alternative of the form  N + x  (x a caller-supplied bound) is the negative wrap: it may only be
    taken for x <= -1.  With `x <= 0` the bound 0 is wrapped to N (e.g. a[:, :0] selects whole rows)."""
    from .bounds import refine_from_facts, le
    from .guards import facts_at
    if term is None:
        return
    cands = []
    for x in walk(term):
        if x.k == "phi":
            cands += list(x.a[0])
    if not cands:
        cands = alts(term)
    for a in cands:
        subj = None
        for x in walk(a):
            if x.k == "bin" and x.a[0] == "+":
                for l, r in ((x.a[1], x.a[2]), (x.a[2], x.a[1])):
                    if is_N(l) and is_subj(r):
                        subj = r
        if subj is None or a.node is None:
            continue
        dn = fa.node_of(a.node)
        if dn is None:
            continue
        ref = refine_from_facts(facts_at(fa, dn), is_subj)
        iv = ref.get(repr(subj))
        what = "a slice bound is wrapped by the row length exactly when it is negative (bound 0 stays 0)"
        if iv is None:
            ctx.unknown(rule, f, what, "no sign test dominates the wrap %s" % (a,), node=node, key=key + ":wrap", engine="E8")
            continue
        ok = le(iv[1], (0, -1))
        ctx.decide(rule, f, what, True if ok is True else (False if ok is False else None),
                   "the wrap `%s` is taken for bounds up to %s: a bound of 0 becomes the row length" % (a, iv[1][1] if isinstance(iv[1], tuple) and len(iv[1]) == 2 else iv[1]),
                   node=node, key=key + ":wrap", engine="E8")


def empty_row_rule(ctx, tk, rule):
    """E9: a row without cells contributes no cell to any column slice.  RaggedView2.col_slice is interpreted
    abstractly for N == 0 under every sign case of (start, stop, step): the row length it returns must be 0."""
    from .absint import Interp, Iv, NONE, SliceV, Obj, INF
    cls = ctx.program.cls("raggedshape.RaggedView2")
    m = cls.lookup("col_slice")
    what = "a column slice selects nothing from a row without cells"
    bounds = [("None", NONE), ("negative", Iv(-INF, -1)), ("non-negative", Iv(0, INF))]
    steps = [("None", NONE, None), ("negative", Iv(0, 0, 1), (-INF, -1)), ("positive", Iv(0, 0, 1), (1, INF))]
    n_dec = 0
    for sn, sv, srange in steps:
        for an, av in bounds:
            for bn, bv in bounds:
                I = Interp(ctx, cls, {"lengths": Iv(0, 0), "len:lengths": Iv(1, INF)}, sym_range=srange)
                try:
                    res = I.run(m, [SliceV(av, bv, sv)], {})
                except RecursionError:
                    res = None
                key = "empty-row:start=%s,stop=%s,step=%s" % (an, bn, sn)
                if not isinstance(res, Obj) or len(res.args) < 2:
                    ctx.unknown(rule, m, what, "result of col_slice not recognised for %s" % key, key=key, engine="E9")
                    continue
                n = I.num(res.args[1]) if isinstance(res.args[1], Iv) else None
                if n is None:
                    ctx.unknown(rule, m, what, "row length not bounded for %s" % key, key=key, engine="E9")
                    continue
                lo, hi = n
                if lo == hi == 0:
                    n_dec += 1
                    ctx.holds(rule, m, what, key=key, engine="E9")
                elif lo > 0 or hi < 0:
                    n_dec += 1
                    ctx.violated(rule, m, what, "for an empty row and a slice with start %s, stop %s, step %s the selected length evaluates to [%s, %s]: "
                                 "the view addresses a cell of a neighbouring row (reads return it, assignments overwrite it)" % (an, bn, sn, lo, hi),
                                 node=res.node, key=key, engine="E9")
                else:
                    ctx.unknown(rule, m, what, "row length in [%s, %s] for %s" % (lo, hi, key), key=key, engine="E9")
    return n_dec


def col_slice_model(ctx, tk, rule, Ns=(1, 2, 3), col_steps=(1, 2, -1)):
    """E9 for short rows: for row lengths N = 1..3 the selector space (start, stop, step) is partitioned at the
    landmarks where Python's slice semantics can change (every integer in [-N-1, N+1] is its own cell, the two tails
    beyond are one cell each; steps +-1..+-N are cells, larger magnitudes one symbolic cell per sign).  On every cell
    RaggedView2.col_slice is interpreted abstractly; the (first column, length, step) it returns must be the triple
    Python's own slice arithmetic - slice(...).indices(N), evaluated on representatives of the cell, never on /repo
    code - gives.  A cell on which Python's answer is not constant is skipped (counted as unknown)."""
    from .absint import Interp, Iv, NONE, SliceV, Obj, INF
    cls = ctx.program.cls("raggedshape.RaggedView2")
    m = cls.lookup("col_slice")
    what = "for rows of %d cell(s) of a view with column stride %d a column slice selects the cells Python's slice arithmetic selects (first cell, count, stride)"
    totals = {"holds": 0, "violated": 0, "unknown": 0}
    for N, C in [(n_, c_) for n_ in Ns for c_ in col_steps]:
        bcells = [("None", NONE, [None])]
        for v in range(-N - 1, N + 2):
            bcells.append((str(v), Iv(v, v), [v]))
        bcells.append(("<=%d" % (-N - 2), Iv(-INF, -N - 2), [-N - 2, -N - 7, -10 ** 9]))
        bcells.append((">=%d" % (N + 2), Iv(N + 2, INF), [N + 2, N + 7, 10 ** 9]))
        scells = [("None", NONE, None, [None])]
        for v in list(range(-N, 0)) + list(range(1, N + 1)):
            scells.append((str(v), Iv(v, v), None, [v]))
        scells.append(("<=%d" % (-N - 1), Iv(0, 0, 1), (-INF, -N - 1), [-N - 1, -N - 4, -10 ** 9]))
        scells.append((">=%d" % (N + 1), Iv(0, 0, 1), (N + 1, INF), [N + 1, N + 4, 10 ** 9]))
        bad = []
        unk = 0
        ok = 0
        for sn, sv, srange, sreps in scells:
            for an, av, areps in bcells:
                for bn, bv, breps in bcells:
                    # Python's answer on the representatives of the cell
                    exp = set()
                    for a in areps:
                        for b in breps:
                            for st in sreps:
                                r = range(*slice(a, b, st).indices(N))
                                exp.add((len(r), r[0] if len(r) else None, r.step))
                    if len({e[0] for e in exp}) != 1 or len({e[1] for e in exp}) != 1:
                        unk += 1
                        continue
                    elen, efirst = next(iter(exp))[0], next(iter(exp))[1]
                    I = Interp(ctx, cls, {"lengths": Iv(N, N), "starts": Iv(0, 0), "col_step": Iv(C, C), "len:lengths": Iv(1, INF)}, sym_range=srange)
                    try:
                        res = I.run(m, [SliceV(av, bv, sv)], {})
                    except RecursionError:
                        res = None
                    if not isinstance(res, Obj) or len(res.args) < 2:
                        unk += 1
                        continue
                    ln = I.num(res.args[1]) if isinstance(res.args[1], Iv) else None
                    fs = I.num(res.args[0]) if isinstance(res.args[0], Iv) else None
                    verdict = None
                    detail = ""
                    if ln is not None:
                        if ln[0] == ln[1] == elen:
                            verdict = True
                        elif ln[0] > elen or ln[1] < elen:
                            verdict = False
                            detail = "selects %s cell(s), Python selects %d" % ("%d" % ln[0] if ln[0] == ln[1] else "between %s and %s" % ln, elen)
                    if verdict is True and elen > 0:
                        if fs is None:
                            verdict = None
                        elif fs[0] == fs[1] == C * efirst:
                            verdict = True
                        elif fs[0] > C * efirst or fs[1] < C * efirst:
                            verdict = False
                            detail = "starts at raw offset %s, column %d of a view with stride %d is at offset %d" % ("%d" % fs[0] if fs[0] == fs[1] else "in [%s, %s]" % fs, efirst, C, C * efirst)
                        else:
                            verdict = None
                    if verdict is True and elen > 1 and len(res.args) > 2:
                        # stride: col_step * step
                        stv = I.num(res.args[2]) if isinstance(res.args[2], Iv) else None
                        steps = {e[2] for e in exp}
                        if stv is not None and len(steps) == 1:
                            est = C * next(iter(steps))
                            if stv[0] > est or stv[1] < est:
                                verdict = False
                                detail = "stride %s, Python's stride %d" % (stv, est)
                    if verdict is True:
                        ok += 1
                    elif verdict is False:
                        bad.append(("start=%s,stop=%s,step=%s" % (an, bn, sn), detail))
                    else:
                        unk += 1
        totals["holds"] += ok
        totals["unknown"] += unk
        totals["violated"] += len(bad)
        if bad:
            for key, detail in bad[:6]:
                ctx.violated(rule, m, what % (N, C), "slice %s on a row of %d cell(s): col_slice %s (%d cells of the selector partition disagree, %d agree)" % (
                    key, N, detail, len(bad), ok), key="model:N=%d,C=%d:%s" % (N, C, key), engine="E9")
        else:
            # a cell the interpreter could not evaluate exactly is not agreement: the obligation holds only when every cell was decided
            ctx.decide(rule, m, what % (N, C), True if (ok and not unk) else None, "%d of %d cells of the selector partition could not be evaluated exactly" % (unk, ok + unk),
                       key="model:N=%d,C=%d" % (N, C), engine="E9", detail_ok="%d cells of the selector partition agree, %d undecided" % (ok, unk))
    return totals


def ends_model(ctx, tk, rule, Ns=(1, 2, 3), col_steps=(1, 2, -1, -2)):
    """E9: `RaggedView2.ends` of a row of N >= 1 cells starting at s with column stride C is the position after the last *visited*
    cell, s + (N - 1) * C + 1 - that is what the index builder (`build_indices`: next start minus previous end plus one) consumes.
    The property is evaluated abstractly for N in 1..3 and C in {1, 2, -1, -2}; any formula with these values holds"""
    from .absint import Interp, Iv
    cls = ctx.program.cls("raggedshape.RaggedView2")
    m = cls.lookup("ends")
    what = "ends of a strided row view is the position after the last visited cell (start + (N - 1) * stride + 1)"
    if m is None:
        ctx.unknown(rule, "raggedshape.RaggedView2", what, "no `ends` found", key="ends-model", engine="E9")
        return
    bad, ok, unk = [], 0, 0
    for N in Ns:
        for C in col_steps:
            for s0 in (0, 7):
                I = Interp(ctx, cls, {"lengths": Iv(N, N), "starts": Iv(s0, s0), "col_step": Iv(C, C), "len:lengths": Iv(1, float("inf"))})
                try:
                    res = I.run(m, [], {})
                except RecursionError:
                    res = None
                want = s0 + (N - 1) * C + 1
                v = I.num(res) if isinstance(res, Iv) else None
                if v is None:
                    unk += 1
                elif v == (want, want):
                    ok += 1
                elif v[0] > want or v[1] < want:
                    bad.append("N=%d, stride %d, start %d: ends is %s, the index builder expects %d" % (N, C, s0, "%d" % v[0] if v[0] == v[1] else "in [%s, %s]" % v, want))
                else:
                    unk += 1
    ctx.decide(rule, m, what, False if bad else (True if (ok and not unk) else None), "; ".join(bad[:3]), key="ends-model", engine="E9",
               detail_ok="%d (N, stride, start) cases agree" % ok)


def scalar_column_is_python_int(ctx, tk, rule):
    """NEP 50: a numpy unsigned scalar times a negative Python int raises OverflowError (`np.uint8(1) * -1`).  A caller's
    integer column index is multiplied with the view's column stride, which is negative for reversed views: the index has to be
    turned into a Python int (int(), operator.index) first, otherwise `a[:, ::-1][:, np.uint8(1)]` fails where the same index on an
    equal, freshly built array works"""
    cls = ctx.program.cls("raggedshape.RaggedView2")
    m = cls.lookup("col_slice")
    if m is None:
        return
    what = "an integer column index is a Python int before it is multiplied with the (possibly negative) column stride"
    sp = m.params[1]
    mults = []
    for x in ast.walk(m.node):
        if isinstance(x, ast.BinOp) and isinstance(x.op, ast.Mult):
            sides = (x.left, x.right)
            if any(isinstance(y, ast.Attribute) and y.attr == "col_step" for sd in sides for y in ast.walk(sd)):
                other = [sd for sd in sides if not any(isinstance(y, ast.Attribute) and y.attr == "col_step" for y in ast.walk(sd))]
                if other:
                    mults.append((x, other[0]))
    normalised = any(isinstance(x, ast.Call) and ((isinstance(x.func, ast.Name) and x.func.id == "int") or (isinstance(x.func, ast.Attribute) and x.func.attr == "index"))
                     and x.args and any(isinstance(y, ast.Name) and y.id == sp for y in ast.walk(x.args[0])) for x in ast.walk(m.node))
    fa = ctx.fa(m)
    raw = []
    for x, other in mults:
        n = fa.node_of(x)
        if n is None:
            continue
        t = fa.term(other, n)
        # the factor is the caller's scalar itself (possibly plus lengths for negative indices)
        if any(y.k == "param" and y.a[0] == sp for a in alts(t) for y in walk(a)) and not any(y.k == "attr" and y.a[1] in ("start", "stop", "step") for a in alts(t) for y in walk(a)):
            raw.append(x)
    if not raw:
        ctx.holds(rule, m, what + " [no scalar index reaches the stride]", key="scalar-index", engine="KB")
        return
    ctx.decide(rule, m, what, True if normalised else False,
               "`%s` multiplies the caller's index as it came: a numpy unsigned scalar (np.uint8(1)) times a negative stride raises OverflowError, so a reversed "
               "view refuses an index that an equal fresh array accepts" % ast.unparse(raw[0]), node=raw[0], key="scalar-index", engine="KB")


def int_column_model(ctx, tk, rule, Ns=(0, 1, 2, 3), col_steps=(1, 2, -1)):
    """E9: an integer column of a view whose rows all have N cells: an index in [-N, N) addresses cell (idx mod N) of every row
    (raw offset col_step * (idx mod N), one cell per row); every other index is refused on every path"""
    from .absint import Interp, Iv, Obj, REFUSED, INF
    cls = ctx.program.cls("raggedshape.RaggedView2")
    m = cls.lookup("col_slice")
    what = "an integer column of rows with %d cell(s) (view stride %d) addresses cell idx mod N of each row and is refused outside [-N, N)"
    for N, C in [(n_, c_) for n_ in Ns for c_ in col_steps]:
        cells = [(str(v), Iv(v, v), v) for v in range(-N - 1, N + 2)] + [("<=%d" % (-N - 2), Iv(-INF, -N - 2), None), (">=%d" % (N + 2), Iv(N + 2, INF), None)]
        bad, ok, unk = [], 0, 0
        for name, av, v in cells:
            I = Interp(ctx, cls, {"lengths": Iv(N, N), "starts": Iv(0, 0), "col_step": Iv(C, C), "len:lengths": Iv(1, INF), "len:rows": Iv(1, INF)})
            res = I.run(m, [av], {})
            in_range = v is not None and -N <= v < N
            if in_range:
                if isinstance(res, Obj) and len(res.args) >= 2 and isinstance(res.args[0], Iv) and isinstance(res.args[1], Iv):
                    a0, a1 = I.num(res.args[0]), I.num(res.args[1])
                    want = C * (v % N)
                    if a0 == (want, want) and a1 == (1, 1):
                        ok += 1
                    elif a0[0] > want or a0[1] < want or a1[0] > 1 or a1[1] < 1:
                        bad.append((name, "addresses raw offset %s with %s cell(s); cell %d is at offset %d" % (a0, a1, v % N, want)))
                    else:
                        unk += 1
                elif res is REFUSED:
                    bad.append((name, "is refused although the column exists"))
                else:
                    unk += 1
            else:
                if res is REFUSED:
                    ok += 1
                elif isinstance(res, Obj) and not I.undecided:
                    bad.append((name, "is not refused: it addresses raw offset %s, a cell of another row" % (res.args[0],)))
                else:
                    unk += 1        # (a refusing path whose condition the model cannot evaluate may exist)
        if bad:
            for name, detail in bad[:4]:
                ctx.violated(rule, m, what % (N, C), "column %s %s" % (name, detail), key="intcol:N=%d,C=%d:%s" % (N, C, name), engine="E9")
        else:
            ctx.decide(rule, m, what % (N, C), True if ok else None, key="intcol:N=%d,C=%d" % (N, C), engine="E9", detail_ok="%d index cells agree, %d undecided" % (ok, unk))
