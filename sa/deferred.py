"""Deferred effects: the body of a generator function runs at the first next(), not at the call.  A read
API written as a generator that materialises its receiver (or writes any state) inside the body moves that
effect to an unknown later point of the caller's history: what it yields then depends on writes made
between obtaining the iterator and consuming it.

Rule: no generator function reachable from the read-only entry points calls a materialiser.
The tree has no generator function today, so the recogniser is exercised on a built-in sample on every run
(a rule with zero instances would otherwise pass vacuously)."""
import ast

_SAMPLE = '''
def eager(self):
    flat = self.ravel()
    return (flat[s:e] for s, e in self.bounds())

def lazy(self):
    flat = self.ravel()
    for s, e in self.bounds():
        yield flat[s:e]

def outer(self):
    def inner():
        yield 1
    return list(inner())
'''


def own_yields(fn_node):
    """Yield / YieldFrom nodes that belong to this function (not to nested functions or lambdas)"""
    out = []
    stack = list(fn_node.body)
    while stack:
        x = stack.pop()
        if isinstance(x, (ast.FunctionDef, ast.AsyncFunctionDef, ast.Lambda, ast.ClassDef)):
            continue
        if isinstance(x, (ast.Yield, ast.YieldFrom)):
            out.append(x)
        stack.extend(ast.iter_child_nodes(x))
    return out


def self_check():
    mod = ast.parse(_SAMPLE)
    got = {f.name: bool(own_yields(f)) for f in mod.body}
    return got == {"eager": False, "lazy": True, "outer": False}


def check(ctx, tk, rule, coh):
    if not self_check():
        from .model import AnalysisError
        raise AnalysisError("generator recogniser failed its built-in sample")
    what = "a read API does not postpone materialisation (or any write) into a generator body"
    n_gen = 0
    for q, f in sorted(ctx.program.funcs.items()):
        if not isinstance(f.node, (ast.FunctionDef, ast.AsyncFunctionDef)) or not own_yields(f.node):
            continue
        n_gen += 1
        fa = ctx.fa(f)
        bad = None
        for tm, targets in tk.R.callees(fa):
            if tm.k != "call":
                continue
            if isinstance(tm.node, ast.Call) and coh.ts.is_materialiser_call(tm.node, fa):
                bad = tm
                break
        if bad is not None:
            ctx.violated(rule, f, what, "`%s` runs when the iterator is first advanced, not when it is obtained: a write to the source array in between "
                         "changes what is yielded (an ordinary function returning a generator expression materialises at the call)" % (bad,),
                         node=bad.node, engine="E2")
        else:
            ctx.holds(rule, f, what, engine="E2")
    ctx.holds(rule, "deferred.sample", "the generator recogniser separates a generator function from a function returning a generator expression", engine="E2",
              detail="%d generator functions in the tree" % n_gen)
