"""C17 - 2-D and ragged run-length arrays behave as one run-length array per row.

Decided: operand order of the scalar/column ufunc branches (E4); boundaries and values are selected,
concatenated and constructed in lock-step (E6 co-selection); row barriers in the encoders and in join_runs;
neighbour comparisons use complementary shifted slices (U6); ceiling rescale, reversal order and co-reversal in
stepped column ranges; column-range start/stop are wrapped and clamped into the rows (E8); dtype cases of the
column sum; canonicalisation must-pass before the 1-D constructor; reductions weight by run length.
Not decided: the run-locating arithmetic of _getitem_tuple, _col_any, from_intervals, decoded values.
"""
import ast
from ..lib import Toolkit
from ..guards import Formulas, check_guard, find_calls, facts_at, reachable_under, subject_dtype_of
from ..terms import alts, attr_chain, walk, is_const, call_name, np_call
from ..bounds import Intervals
from .. import rlrules, viewrules, layout
from .. import wellformed as W
from . import C16, C07

LEVEL_TEXT = ("static operand-flow (E4), co-selection/lock-step rules (E6), encoder barrier and complementary-slice rules (U6), "
              "ceil/reversal rules (U3), landmark intervals for column-range bounds (E8), dtype-class feasibility of the column sum "
              "over RunLength2dArray / RunLengthRaggedArray / IndexableMixin; structural necessary conditions of C17 - no pinned "
              "test touches these classes and most of their arithmetic is out of static reach (stated in DESIGN.md)")
ASSUMPTIONS = ["rows have length >= 1 (C17's stated domain) so every row has at least one run",
               "numpy sums signed integers in int64 and unsigned in uint64"]
MIN_OBLIGATIONS = 20
R2 = "runlengtharray.RunLength2dArray."
RR = "runlengtharray.RunLengthRaggedArray."
IM = "runlengtharray.IndexableMixin."


def check(ctx, tier):
    tk = Toolkit(ctx)
    C16.ufunc_branches(ctx, tk, ctx.func(R2 + "__array_ufunc__"), "C17.a", values_attr="_values", geom_attr="_indices")
    lock_step(ctx, tk)
    barriers(ctx, tk)
    f = ctx.func(IM + "_step_subset")
    rlrules.ceil_rescale(ctx, "C17.d", f)
    rlrules.co_reversal(ctx, "C17.d", f, "indices", "values")
    step_must_pass(ctx, tk, f)
    row_sum(ctx, tk)
    column_range_bounds(ctx, tk)
    col_sum(ctx, tk)
    first_match(ctx, "C17.l", ctx.func(RR + "argmax"))
    rebuilds_forward_geometry(ctx, tk)
    selected_rows_are_the_subject(ctx, tk)
    from ..coherence import Coherence, report
    coh = ctx.cached("coherence", lambda: Coherence(tk))
    report(coh, "C17.m", funcs=[q for q in ctx.program.funcs if q.startswith((R2, RR, IM)) or q == "runlengtharray.rlra_concatenate"])
    fs = [fn for q, fn in ctx.program.funcs.items() if q.startswith(R2) or q.startswith(RR) or q.startswith(IM) or q == "runlengtharray.rlra_concatenate"]
    fs = [fn for fn in fs if not fn.name.startswith("_RunLength")]
    tk.purity("C17.j", [fn for fn in fs if fn.name not in ("__init__",)], "operations on 2-D run-length arrays do not modify their operands", content_only=True)
    W.report(ctx, tk, "C17.k", fs)
    from .. import hazards as _hz, scopes as _sc
    _hz.generic(ctx, tk, "C17.z", _sc.scope(tk, "C17", depth=1))
    return {}


def lock_step(ctx, tk):
    f = ctx.func(IM + "__getitem__")
    fa = ctx.fa(f)
    sel = {}
    for n in fa.cfg.stmts():
        if n.kind == "stmt" and isinstance(n.ast, ast.Assign) and isinstance(n.ast.targets[0], ast.Name):
            tm = fa.term(n.ast.value, n)
            if tm.k == "sub" and (attr_chain(tm.a[0]) or ("",))[-1] in ("_indices", "_values"):
                sel[(attr_chain(tm.a[0]))[-1]] = (tm.a[1], n, n.ast.targets[0].id)
    what = "row selection applies one selector to the boundaries and to the values"
    if set(sel) != {"_indices", "_values"}:
        ctx.unknown("C17.b", f, what, engine="E6")
    else:
        ctx.decide("C17.b", f, what, sel["_indices"][0] == sel["_values"][0], "boundaries selected by %s, values by %s" % (sel["_indices"][0], sel["_values"][0]),
                   node=sel["_indices"][1].ast, engine="E6")
    for r in fa.cfg.returns():
        tm = fa.term(r.ast.value, r)
        if tm.k == "call" and len(tm.a[1]) >= 2 and tm.a[0].k in ("attr", "global"):
            a, b = tm.a[1][0], tm.a[1][1]
            ra = {(attr_chain(x) or ("",))[-1] for x in walk(a) if x.k == "attr" and x.a[1] in ("_indices", "_values")}
            rb = {(attr_chain(x) or ("",))[-1] for x in walk(b) if x.k == "attr" and x.a[1] in ("_indices", "_values")}
            ok = True if (ra == {"_indices"} and rb == {"_values"}) else (False if (ra == {"_values"} and rb == {"_indices"}) else None)
            ctx.decide("C17.b", f, "results are constructed as (boundaries, values) in that order", ok, "constructed from (%s, %s)" % (sorted(ra), sorted(rb)),
                       node=r.ast, key="ctor:%s" % r.lineno, engine="E6")
    g = ctx.func("runlengtharray.rlra_concatenate")
    ga = ctx.fa(g)
    p = g.params[0]
    for r in ga.cfg.returns():
        tm = ga.term(r.ast.value, r)
        if tm.k == "call" and len(tm.a[1]) == 2:
            cs = []
            for a in tm.a[1]:
                c = [x for x in walk(a) if x.k == "comp"]
                cs.append(c[0] if c else None)
            if all(cs):
                same = cs[0].a[2] == cs[1].a[2] and not cs[0].a[3] and not cs[1].a[3] and cs[0].a[2][0].k == "param"
                names = [(c.a[1].a[1] if c.a[1].k == "attr" else None) for c in cs]
                ok = True if (same and names == ["_indices", "_values"]) else (False if (not same or names == ["_values", "_indices"]) else None)
                ctx.decide("C17.b", g, "concatenation joins boundaries and values of the same operand list, in order, as (boundaries, values)", ok,
                           "components %s over %s / %s" % (names, cs[0].a[2][0], cs[1].a[2][0]), node=r.ast, engine="E6")
    # encoders: one row_lens for values, +1 for boundaries
    h = ctx.func(RR + "from_ragged_array")
    ha = ctx.fa(h)
    for r in ha.cfg.returns():
        tm = ha.term(r.ast.value, r)
        if tm.k == "call" and len(tm.a[1]) == 2:
            ind, val = tm.a[1]
            li = None
            for x in walk(ind):
                if x.k == "call" and len(x.a[1]) == 2 and x.a[1][1].k == "bin" and x.a[1][1].a[0] == "+" and is_const(x.a[1][1].a[2], 1):
                    li = x.a[1][1].a[1]
            lv = val.a[1][1] if (val.k == "call" and len(val.a[1]) == 2) else None
            ok = li is not None and lv is not None and li == lv
            ctx.decide("C17.b", h, "every row has one more boundary than values (boundary row lengths = value row lengths + 1)", True if ok else (False if (li is None and lv is not None) else None),
                       "boundary lengths %s, value lengths %s" % (li, lv), node=r.ast, key="plus-one", engine="E6")


def barriers(ctx, tk):
    specs = [(RR + "from_ragged_array", "starts"), (R2 + "join_runs", "starts")]
    for q, _ in specs:
        f = ctx.func(q)
        fa = ctx.fa(f)
        bar = []
        for n in fa.cfg.stmts():
            if n.kind == "stmt" and isinstance(n.ast, ast.Assign) and isinstance(n.ast.targets[0], ast.Subscript) and isinstance(n.ast.value, ast.Constant) and n.ast.value.value is True:
                idx = fa.term(n.ast.targets[0].slice, n)
                if layout.boundary_index(idx) == ("starts", 0, 0):
                    bar.append(n)
        cons = [n for n, c in find_calls(fa, lambda c: np_call(c, {"flatnonzero", "cumsum"}) or (c.a[0].k == "global" and c.a[0].a[0] == "RaggedArray"))]
        what = "the change mask is forced true at every row start (equal values across a row boundary belong to different runs)"
        if not bar:
            ctx.violated("C17.c", f, what, "no `mask[row starts] = True` barrier", engine="E1")
        else:
            later = [c for c in cons if fa.cfg.can_reach(bar[0], [c])]
            ctx.decide("C17.c", f, what, True if later and all(fa.cfg.must_pass(bar, c) or not fa.cfg.can_reach(fa.cfg.entry, [c]) for c in later) else None, node=bar[0].ast, engine="E1")
        for n in fa.cfg.stmts():
            if n.kind == "stmt" and isinstance(n.ast, ast.Assign):
                tm = fa.term(n.ast.value, n)
                for x in walk(tm):
                    if x.k == "cmp" and x.a[0] in ("!=", "=="):
                        C07.u6(ctx, "C17.i", f, x, n.ast)
    f = ctx.func(R2 + "from_array")
    fa = ctx.fa(f)
    forced = set()
    for n in fa.cfg.stmts():
        if n.kind == "stmt" and isinstance(n.ast, ast.Assign) and isinstance(n.ast.targets[0], ast.Subscript) and isinstance(n.ast.value, ast.Constant) and n.ast.value.value is True:
            forced.add(ast.unparse(n.ast.targets[0].slice).replace(" ", "").strip("()"))
    ok = {":,0", ":,-1"} <= forced or {"(slice(None,None,None),0)"} <= forced
    ctx.decide("C17.c", f, "in the matrix encoder the mask is forced true in the first and last column of every row", True if ok else False,
               "forced columns: %s" % sorted(forced), key="matrix-barrier", engine="E1")
    for q in (RR + "remove_empty_intervals",):
        f = ctx.func(q)
        fa = ctx.fa(f)
        for n in fa.cfg.stmts():
            if n.kind == "stmt" and isinstance(n.ast, ast.Assign):
                tm = fa.term(n.ast.value, n)
                if tm.k == "cmp" and tm.a[0] in ("!=", "=="):
                    _u6_last_axis(ctx, "C17.i", f, tm, n.ast)
            # the boundary keep-mask is "first boundary, then one per kept run": the complete run mask written behind a leading True.
            # A run mask cut at either end (mask[..., :-1] stored into [1:-1]) keeps a boundary for a run whose value is dropped
            if n.kind == "stmt" and isinstance(n.ast, ast.Assign) and isinstance(n.ast.targets[0], ast.Subscript) and isinstance(n.ast.value, (ast.Subscript, ast.Name)):
                tg = n.ast.targets[0]
                def last_slice(e):
                    sl = e.slice
                    if isinstance(sl, ast.Tuple) and sl.elts:
                        sl = sl.elts[-1]
                    return sl if isinstance(sl, ast.Slice) else None
                ts = last_slice(tg)
                vs = last_slice(n.ast.value) if isinstance(n.ast.value, ast.Subscript) else None
                if ts is not None and isinstance(ts.lower, ast.Constant) and ts.lower.value == 1:
                    full_target = ts.upper is None
                    cut_value = vs is not None and (vs.lower is not None or vs.upper is not None)
                    ctx.decide("C17.i", f, "boundaries and run values are filtered by the same run mask (one leading boundary plus one boundary per kept run)",
                               False if (cut_value or not full_target) else True,
                               "`%s`: the boundary mask covers another set of runs than the value mask - a run whose value is dropped keeps its boundary (or the reverse), "
                               "so a row ends up with as many boundaries as values" % ast.unparse(n.ast), node=n.ast, key="mask-pair", engine="E5")


def _u6_last_axis(ctx, rule, f, cmp_t, node):
    def sh(t):
        if t.k == "sub" and t.a[1].k == "tuple" and t.a[1].a[0] and t.a[1].a[0][-1].k == "slice":
            s = t.a[1].a[0][-1]
            a = 0 if is_const(s.a[0], None) else (s.a[0].a[0] if s.a[0].k == "const" else None)
            b = 0 if is_const(s.a[1], None) else (s.a[1].a[0] if s.a[1].k == "const" else None)
            return (t.a[0], (a, b))
        return None
    l, r = sh(cmp_t.a[1]), sh(cmp_t.a[2])
    if l is None or r is None or l[0] != r[0]:
        return
    ok = {l[1], r[1]} == {(0, -1), (1, 0)}
    ctx.decide(rule, f, "neighbouring boundaries along a row are compared through complementary shifted slices", ok,
               "slices %s and %s" % (l[1], r[1]), node=node, key="u6-row", engine="E5")


def step_must_pass(ctx, tk, f):
    fa = ctx.fa(f)
    calls = [n for n, c in find_calls(fa, lambda c: c.a[0].k == "attr" and c.a[0].a[1] == "remove_empty_intervals")]
    ok = bool(calls) and all(fa.cfg.must_pass(calls, r) for r in fa.cfg.returns())
    ctx.decide("C17.d", f, "stepped column ranges drop the runs emptied by the rescale before they are returned", True if ok else False,
               "a path returns boundaries with empty runs", key="remove-empty", engine="E1")


def row_sum(ctx, tk):
    f = ctx.func(R2 + "sum")
    fa = ctx.fa(f)
    from ..rlrules import weighted_sum_dtype
    weighted_sum_dtype(ctx, "C17.e", f)
    for n in fa.cfg.stmts():
        if n.kind == "stmt" and isinstance(n.ast, ast.Assign):
            tm = fa.term(n.ast.value, n)
            if tm.k == "bin" and tm.a[0] == "-":
                def sh(t):
                    if t.k == "sub" and t.a[1].k == "tuple" and t.a[1].a[0][-1].k == "slice":
                        s = t.a[1].a[0][-1]
                        return ((attr_chain(t.a[0]) or ("",))[-1], 0 if is_const(s.a[0], None) else s.a[0].a[0], 0 if is_const(s.a[1], None) else s.a[1].a[0])
                    return None
                l, r = sh(tm.a[1]), sh(tm.a[2])
                if l and r and l[0] == r[0] == "_indices":
                    ok = (l[1:] == (1, 0) and r[1:] == (0, -1))
                    ctx.decide("C17.e", f, "run lengths are next boundary minus previous boundary along each row", ok,
                               "computed as indices[%s] - indices[%s]%s" % (l[1:], r[1:], ": negative or zero lengths" if not ok else ""), node=n.ast, engine="E5")
    for r in fa.cfg.returns():
        tm = fa.term(r.ast.value, r)
        if tm.k == "bin" and tm.a[0] == "+":
            # fixed-width rows: the last run extends to the row end and is weighted by (row_len - last boundary)
            last = [o for o in (tm.a[1], tm.a[2]) if any(y.k == "sub" and (attr_chain(y.a[0]) or ("",))[-1] == "_values" and y.a[1].k == "tuple" and is_const(y.a[1].a[0][-1], -1) for y in walk(o))
                    and not any(np_call(y, {"sum"}) for y in walk(o))]
            for o in last:
                weighted = o.k == "bin" and o.a[0] == "*" and any(any((attr_chain(y) or ("",))[-1] == "_row_len" for y in walk(z)) for z in (o.a[1], o.a[2]))
                ctx.decide("C17.e", f, "the last run of a fixed-width row is weighted by its length (row_len - last boundary)", True if weighted else False,
                           "`%s` adds the last run's value once, whatever its length" % (o,), node=r.ast, key="last-run", engine="E5")
        for x in walk(tm):
            if np_call(x, {"sum"}) and x.a[1] and x.a[1][0].k == "bin" and x.a[1][0].a[0] == "*":
                ops = (x.a[1][0].a[1], x.a[1][0].a[2])
                hasv = any(any(y.k == "attr" and y.a[1] == "_values" for y in walk(o)) for o in ops)
                hasl = any(all(any(y.k == "bin" and y.a[0] == "-" for y in walk(a)) for a in alts(o)) for o in ops)
                ctx.decide("C17.e", f, "row sums weight the run values by the run lengths", True if (hasv and hasl) else None, node=r.ast, key="weighted:%s" % r.lineno, engine="E5")


def column_range_bounds(ctx, tk):
    f = ctx.func(IM + "_getitem_tuple")
    fa = ctx.fa(f)
    what = "column-range bounds are wrapped and clamped into [0, row length] before the runs containing them are located"
    found = 0
    for n in fa.cfg.stmts():
        if not (n.kind == "stmt" and isinstance(n.ast, ast.Assign) and isinstance(n.ast.targets[0], ast.Name) and n.ast.targets[0].id in ("start", "stop")):
            continue
        tm = fa.term(n.ast.value, n)
        core = tm
        if core.k == "sub":
            core = core.a[0]
        is_N = lambda t: t.k == "sub" and is_const(t.a[1], -1) and t.a[0].k == "attr" and t.a[0].a[1] == "shape"
        is_subj = lambda t: t.k == "attr" and t.a[1] in ("start", "stop")
        if not any(is_N(x) for x in walk(core)):
            continue
        found += 1
        facts = facts_at(fa, n)
        from ..bounds import refine_from_facts
        ref = refine_from_facts(facts, is_subj)
        viewrules_interval(ctx, "C17.g", f, fa, core, is_N, is_subj, ref, what, n.ast, "%s:%s" % (n.ast.targets[0].id, n.lineno))
        # the wrap N + bound is taken exactly for negative bounds (a bound of 0 stays 0)
        if any(x.k == "bin" and x.a[0] == "+" and ((is_N(x.a[1]) and is_subj(x.a[2])) or (is_N(x.a[2]) and is_subj(x.a[1]))) for x in walk(core)):
            subj_t = [y for x in walk(core) if x.k == "bin" and x.a[0] == "+" for y in (x.a[1], x.a[2]) if is_subj(y)][0]
            iv = ref.get(repr(subj_t))
            from ..bounds import le
            whatw = "a column-range bound is wrapped by the row length exactly when it is negative (a bound of 0 stays 0)"
            if iv is None:
                ctx.unknown("C17.g", f, whatw, "no sign test dominates the wrap", node=n.ast, key="wrap:%s" % n.ast.targets[0].id, engine="E8")
            else:
                okw = le(iv[1], (0, -1))
                ctx.decide("C17.g", f, whatw, True if okw is True else (False if okw is False else None),
                           "the wrap `%s` is taken for bounds up to %s: a bound of 0 becomes the row length (rl[:, 3:0:-1] comes back empty)" % (
                               core, iv[1][1] if isinstance(iv[1], tuple) and len(iv[1]) == 2 else iv[1]), node=n.ast, key="wrap:%s" % n.ast.targets[0].id, engine="E8")
    if not found:
        ctx.unknown("C17.g", f, what, "clamp statements not recognised", engine="E8")


def viewrules_interval(ctx, rule, f, fa, term, is_N, is_subj, ref, what, node, key):
    from ..bounds import mode, le, show, INF, NINF
    with mode("pos"):
        iv = Intervals(is_N, ref, fa=fa, is_subject=is_subj).iv(term)
    if iv is None:
        ctx.unknown(rule, f, what, "bounds of %s not decided" % (term,), node=node, key=key, engine="E8")
        return
    with mode("pos"):
        lo_ok, hi_ok = le((0, 0), iv[0]), le(iv[1], (1, 0))
    if lo_ok is True and hi_ok is True:
        ctx.holds(rule, f, what, node=node, key=key, engine="E8")
    elif lo_ok is False or hi_ok is False or iv[0] == NINF or iv[1] == INF:
        ctx.violated(rule, f, what, "the bound lies in [%s, %s] (N = row length): %s" % (show(iv[0]), show(iv[1]),
                     "a start/stop further from the row end than the row is long stays negative" if iv[0] == NINF or lo_ok is False else "a bound beyond the row end is not clamped"),
                     node=node, key=key, engine="E8")
    else:
        ctx.unknown(rule, f, what, "bounds [%s, %s]" % (show(iv[0]), show(iv[1])), node=node, key=key, engine="E8")


def col_sum(ctx, tk):
    f = ctx.func(R2 + "_col_sum")
    fa = ctx.fa(f)
    subj = lambda t: t.k == "attr" and t.a[1] == "dtype"
    casts = {}
    for kind in ("signed", "unsigned", "bool"):
        reach = reachable_under(fa, kind, subj)
        got = set()
        for n in fa.cfg.stmts():
            if n.id in reach and n.kind == "stmt" and isinstance(n.ast, ast.Assign):
                for x in ast.walk(n.ast.value):
                    if isinstance(x, ast.Call) and isinstance(x.func, ast.Attribute) and x.func.attr == "astype" and x.args:
                        got.add(ast.unparse(x.args[0]).split(".")[-1])
        casts[kind] = got
    # bool: numpy counts True cells (np.diff of a boolean array is !=, not a difference: the running sum would stay boolean)
    want = {"signed": {"int", "int64", "int_"}, "unsigned": {"uint64", "uint"}, "bool": {"int", "int64", "int_", "uint64", "uint"}}
    for kind in ("signed", "unsigned", "bool"):
        got = casts[kind]
        ok = True if (got and got <= want[kind]) else (False if not got or not (got & want[kind]) else None)
        ctx.decide("C17.h", f, "column sums of %s run values are accumulated in numpy's 64-bit accumulator type" % kind, ok,
                   ("bool values are accumulated as %s: np.diff of booleans is `!=` and the running sum stays boolean, so every column reports True instead of a count" % (sorted(got) or "their own dtype",)) if kind == "bool" else
                   ("%s values are accumulated as %s: differences and running sums wrap in the narrow dtype" % (kind, sorted(got) or "their own dtype")),
                   key="dtype:" + kind, engine="E1")
    calls = [n for n, c in find_calls(fa, lambda c: c.a[0].k == "attr" and c.a[0].a[1] == "remove_empty_intervals")]
    rets = fa.cfg.returns()
    ok = bool(calls) and all(any(n is r or fa.cfg.dominates(n, r) for n in calls) for r in rets)
    ctx.decide("C17.h", f, "merged boundaries pass remove_empty_intervals before the 1-D constructor (which refuses empty runs)", True if ok else False,
               "coincident boundaries of different rows reach RunLengthArray as empty runs", key="remove-empty", engine="E1")


def _searchsorted_side(t):
    """'left' / 'right' when the term is np.searchsorted(...) possibly with a constant added or subtracted, else None"""
    x = t
    while x.k == "bin" and x.a[0] in ("-", "+"):
        x = x.a[1]
    if np_call(x, {"searchsorted"}) or (x.k == "call" and x.a[0].k == "attr" and x.a[0].a[1] == "searchsorted"):
        side = dict(x.a[2]).get("side")
        if side is None:
            return "left"
        if side.k == "const" and side.a[0] in ("left", "right"):
            return side.a[0]
    return None


def first_match(ctx, rule, f):
    """argmax reports the FIRST position of the row maximum: among the (row, col) matches sorted by row the
    entry picked per row must be the first of its group"""
    fa = ctx.fa(f)
    what = "argmax picks the first match of each row (numpy's argmax semantics)"
    done = False
    for n in fa.cfg.stmts():
        if n.kind == "stmt" and isinstance(n.ast, ast.Assign):
            tm = fa.term(n.ast.value, n)
            for a in alts(tm):
                x = a
                while x.k == "item":
                    x = x.a[0]
                if np_call(x, {"unique"}) and any(k == "return_index" and is_const(v, True) for k, v in x.a[2]):
                    ctx.holds(rule, f, what + " [np.unique(rows, return_index=True)]", node=n.ast, engine="KB")
                    done = True
                elif _searchsorted_side(x) is not None:
                    # rows is ascending: side="left" finds the first entry of a group, side="right" (minus one) its last
                    if _searchsorted_side(x) == "right":
                        ctx.violated(rule, f, what, "`%s` locates the LAST match of every row (searchsorted(..., side='right') - 1): tied extrema report the last position" % (a,),
                                     node=n.ast, engine="KB")
                    else:
                        ctx.holds(rule, f, what + " [searchsorted, side='left']", node=n.ast, engine="KB")
                    done = True
                elif np_call(x, {"flatnonzero"}) and x.a[1] and np_call(x.a[1][0], {"diff"}):
                    kw = dict(x.a[1][0].a[2])
                    if "append" in kw and "prepend" not in kw:
                        ctx.violated(rule, f, what, "`%s` marks the LAST match of every row (np.diff(..., append=) is non-zero where a group ends): tied maxima report the last position" % (x,),
                                     node=n.ast, engine="KB")
                        done = True
                    elif "prepend" in kw and "append" not in kw:
                        ctx.holds(rule, f, what, node=n.ast, engine="KB")
                        done = True
                elif np_call(x, {"flatnonzero"}) and x.a[1]:
                    m = x.a[1][0]
                    # group boundaries from a neighbour comparison: True appended at the END marks group-last entries,
                    # True put at the START marks group-first entries
                    if np_call(m, {"append"}) and len(m.a[1]) == 2 and is_const(m.a[1][1], True):
                        ctx.violated(rule, f, what, "`%s` marks the LAST match of every row: a row whose maximum occurs in several runs reports the last one" % (x,), node=n.ast, engine="KB")
                        done = True
                    elif np_call(m, {"insert"}) and len(m.a[1]) == 3 and is_const(m.a[1][1], 0) and is_const(m.a[1][2], True):
                        ctx.holds(rule, f, what, node=n.ast, engine="KB")
                        done = True
    if not done:
        ctx.unknown(rule, f, what, "group selection not recognised", engine="KB")


def rebuilds_forward_geometry(ctx, tk):
    """E6 sibling agreement: a method that rebuilds its own class from self's boundaries hands every geometry field on.
    RunLength2dArray(indices, values, row_len): a rebuild without row_len makes a fixed-width array forget its width"""
    init = ctx.func(R2 + "__init__")
    if "row_len" not in init.params:
        return
    pos = init.params.index("row_len") - 1
    for q, f in sorted(ctx.program.funcs.items()):
        if not q.startswith(R2) or f.cls is None or not f.params:
            continue
        fa = ctx.fa(f)
        selfn = f.params[0]
        calls = [(n, c) for n, c in find_calls(fa, lambda c: c.a[0].k == "attr" and c.a[0].a[1] == "__class__" and attr_chain(c.a[0]) and attr_chain(c.a[0])[0] == selfn
                                              and c.a[1] and attr_chain(c.a[1][0]) == (selfn, "_indices"))]
        for n, c in calls:
            arg = dict(c.a[2]).get("row_len", c.a[1][pos] if len(c.a[1]) > pos else None)
            ok = arg is not None and any((attr_chain(x) or ("",))[-1] == "_row_len" for x in walk(arg))
            ctx.decide("C17.n", f, "a result rebuilt over self's own boundaries keeps self's row width", True if ok else (False if arg is None else None),
                       "`%s` drops the row width: the result of a fixed-width array reports shape (n, None) and its last runs can no longer be decoded or reduced" % (c,),
                       node=c.node, key="row_len:%d" % getattr(n, "lineno", 0), engine="E6")


def selected_rows_are_the_subject(ctx, tk):
    """in the (rows, columns) path the column work is done on the row-selected object; boundaries read from `self`
    there belong to other rows as soon as the selector reorders, repeats or drops rows"""
    f = ctx.func(IM + "_getitem_tuple")
    fa = ctx.fa(f)
    selfn = f.params[0]
    sel = [n for n in fa.cfg.stmts() if n.kind == "stmt" and isinstance(n.ast, ast.Assign) and isinstance(n.ast.targets[0], ast.Name)
           and isinstance(n.ast.value, ast.Subscript) and isinstance(n.ast.value.value, ast.Name) and n.ast.value.value.id == selfn]
    what = "after the row selection, column bounds and run boundaries are read from the selected rows, not from self"
    if not sel:
        ctx.unknown("C17.n", f, what, "row selection statement not recognised", engine="E2")
        return
    bad = []
    n_reads = 0
    for n in fa.cfg.stmts():
        if n in sel or not any(fa.cfg.dominates(s, n) for s in sel) or n.ast is None:
            continue
        from ..resolve import _exprs_of_node
        doms = [s_ for s_ in sel if fa.cfg.dominates(s_, n)]
        row_sels = {ast.unparse(s_.ast.value.slice) for s_ in doms}
        for e in _exprs_of_node(n):
            # self._indices[<the row selector>] is the row selection itself, spelled out
            reselect = {id(x.value) for x in ast.walk(e) if isinstance(x, ast.Subscript) and isinstance(x.value, ast.Attribute) and ast.unparse(x.slice) in row_sels}
            for x in ast.walk(e):
                if isinstance(x, ast.Attribute) and x.attr in ("_indices", "_values", "_row_len", "shape") and isinstance(x.value, ast.Name):
                    n_reads += 1
                    if x.value.id == selfn and x.attr != "_row_len" and id(x) not in reselect:
                        bad.append((n, x))
    if bad:
        n, x = bad[0]
        dom = [s_ for s_ in sel if fa.cfg.dominates(s_, n)]
        ctx.violated("C17.n", f, what, "`%s` is read after `%s`: with a selector that reorders or repeats rows the bound of another row is used" % (
            ast.unparse(x), ast.unparse((dom or sel)[0].ast)), node=n.ast, key="stale-receiver", engine="E2")
    else:
        ctx.decide("C17.n", f, what, True if n_reads else None, key="stale-receiver", engine="E2")
