#!/venv/bin/python
"""Copy the detection result of the last full tools/try_seeded.py run (seeded/RESULTS.json) into each
seeded/<id>/meta.json (`caught_by`, `own_property_check_catches_it`): the must-fire corpus of the thorough
tier (sa/selftest.py) reads it from there."""
import json
import os

V = "/verif/seeded"
R = json.load(open(os.path.join(V, "RESULTS.json")))
for sid, res in sorted(R.items()):
    mp = os.path.join(V, sid, "meta.json")
    if not os.path.exists(mp):
        continue
    m = json.load(open(mp))
    caught = sorted(p for p, r in res.items() if isinstance(r, dict) and r.get("rc") == 1)
    m["caught_by"] = caught
    m["own_property_check_catches_it"] = sid.split("-")[0] in caught
    json.dump(m, open(mp, "w"), indent=1)
print("updated", len(R))
