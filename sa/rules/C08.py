"""C08 - structural array functions preserve row structure and element order.

Decided: order/parallelism of concatenation operands; sibling agreement of the *_like trio; flat->(row,col)
lookup side; delegation order in where; coherence (E2) of subset / mask selection / padding; wrap, clamp and
non-negative-length idioms of ragged_slice; NPSIndexable dispatch order.  Not decided: contents.
"""
import ast
from ..lib import Toolkit
from ..guards import find_calls, facts_at
from ..terms import alts, attr_chain, walk, is_const, call_name, np_call
from ..coherence import Coherence, report, report_raw_access
from .. import layout, viewrules
from .. import wellformed as W

LEVEL_TEXT = ("static sibling/comprehension agreement (E6), searchsorted-side and role rules (E5), wrap/clamp idiom rules (E8), "
              "operand-order rules (E4) and typestate (E2) over concatenate, *_like, nonzero, where, subset, ragged_slice, "
              "as_padded_matrix and NPSIndexable; structural necessary conditions of C08")
ASSUMPTIONS = ["np.where(cond, x, y) picks x where cond is true", "searchsorted(side='right') returns the index after the last boundary <= position"]
MIN_OBLIGATIONS = 22
AF = "arrayfunctions."
RA = "raggedarray.RaggedArray."


def check(ctx, tier):
    tk = Toolkit(ctx)
    concatenate(ctx, tk)
    like_trio(ctx, tk)
    layout.index_map_rules(ctx, tk, "C08.c")
    nonzero(ctx, tk)
    where(ctx, tk)
    subset(ctx, tk)
    ragged_slice(ctx, tk)
    padded(ctx, tk)
    padded_fresh(ctx, tk)
    padded_degenerate(ctx, tk)
    npsindexable(ctx, tk)
    coh = ctx.cached("coherence", lambda: Coherence(tk))
    fs = [AF + n for n in ("concatenate", "where", "zeros_like", "ones_like", "empty_like")] + \
         [RA + n for n in ("nonzero", "_as_padded_matrix")] + ["raggedarray.indexablearray.IndexableArray.subset",
                                                               "raggedarray.indexablearray.IndexableArray._get_row_subset",
                                                               "raggedarray.raggedslice.ragged_slice"]
    report(coh, "C08.i", funcs=fs)
    before = len(ctx.obligations)
    report_raw_access(coh, "C08.i")
    ctx.obligations[before:] = [o for o in ctx.obligations[before:] if o.rule.endswith("VC2")]
    W.report(ctx, tk, "C08.i", [ctx.func(q) for q in fs])
    tk.purity("C08.p", [ctx.func(q) for q in ['arrayfunctions.concatenate', 'arrayfunctions.where', 'arrayfunctions.zeros_like', 'arrayfunctions.ones_like', 'arrayfunctions.empty_like', 'raggedarray.RaggedArray.nonzero', 'raggedarray.RaggedArray._as_padded_matrix', 'raggedarray.indexablearray.IndexableArray.subset', 'raggedarray.raggedslice.ragged_slice']], "the operation does not write into its operands' buffers", content_only=True)
    from .. import hazards as _hz, scopes as _sc
    _hz.generic(ctx, tk, "C08.z", _sc.scope(tk, "C08", depth=1))
    # the array functions read .size / the memos of the selections they are given: a derived object must not inherit them
    _hz.h64_memo_handed_to_a_derived_object(ctx, tk, "C08.z/H64", [f_ for q_, f_ in sorted(ctx.program.funcs.items())
                                                                    if q_.startswith("raggedarray.base.RaggedBase.") and f_ not in _sc.scope(tk, "C08", depth=1)])
    return {}


def _plain_iter(it, pname):
    """True: iterates the parameter itself (possibly through list()/tuple()); False: filtered / reversed /
    sliced / reassigned from a filtering expression; None: unknown"""
    res = []
    for a in alts(it):
        x = a
        while x.k == "call" and x.a[0].k == "global" and x.a[0].a[0] in ("list", "tuple") and len(x.a[1]) == 1:
            x = x.a[1][0]
        if x.k == "param" and x.a[0] == pname:
            res.append(True)
        elif x.k == "comp" and (x.a[3] or not (len(x.a[2]) == 1 and _plain_iter(x.a[2][0], pname))):
            res.append(False)
        elif x.k == "sub" and x.a[1].k == "slice":
            res.append(False)
        elif x.k == "bool":
            res.append(False if any(_plain_iter(v, pname) is False for v in x.a[1]) else None)
        elif x.k == "call" and x.a[0].k == "global" and x.a[0].a[0] in ("reversed", "sorted", "filter", "set"):
            res.append(False)
        else:
            res.append(None)
    if any(r is False for r in res):
        return False
    return True if res and all(r is True for r in res) else None


def concatenate(ctx, tk):
    f = ctx.func(AF + "concatenate")
    fa = ctx.fa(f)
    p = f.params[0]
    for r in fa.cfg.returns():
        tm = fa.term(r.ast.value, r)
        if tm.k != "call":
            continue
        facts = facts_at(fa, r)
        ax0 = any(t.k == "cmp" and t.a[0] == "==" and is_const(t.a[2], 0) and truth for t, truth, _ in facts)
        if ax0 and len(tm.a[1]) >= 2:
            data, lens = tm.a[1][0], tm.a[1][1]
            cd = [c for c in walk(data) if c.k == "comp"]
            cl = [c for c in walk(lens) if c.k == "comp"]
            what = "rows are concatenated from all operands, in order: flat data and row lengths iterate the same, unfiltered operand list"
            if not cd or not cl:
                ctx.unknown("C08.a", f, what, node=r.ast, engine="E6")
                continue
            d, l = cd[0], cl[0]
            pd, pl = _plain_iter(d.a[2][0], p), _plain_iter(l.a[2][0], p)
            same = d.a[2][0] == l.a[2][0] and not d.a[3] and not l.a[3]
            ok = True if (pd and pl and same) else (False if (pd is False or pl is False or not same) else None)
            ctx.decide("C08.a", f, what, ok, "data iterates %s, lengths iterate %s" % (d.a[2][0], l.a[2][0]), node=r.ast, key="axis0", engine="E6")
            ed, el = d.a[1], l.a[1]
            okd = ed.k == "call" and ed.a[0].k == "attr" and ed.a[0].a[1] == "ravel" and ed.a[0].a[0].k == "elem"
            okl = el.k == "attr" and el.a[1] == "lengths" and el.a[0].k == "attr" and el.a[0].a[1] == "_shape" and el.a[0].a[0].k == "elem"
            ctx.decide("C08.a", f, "each operand contributes its flat data and its row lengths", True if (okd and okl) else None, node=r.ast, key="axis0-elts", engine="E6")
            cls = tm.a[0]
            okc = any(x.k == "sub" and is_const(x.a[1], 0) for x in walk(cls))
            ctx.decide("C08.a", f, "the result has the class of the first operand", True if okc else None, node=r.ast, key="axis0-class", engine="E6")
        elif not ax0 and tm.a[1]:
            rows = tm.a[1][0]
            cs = [c for c in walk(rows) if c.k == "comp"]
            what = "column-wise concatenation joins corresponding rows of all operands, in operand order"
            ok = None
            for c in cs:
                it = c.a[2][0]
                if it.k == "call" and call_name(it) == "zip" and len(it.a[1]) == 1 and it.a[1][0].k == "star":
                    ok = _plain_iter(it.a[1][0].a[0], p)
            ctx.decide("C08.a", f, what, ok, node=r.ast, key="axis1", engine="E6")


def like_trio(ctx, tk):
    names = ("zeros_like", "ones_like", "empty_like")
    fs = [ctx.func(AF + n) for n in names]
    norm = []
    for f, n in zip(fs, names):
        src = "\n".join(ast.unparse(st) for st in f.node.body if not (isinstance(st, ast.Expr) and isinstance(st.value, ast.Constant)))
        src = src.replace("np." + n.split("_")[0], "np.<alloc>")
        norm.append(src)
    what = "zeros_like / ones_like / empty_like are the same routine except for the numpy allocator"
    ok = norm[0] == norm[1] == norm[2]
    ctx.decide("C08.b", fs[0], what, True if ok else None, "bodies differ beyond the allocator", key="siblings", engine="E6")
    for f, n in zip(fs, names):
        fa = ctx.fa(f)
        p = f.params[0]
        for r in fa.cfg.returns():
            tm = fa.term(r.ast.value, r)
            if tm.k != "call":
                continue
            kw = dict(tm.a[2])
            data = tm.a[1][0] if tm.a[1] else None
            shp = kw.get("shape", tm.a[1][1] if len(tm.a[1]) > 1 else None)
            okg = shp is not None and any(a.k == "attr" and a.a[1] == "_shape" and a.a[0].k == "param" and a.a[0].a[0] == p for a in alts(shp))
            ctx.decide("C08.b", f, "the result carries the operand's row geometry", True if okg else (False if shp is None else None),
                       "no geometry passed: the flat buffer would be parsed as a list of rows", node=r.ast, key="geometry", engine="E5")
            nm = np_call(data, {"zeros", "ones", "empty", "full"}) if data is not None else None
            if nm:
                want = n.split("_")[0]
                ctx.decide("C08.b", f, "%s allocates with np.%s" % (n, want), nm == want, "allocates with np.%s" % nm, node=r.ast, key="allocator", engine="E6")
                ext = data.a[1][0] if data.a[1] else None
                oke = ext is not None and ext.k == "attr" and ext.a[1] == "size"
                bad = ext is not None and ext.k == "attr" and ext.a[1] in ("n_rows",) or (ext is not None and ext.k == "call" and call_name(ext) == "len")
                ctx.decide("C08.b", f, "the flat buffer has one entry per cell (geometry.size), not per row", True if oke else (False if bad else None),
                           "extent is %s" % (ext,), node=r.ast, key="extent", engine="E5")


def nonzero(ctx, tk):
    f = ctx.func(RA + "nonzero")
    fa = ctx.fa(f)
    for r in fa.cfg.returns():
        tm = fa.term(r.ast.value, r)
        ok = None
        if tm.k == "call" and tm.a[0].k == "attr" and tm.a[0].a[1] == "unravel_multi_index" and tm.a[1]:
            a = tm.a[1][0]
            ok = bool(np_call(a, {"flatnonzero"}) and a.a[1] and a.a[1][0].k == "call" and a.a[1][0].a[0].k == "attr" and a.a[1][0].a[0].a[1] == "ravel")
        ctx.decide("C08.c", f, "nonzero unravels the flat positions of the non-zero cells of the materialised buffer (row-major order)", ok, node=r.ast, key="nonzero", engine="E5")


def where(ctx, tk):
    f = ctx.func(AF + "where")
    fa = ctx.fa(f)
    mp, xp, yp = f.params[0], f.params[1], f.params[2]
    calls = find_calls(fa, lambda c: np_call(c, {"where"}) and len(c.a[1]) == 3)
    what = "where(mask, x, y) forwards (mask, x, y) to np.where in that order"
    if not calls:
        ctx.unknown("C08.d", f, what, engine="E4")
    for n, c in calls:
        roots = []
        for a in c.a[1]:
            roots.append({x.a[0] for x in walk(a) if x.k == "param"} & {mp, xp, yp})
        ok = True if (mp in roots[0] and roots[1] == {xp} and roots[2] == {yp}) else (
            False if (roots[1] == {yp} and roots[2] == {xp}) or (xp in roots[0] and mp not in roots[0]) else None)
        ctx.decide("C08.d", f, what, ok, "operands derive from %s" % [sorted(r) for r in roots], node=c.node, engine="E4")
    for r in fa.cfg.returns():
        tm = fa.term(r.ast.value, r)
        if tm.k == "call" and len(tm.a[1]) >= 2:
            g = tm.a[1][1]
            okg = any(a.k == "attr" and a.a[1] == "_shape" and any(x.k == "param" and x.a[0] == mp for x in walk(a.a[0])) for a in alts(g))
            ctx.decide("C08.d", f, "the result has the mask's row geometry", True if okg else None, node=r.ast, key="geometry", engine="E5")


def subset(ctx, tk):
    f = ctx.func("raggedarray.indexablearray.IndexableArray.subset")
    fa = ctx.fa(f)
    selfn, mp = f.params[0], f.params[1]
    for r in fa.cfg.returns():
        tm = fa.term(r.ast.value, r)
        if tm.k == "call" and len(tm.a[1]) >= 2:
            data, lens = tm.a[1][0], tm.a[1][1]
            okd = data.k == "sub" and data.a[0].k == "call" and data.a[0].a[0].k == "attr" and data.a[0].a[0].a[1] == "ravel" and data.a[0].a[0].a[0].k == "param" \
                and data.a[0].a[0].a[0].a[0] == selfn and data.a[1].k == "call" and data.a[1].a[0].k == "attr" and data.a[1].a[0].a[1] == "ravel" \
                and data.a[1].a[0].a[0].k == "param" and data.a[1].a[0].a[0].a[0] == mp
            ctx.decide("C08.e", f, "the kept cells are the array's materialised data selected by the materialised mask", True if okd else None, node=r.ast, key="data", engine="E2")
            roots = {x.a[0] for x in walk(lens) if x.k == "param"}
            ok = True if roots == {mp} else (False if roots == {selfn} else None)
            ctx.decide("C08.e", f, "the new row lengths are the per-row counts of true mask cells (not of the data)", ok, "lengths derive from %s" % sorted(roots),
                       node=r.ast, key="lengths", engine="E5")
            if np_call(lens, {"sum", "count_nonzero"}):
                ax = dict(lens.a[2]).get("axis")
                ctx.decide("C08.e", f, "the mask is counted along the last axis (per row)", True if (ax is not None and ax.k == "const" and ax.a[0] in (-1, 1)) else (False if ax is None or ax.k == "const" else None),
                           "axis=%s" % (ax,), node=r.ast, key="axis", engine="E5")


def ragged_slice(ctx, tk):
    f = ctx.func("raggedarray.raggedslice.ragged_slice")
    fa = ctx.fa(f)
    ap, sp, ep = f.params[0], f.params[1], f.params[2]
    calls = find_calls(fa, lambda c: c.a[0].k == "global" and c.a[0].a[0] == "RaggedView" and len(c.a[1]) >= 2)
    if not calls:
        ctx.unknown("C08.f", f, "window view construction", "RaggedView(starts, lengths) not found", engine="E5")
    for n, c in calls:
        starts, lengths = c.a[1][0], c.a[1][1]
        # U5: lengths clamped at 0
        ok = None
        if np_call(lengths, {"maximum"}) and len(lengths.a[1]) == 2 and any(is_const(x, 0) for x in lengths.a[1]):
            ok = True
        elif lengths.k == "bin" and lengths.a[0] == "-":
            ok = False
        ctx.decide("C08.f", f, "window lengths (end - start) are clamped at 0", ok, "lengths are %s" % (lengths,), node=c.node, key="clamp", engine="E5")
        # ends: where(ends < 0, base_ends + ends, minimum(base_starts + ends, base_ends))
        ends = None
        if ok and lengths.k == "call":
            for x in lengths.a[1]:
                if x.k == "bin" and x.a[0] == "-":
                    ends = x.a[1]
        found = False
        if ends is not None:
            for a in alts(ends):
                if np_call(a, {"where"}) and len(a.a[1]) == 3:
                    cond, neg, pos = a.a[1]
                    found = True
                    strict = cond.k == "cmp" and cond.a[1].k == "param" and cond.a[1].a[0] == ep and is_const(cond.a[2], 0)
                    if strict:
                        ctx.decide("C08.f", f, "a window end is counted from the row end exactly when it is negative (end 0 is the empty window at the row start)",
                                   cond.a[0] == "<", "`%s`: an end of 0 is counted from the row end and selects the whole remainder of the row" % (cond,),
                                   node=c.node, key="neg-end", engine="E8")
                    okn = neg.k == "bin" and neg.a[0] == "+" and any(_is_base(x, "ends") for x in alts(neg.a[1])) and neg.a[2].k == "param"
                    ctx.decide("C08.f", f, "a negative end is added to the row end", True if okn else (False if neg.k == "bin" and any(_is_base(x, "starts") for x in alts(neg.a[1])) else None),
                               "negative branch is %s" % (neg,), node=c.node, key="neg-branch", engine="E5")
                    okp = np_call(pos, {"minimum"}) and len(pos.a[1]) == 2
                    ctx.decide("C08.f", f, "a non-negative end is clamped to the row end", True if okp else (False if pos.k == "bin" else None),
                               "non-negative branch is %s: a window may run into the next row" % (pos,), node=c.node, key="pos-clamp", engine="E8")
        if not found:
            ctx.unknown("C08.f", f, "window end normalisation", "np.where(ends < 0, ...) not recognised", node=c.node, key="neg-end", engine="E8")


def _is_base(t, which):
    c = attr_chain(t)
    return bool(c and c[-1] == which and "_shape" in c) or (t.k == "const" and which == "starts" and t.a[0] == 0)


def padded(ctx, tk):
    f = ctx.func(RA + "_as_padded_matrix")
    fa = ctx.fa(f)
    # fill store targets the fresh gather result
    for n in fa.cfg.stmts():
        if n.kind == "stmt" and isinstance(n.ast, ast.Assign) and isinstance(n.ast.targets[0], ast.Subscript):
            base = fa.term(n.ast.targets[0].value, n)
            fr = tk.E.fresh(base, fa)
            ctx.decide("C08.g", f, "the pad value is stored into the freshly gathered matrix, not into the array's buffer",
                       True if fr[0] == "fresh" else (False if fr[0] == "alias" else None), "store target aliases the operand", node=n.ast, key="fill-target", engine="E3")
            val = fa.term(n.ast.value, n)
            ctx.decide("C08.g", f, "padding cells receive fill_value", True if (val.k == "param" and val.a[0] == "fill_value") else None, node=n.ast, key="fill-value", engine="E4")
    for n in fa.cfg.stmts():
        if n.kind == "stmt" and isinstance(n.ast, ast.Assign):
            tm = fa.term(n.ast.value, n)
            if np_call(tm, {"minimum"}) and len(tm.a[1]) == 2:
                hi = tm.a[1][1]
                ok = hi.k == "bin" and hi.a[0] == "-" and is_const(hi.a[2], 1) and hi.a[1].k == "sub" and is_const(hi.a[1].a[1], -1)
                ctx.decide("C08.g", f, "gather positions are clamped to the last cell of the buffer", True if ok else None, node=n.ast, key="gather-clamp", engine="E8")


def padded_fresh(ctx, tk):
    """the padded matrix is a new array on every path: a shortcut handing back (a reshaped view of) the array's own buffer
    makes later writes into the matrix change the ragged array"""
    f = ctx.func(RA + "_as_padded_matrix")
    fa = ctx.fa(f)
    what = "the padded matrix shares no memory with the ragged array it was made from"
    for r in fa.cfg.returns():
        if r.ast.value is None:
            continue
        tm = fa.term(r.ast.value, r)
        fr = tk.E.fresh(tm, fa)
        ctx.decide("C08.g", f, what, True if fr[0] == "fresh" else (False if fr[0] == "alias" and any(x[0] != "<global>" for x in fr[1]) else None),
                   "`%s` may be (a view of) the array's own buffer" % (tm,), node=r.ast, key="fresh-result", engine="E3")


def padded_degenerate(ctx, tk):
    """arrays without cells (zero rows, or only empty rows) have a padded matrix too: (n_rows, 0).  `reshape((-1, w))` cannot infer
    the row count when w == 0 (ValueError), and the longest row of zero rows does not exist (np.max of an empty array raises)"""
    f = ctx.func(RA + "_as_padded_matrix")
    fa = ctx.fa(f)

    def sized(n):
        for test, truth in fa.cfg.facts_at(n):
            for y in ast.walk(test.ast):
                if (isinstance(y, ast.Attribute) and y.attr in ("size", "n_rows")) or (isinstance(y, ast.Call) and isinstance(y.func, ast.Name) and y.func.id == "len"):
                    return True
        return False
    for n in fa.cfg.stmts():
        if n.ast is None:
            continue
        for x in ast.walk(n.ast):
            if isinstance(x, ast.Call) and isinstance(x.func, ast.Attribute) and x.func.attr == "reshape":
                args = x.args[0].elts if (len(x.args) == 1 and isinstance(x.args[0], (ast.Tuple, ast.List))) else x.args
                inferred = any(isinstance(a, ast.UnaryOp) and isinstance(a.op, ast.USub) and isinstance(a.operand, ast.Constant) and a.operand.value == 1 for a in args)
                if inferred and len(args) == 2:
                    ctx.decide("C08.g", f, "the padded matrix of an array whose rows are all empty is (n_rows, 0): its row count is not left to reshape(-1, width)",
                               True if sized(n) else False, "`%s`: with a width of 0 numpy cannot infer the number of rows (ValueError) - an array of only empty rows has no padded matrix" % ast.unparse(x),
                               node=x, key="reshape-width-0", engine="KB")
            if isinstance(x, ast.Call) and isinstance(x.func, ast.Attribute) and x.func.attr in ("max", "amax") and not any(k.arg == "initial" for k in x.keywords):
                ctx.decide("C08.g", f, "the longest row is asked for only when there is a row", True if sized(n) else False,
                           "`%s` raises ValueError for an array with zero rows" % ast.unparse(x), node=x, key="max-of-no-rows", engine="KB")


def npsindexable(ctx, tk):
    f = ctx.func("mixin.NPSIndexable.__getitem__")
    fa = ctx.fa(f)
    for n, c in find_calls(fa, lambda c: c.a[0].k == "attr" and c.a[0].a[1] == "_ragged_slice"):
        if len(c.a[1]) == 2:
            a, b = c.a[1]
            ok = True if (a.k == "attr" and a.a[1] == "start" and b.k == "attr" and b.a[1] == "stop") else (
                False if (a.k == "attr" and a.a[1] == "stop" and b.k == "attr" and b.a[1] == "start") else None)
            ctx.decide("C08.h", f, "a slice of two vectors is dispatched as _ragged_slice(start, stop) in that order", ok, "called with (%s, %s)" % (a, b), node=c.node, engine="E4")
    m = ctx.func("mixin.NPSArray._ragged_slice")
    ma = ctx.fa(m)
    for r in ma.cfg.returns():
        tm = ma.term(r.ast.value, r)
        if tm.k == "call" and len(tm.a[1]) == 3:
            names = [x.a[0] if x.k == "param" else None for x in tm.a[1]]
            ok = names == list(m.params)
            ctx.decide("C08.h", m, "NPSArray windows are ragged_slice(self, start, stop)", True if ok else (False if set(names) == set(m.params) else None),
                       "arguments %s" % names, node=r.ast, engine="E4")
