"""C12 - Counter totals equal the number of occurrences seen so far.

Decided: samples of empty buckets are dropped before the fast path that assumes none (typestate flag
empty_removed); keys, hashes and bucket views are filtered by the same selector; all three state branches add
the same full-size histogram of the hit positions (no branch leaves the counts untouched, none loses repeated
hits); early-return polarity; who writes the counts; samples are not narrowed into keys.  Not decided: totals,
batch invariance beyond these structural conditions.
"""
import ast
from ..lib import Toolkit
from ..guards import Formulas, check_guard, find_calls, facts_at
from ..terms import alts, attr_chain, walk, is_const, call_name, np_call
from .. import hazards
from .. import wellformed as W
from . import C11

LEVEL_TEXT = ("static typestate-flag rule (empty_removed), co-selection and sibling-branch agreement (E6), buffered-update hazard "
              "(KB), ownership of the counts buffer (E3) and cast rule over Counter.count and the geometry fast paths; structural "
              "necessary conditions of C12 (a thin claim on behaviour, stated as such)")
ASSUMPTIONS = ["x[idx] += v with repeated idx adds once per distinct index (numpy indexing documentation)",
               "np.bincount(x, minlength=m) has at least m entries and counts every occurrence"]
MIN_OBLIGATIONS = 14
CQ = "hashtable.Counter.count"


def check(ctx, tier):
    tk = Toolkit(ctx)
    f = ctx.func(CQ)
    flag_rule(ctx, tk)
    co_selection(ctx, tk, f)
    branches(ctx, tk, f)
    early_return(ctx, tk, f)
    sample_cast(ctx, tk, f)
    from .. import hazards as _hz0
    _hz0.accumulation_pairs_with_difference(ctx, tk, "C12.h")
    values_writers(ctx, tk)
    fast_dtype(ctx, tk)
    n0 = len(ctx.obligations)
    C11.single_hash(ctx, tk)
    ctx.obligations[n0:] = [o for o in ctx.obligations[n0:] if o.key in ("value-dtype-source", "mod-of-buckets") or o.func.endswith("Counter.count")]
    for o in ctx.obligations[n0:]:
        o.rule = "C12.i"
    C11.ownership(ctx, tk)
    for o in ctx.obligations:
        if o.rule == "C11.a":
            o.rule = "C12.e"
    n0 = len(ctx.obligations)
    C11.scalar_expansion(ctx, tk)      # the report (items / to_dict) of a counter that has not counted yet
    for o in ctx.obligations[n0:]:
        o.rule = "C12.j"
    hazards.h1_buffered_updates(ctx, tk, "C12.c", [f])
    W.report(ctx, tk, "C12.g", [f, ctx.func("hashtable.Counter.__init__"), ctx.func("raggedshape.RaggedView._get_flat_indices_fast"),
                                ctx.func("raggedshape.RaggedShape._broadcast_values_fast")])
    from .. import hazards as _hz, scopes as _sc
    _hz.generic(ctx, tk, "C12.z", _sc.scope(tk, "C12", depth=1))
    return {}


def flag_rule(ctx, tk):
    """empty_removed = True may only be stored on (i) a view indexed by flatnonzero(view.lengths) of itself,
    (ii) the shape returned by _get_flat_indices_fast (entered only under empty_rows_removed())"""
    for q, f in ctx.program.funcs.items():
        fa = None
        for sub in ast.walk(f.node):
            if isinstance(sub, ast.Attribute) and isinstance(sub.ctx, ast.Store) and sub.attr == "empty_removed":
                fa = fa or ctx.fa(f)
                n = fa.node_of(sub)
                if n is None or not fa.cfg.is_reachable(n):
                    continue
                obj = fa.term(sub.value, n)
                what = "the no-empty-rows flag is only set on geometry whose empty rows were actually removed"
                ok = None
                # (i) obj = V[flatnonzero(V.lengths)]
                for a in alts(obj):
                    if a.k == "sub":
                        base, idx = a.a
                        nz = np_call(idx, {"flatnonzero"}) and idx.a[1] and idx.a[1][0].k == "attr" and idx.a[1][0].a[1] == "lengths" and idx.a[1][0].a[0] == base
                        nz2 = idx.k == "cmp" and idx.a[0] in ("!=", ">") and is_const(idx.a[2], 0) and idx.a[1].k == "attr" and idx.a[1].a[1] == "lengths" and idx.a[1].a[0] == base
                        ok = True if (nz or nz2) else False
                    elif a.k == "call" and a.a[0].k == "attr" and a.a[0].a[1] == "get_shape" and f.name == "_get_flat_indices_fast":
                        ok = True
                    else:
                        ok = None if ok is not False else False
                ctx.decide("C12.a", f, what, ok, "flag set on %s, which may still contain empty rows: the fast paths then scatter two rows onto one start" % (obj,),
                           node=sub, engine="E1")
    # consumers entered only under the flag test
    for q, name in (("raggedshape.RaggedView.get_flat_indices", "_get_flat_indices_fast"), ("raggedshape.RaggedShape.broadcast_values", "_broadcast_values_fast")):
        f = ctx.func(q)
        fa = ctx.fa(f)
        sinks = [(n, c) for n, c in find_calls(fa, lambda c, name=name: c.a[0].k == "attr" and c.a[0].a[1] == name)]

        def e(t):
            if t.k == "call" and t.a[0].k == "attr" and t.a[0].a[1] == "empty_rows_removed":
                return ("flag", True)
            return None
        check_guard(ctx, "C12.a", f, sinks, Formulas([e]), lambda A: A["flag"], ["flag"],
                    "the fast path that assumes distinct row starts is entered only under the no-empty-rows flag", fa=fa)
    g = ctx.func("raggedshape.ViewBase.empty_rows_removed")
    ga = ctx.fa(g)
    for r in ga.cfg.returns():
        tm = ga.term(r.ast.value, r)
        ok = tm.k == "bool" and tm.a[0] == "and" and any(x.k == "attr" and x.a[1] == "empty_removed" for x in walk(tm))
        ctx.decide("C12.a", g, "the flag test is true only when the flag attribute is set and true", True if ok else None, node=r.ast, key="flag-test", engine="E1")


def co_selection(ctx, tk, f):
    fa = ctx.fa(f)
    sel = {}
    for n in fa.cfg.stmts():
        if n.kind == "stmt" and isinstance(n.ast, ast.Assign) and isinstance(n.ast.targets[0], ast.Name) and isinstance(n.ast.value, ast.Subscript) \
                and isinstance(n.ast.value.value, ast.Name) and n.ast.value.value.id == n.ast.targets[0].id:
            sel[n.ast.targets[0].id] = (fa.term(n.ast.value.slice, n), n)
    what = "samples, their hashes and their bucket views are filtered by one and the same selector"
    if len(sel) < 2:
        ctx.unknown("C12.b", f, what, "self-filtering assignments not recognised", engine="E6")
        return
    terms = {repr(v[0]) for v in sel.values()}
    ctx.decide("C12.b", f, what, len(terms) == 1, "selectors differ: %s" % {k: str(v[0]) for k, v in sel.items()}, node=list(sel.values())[0][1].ast, engine="E6")
    # which of the filtered variables are the samples / the bucket views (by what they are derived from)
    kinds = set()
    for name, (t, n) in sel.items():
        base = fa.term(n.ast.value.value, n)
        if any(x.k == "call" and x.a[0].k == "attr" and x.a[0].a[1] == "view" for x in walk(base)):
            kinds.add("views")
        elif any(x.k == "call" and x.a[0].k == "attr" and x.a[0].a[1] == "_get_hash" for x in walk(base)):
            kinds.add("hashes")
        elif any(x.k == "param" and x.a[0] == f.params[1] for x in walk(base)):
            kinds.add("samples")
    ctx.decide("C12.b", f, "the samples and the bucket views are both filtered", True if {"samples", "views"} <= kinds else False,
               "only %s are filtered: samples and views go out of step" % sorted(kinds), key="both", engine="E6")
    t = list(sel.values())[0][0]
    okm = np_call(t, {"flatnonzero"}) and t.a[1] and t.a[1][0].k == "attr" and t.a[1][0].a[1] == "lengths"
    ctx.decide("C12.b", f, "the selector keeps the samples whose bucket is non-empty", True if okm else None, key="selector", engine="E1")


def branches(ctx, tk, f):
    fa = ctx.fa(f)
    selfn = f.params[0]
    # classify statements writing the counts by the dominating state facts
    writes = []
    for n in fa.cfg.stmts():
        st = n.ast
        if n.kind != "stmt":
            continue
        if isinstance(st, ast.Assign) and isinstance(st.targets[0], ast.Attribute) and st.targets[0].attr == "_values":
            writes.append((n, "rebuild", fa.term(st.value, n)))
        elif isinstance(st, ast.AugAssign) and any(isinstance(x, ast.Attribute) and x.attr == "_values" for x in ast.walk(st.target)):
            writes.append((n, "inplace", fa.term(st.value, n)))
        elif isinstance(st, ast.Assign) and isinstance(st.targets[0], ast.Subscript) and any(isinstance(x, ast.Attribute) and x.attr == "_values" for x in ast.walk(st.targets[0])):
            writes.append((n, "store", fa.term(st.value, n)))
    what = "every state of the counts (scalar 0 / non-zero scalar / array) adds the full histogram of the hit positions"
    if not writes:
        ctx.violated("C12.c", f, what, "count never updates the counts", engine="E6")
        return
    rets = [r for r in fa.cfg.returns()]
    # completeness: every normal path after the no-hit return passes a write
    wn = [w[0] for w in writes]
    early = [r for r in rets]
    ok = fa.cfg.must_pass(wn + early, fa.cfg.exit)
    ctx.decide("C12.c", f, "no state branch leaves the counts untouched", True if ok else False, "a path through count() ends without updating the counts", key="complete", engine="E1")
    for n, kind, val in writes:
        facts = facts_at(fa, n)
        scalar = any(t.k == "call" and call_name(t) == "isinstance" and truth and any(x.k == "global" and x.a[0] == "Number" for x in walk(t)) for t, truth, _ in facts)
        zero = [truth for t, truth, _ in facts if t.k == "cmp" and t.a[0] == "==" and is_const(t.a[2], 0) and (attr_chain(t.a[1]) or ("",))[-1] == "_values"]
        state = "scalar-zero" if (scalar and zero == [True]) else ("scalar-nonzero" if (scalar and zero == [False]) else ("array" if not scalar else "scalar"))
        hist = [x for x in walk(val) if np_call(x, {"bincount"})]
        if not hist:
            ctx.violated("C12.c", f, what, "the %s branch updates the counts with %s: no histogram of the hit positions (repeated hits in one batch are lost)" % (state, val),
                         node=n.ast, key="hist:" + state, engine="E6")
            continue
        h = hist[0]
        ml = dict(h.a[2]).get("minlength", h.a[1][2] if len(h.a[1]) > 2 else None)
        okm = ml is not None and ml.k == "attr" and ml.a[1] == "size" and (attr_chain(ml.a[0]) or ("",))[-1] in ("_keys", "_values")
        ctx.decide("C12.c", f, "the histogram spans the whole key buffer in the %s branch" % state, True if okm else (False if ml is None else None),
                   "minlength=%s" % (ml,), node=n.ast, key="minlength:" + state, engine="E5")
        arg = h.a[1][0] if h.a[1] else None
        okf = arg is not None and arg.k == "call" and arg.a[0].k == "attr" and arg.a[0].a[1] == "ravel_multi_index"
        ctx.decide("C12.c", f, "the histogram counts flat positions (bucket start + offset of the key in its bucket)", True if okf else None, node=n.ast, key="flat:" + state, engine="E5")
        if state == "scalar-nonzero":
            data = val.a[1][0] if val.k == "call" and val.a[1] else val
            keeps = any((attr_chain(x) or ("",))[-1] == "_values" for x in walk(data))
            only_hist = np_call(data, {"bincount"}) is not None or (data.k == "call" and data.a[0].k == "attr" and data.a[0].a[1] == "astype" and np_call(data.a[0].a[0], {"bincount"}))
            ctx.decide("C12.c", f, "a non-zero initial value is added to the first histogram", True if keeps else (False if only_hist else None),
                       "the counts are rebuilt from the histogram alone: the initial value of every key is lost", node=n.ast, key="initial", engine="E6")
        if kind == "inplace":
            tg = n.ast.target
            whole = isinstance(tg, ast.Subscript) and isinstance(tg.slice, ast.Slice) and tg.slice.lower is None and tg.slice.upper is None
            ctx.decide("C12.c", f, "the running counts are updated over the whole buffer", True if whole else None, node=n.ast, key="whole", engine="E6")
            add = isinstance(n.ast.op, ast.Add)
            ctx.decide("C12.c", f, "the histogram is added to the running counts", add, "operator %s" % type(n.ast.op).__name__, node=n.ast, key="add", engine="E6")
        if kind == "rebuild" and val.k == "call" and len(val.a[1]) >= 2:
            g = val.a[1][1]
            ctx.decide("C12.c", f, "new counts are bucketed with the keys' geometry", True if (attr_chain(g) or ())[-2:] == ("_keys", "_shape") else None,
                       node=n.ast, key="geometry:" + state, engine="E6")
    states = set()
    for n, kind, val in writes:
        facts = facts_at(fa, n)
        scalar = any(t.k == "call" and call_name(t) == "isinstance" and truth for t, truth, _ in facts)
        states.add("scalar" if scalar else "array")
    ctx.decide("C12.c", f, "both the scalar and the array state are handled", states == {"scalar", "array"}, "handled states: %s" % sorted(states), key="states", engine="E6")
    # flat index = view.ravel_multi_index((rows, offsets)) with (rows, offsets) = nonzero of candidates == samples[:, None]
    for n, c in find_calls(fa, lambda c: c.a[0].k == "attr" and c.a[0].a[1] == "ravel_multi_index"):
        a = c.a[1][0] if c.a[1] else None
        ok = a is not None and a.k == "tuple" and len(a.a[0]) == 2 and all(x.k == "item" for x in a.a[0]) and [x.a[1] for x in a.a[0]] == [0, 1]
        sw = a is not None and a.k == "tuple" and len(a.a[0]) == 2 and all(x.k == "item" for x in a.a[0]) and [x.a[1] for x in a.a[0]] == [1, 0]
        ctx.decide("C12.c", f, "hit positions are (bucket row, offset in bucket) in that order", True if ok else (False if sw else None), node=c.node, key="rows-offsets", engine="E4")


def early_return(ctx, tk, f):
    fa = ctx.fa(f)
    for r in fa.cfg.returns():
        if r.ast.value is None:
            facts = facts_at(fa, r)
            pol = None
            for t, truth, _ in facts[-1:]:
                x = t
                neg = False
                if x.k == "un" and x.a[0] == "not":
                    x, neg = x.a[1], True
                if x.k == "attr" and x.a[1] == "size":
                    pol = (neg == truth)          # returns when size is falsy
                elif x.k == "cmp" and x.a[1].k == "attr" and x.a[1].a[1] == "size" and is_const(x.a[2], 0):
                    pol = (x.a[0] == "==") == truth
            ctx.decide("C12.d", f, "count returns early exactly when no sample hit a key", pol, "the early return is taken when there ARE hits", node=r.ast, engine="E1")


def sample_cast(ctx, tk, f):
    fa = ctx.fa(f)
    kp = f.params[1]
    t, n = C11._norm_query(fa, f)
    what = "samples are not narrowed into keys: a cast to the key dtype is followed by a round-trip check"
    if t is None:
        ctx.unknown("C12.f", f, what, engine="E6")
        return
    nm = np_call(t, {"asanyarray", "asarray", "array"})
    has_dt = t.k == "call" and ("dtype" in dict(t.a[2]) or len(t.a[1]) > 1)
    if not has_dt:
        ctx.holds("C12.f", f, what + " [samples are compared as given]", node=n.ast, engine="E6")
        return
    # a later filter  keys = keys[keys == <uncast samples>]
    ok = False
    filt = None
    for m in fa.cfg.stmts():
        if m.kind == "stmt" and isinstance(m.ast, ast.Assign):
            tm = fa.term(m.ast.value, m)
            if tm.k == "sub" and tm.a[1].k == "cmp" and tm.a[1].a[0] == "==":
                l, r = tm.a[1].a[1], tm.a[1].a[2]
                casted = lambda x: x.k == "call" and ("dtype" in dict(x.a[2]))
                if (casted(l) and not casted(r)) or (casted(r) and not casted(l)):
                    ok = True
                    filt = m
    if ok:
        # the check may be skipped only when the cast cannot change anything (same dtype): never for a whole kind of samples
        from ..guards import reachable_under
        subj = lambda x: (x.k == "attr" and x.a[1] == "dtype") or x.k == "param"
        skipped = [k for k in ("signed", "unsigned", "floating", "bool") if filt.id not in reachable_under(fa, k, subj)]
        ctx.decide("C12.f", f, "the round-trip check after the cast runs for samples of every dtype kind", not skipped,
                   "the check is skipped for %s samples: integers of another width or signedness wrap in the cast too (int64 sample 257 -> int8 key 1)" % "/".join(skipped),
                   node=filt.ast, key="filter-all-kinds", engine="E1")
    ctx.decide("C12.f", f, what, ok, "`%s` wraps samples that do not fit the key dtype onto stored keys (int8 keys [1, 2, 3]: the sample 257 is counted as key 1)" % (t,),
               node=n.ast, engine="E6")


VALUES_WRITERS = {"__init__", "count", "__setitem__", "_fill_values", "fill", "__iadd__"}


def values_writers(ctx, tk):
    for q, f in ctx.program.funcs.items():
        if not q.startswith("hashtable."):
            continue
        for sub in ast.walk(f.node):
            if isinstance(sub, ast.Attribute) and isinstance(sub.ctx, ast.Store) and sub.attr == "_values" and isinstance(sub.value, ast.Name) \
                    and f.params and sub.value.id == f.params[0]:
                ctx.decide("C12.e", f, "only the designated operations replace the counts/values", f.name in VALUES_WRITERS or f.qual in tk.ctor_helpers(),
                           "%s re-assigns _values" % q, node=sub, engine="E3")


def fast_dtype(ctx, tk):
    f = ctx.func("raggedshape.RaggedShape._broadcast_values_fast")
    fa = ctx.fa(f)
    for r in fa.cfg.returns():
        tm = fa.term(r.ast.value, r)
        base = tm
        while base.k == "upd":
            base = base.a[0]
        what = "the fast broadcast returns an array of the requested dtype (the typed builder, accumulated in place)"
        if np_call(base, {"zeros", "empty", "full"}) and "dtype" in dict(base.a[2]):
            ctx.holds("C12.h", f, what, node=r.ast, engine="E6")
        elif tm.k == "call" and _is_accumulate(ctx, tk, fa, tm.a[0]) and "out" not in dict(tm.a[2]) and "dtype" not in dict(tm.a[2]):
            ctx.violated("C12.h", f, what, "`%s` returns a new accumulate result: for 8/16/32-bit data add.accumulate widens to the platform integer, so the result no "
                         "longer has the requested dtype" % (tm,), node=r.ast, engine="KB")
        else:
            ctx.unknown("C12.h", f, what, node=r.ast, engine="E6")


def _is_accumulate(ctx, tk, fa, fn):
    """callee is ufunc.accumulate, directly or as the value returned by a repo helper"""
    for a in alts(fn):
        if a.k == "attr" and a.a[1] == "accumulate":
            continue
        if a.k == "call":
            ok = False
            for g in tk.R.resolve_call(a, fa) or []:
                ga = ctx.fa(g)
                rets = [ga.term(r.ast.value, r) for r in ga.cfg.returns() if r.ast.value is not None]
                if rets and all(all(y.k == "attr" and y.a[1] == "accumulate" for y in alts(t)) for t in rets):
                    ok = True
            if ok:
                continue
        return False
    return True
