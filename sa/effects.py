"""E3 - freshness / in-place effect / ownership analysis.

freshness(term): ("fresh",) | ("alias", frozenset(roots)) | ("unknown",)
   root = (param name, attr path tuple) of the analysed function, or ("<global>", dotted)
A value is *alias* when there is an input class for which it shares memory with the root
(np.asanyarray of an ndarray, a basic slice, .view/.ravel/.reshape, an attribute read ...).

effects(func): list of Write(root, site, chain) - every in-place construct reachable through the
call graph whose target may alias a parameter (incl. self) of `func`.
"""
import ast
from .terms import T, alts, attr_chain, walk, call_args
from .model import Func, Class
from . import npkb

FRESH = ("fresh",)
UNKNOWN = ("unknown",)


def alias(roots):
    return ("alias", frozenset((r[0], tuple(r[1][:5])) for r in roots))


def join(vals):
    roots = set()
    unk = False
    for v in vals:
        if v[0] == "alias":
            roots |= v[1]
        elif v[0] == "unknown":
            unk = True
    if roots:
        return alias(roots)
    return UNKNOWN if unk else FRESH


class Site:
    __slots__ = ("func", "node", "kind", "target", "desc", "astnode", "attr")

    def __init__(self, func, node, kind, target, desc, astnode, attr=None):
        self.func = func          # Func containing the construct
        self.node = node          # CFG node
        self.kind = kind          # substore | augname | attrstore | out | ufunc.at | method | call
        self.target = target      # term of the written object
        self.desc = desc
        self.astnode = astnode
        self.attr = attr


class Write:
    """`root` of the summarised function is written by `site` (through `chain` of calls)"""
    __slots__ = ("root", "site", "chain", "cond")

    def __init__(self, root, site, chain=(), cond=()):
        self.root = root
        self.site = site
        self.chain = chain
        self.cond = cond          # ((param, value-repr)...) constant conditions on params of the summarised func

    def key(self):
        return (self.root, self.site.func.qual, id(self.site.astnode), self.cond)


class Effects:
    def __init__(self, ctx, resolver):
        self.ctx = ctx
        self.R = resolver
        self._sum = {}
        self._ret = {}
        self._stack = set()
        self._ret_stack = set()
        self.unknown_targets = []
        self.ident = False      # True: object-identity freshness (a constructor call is a fresh object)

    def fresh_obj(self, t, fa):
        old, self.ident = self.ident, True
        try:
            return self.fresh(t, fa)
        finally:
            self.ident = old

    # ------------------------------------------------------------------ freshness
    def fresh(self, t, fa, depth=0):
        if depth > 25:
            return UNKNOWN
        k = t.k
        rec = lambda x: self.fresh(x, fa, depth + 1)
        if k == "const":
            return FRESH
        if k == "param":
            return alias([(t.a[0], ())])
        if k in ("global", "free", "lparam"):
            if k == "global" and self._is_builtin(t.a[0], fa):
                return FRESH
            return alias([("<global>", (t.a[0],))])
        if k == "unk" and isinstance(t.a[0], str) and t.a[0].startswith("loop:"):
            return FRESH        # loop-carried occurrence of the same variable: neutral for the join
        if k in ("phi",):
            return join([rec(x) for x in t.a[0]])
        if k == "ifexp":
            return join([rec(t.a[1]), rec(t.a[2])])
        if k in ("cmp", "un", "bool", "fstr", "lambda", "dict", "localdef", "index"):
            return FRESH
        if k == "bin":
            if len(t.a) > 3 and t.a[3] == "inplace":
                lf = rec(t.a[1])
                # x += y rebinds when x is an immutable scalar; an ndarray is updated in place
                return lf
            return FRESH
        if k in ("tuple", "list", "set"):
            return join([rec(x) for x in t.a[0]])
        if k == "star":
            return rec(t.a[0])
        if k == "comp":
            return rec(t.a[1])
        if k == "elem":
            return rec(t.a[0])
        if k == "item":
            return rec(t.a[0])
        if k == "upd":
            return rec(t.a[0])
        if k == "attr":
            return self._fresh_attr(t, fa, depth)
        if k == "sub":
            base = rec(t.a[0])
            if base == FRESH:
                return FRESH
            bt = self.R.typeof(t.a[0], fa)
            if bt and bt[0] == "inst":
                # __getitem__ of a repo class: use its return summary (joined over its index-kind dispatch)
                outs = []
                for c in bt[1]:
                    m = c.lookup("__getitem__")
                    if m is not None:
                        outs.append(self._map_ret(m, t.a[0], [t.a[1]], {}, fa, depth))
                r = join(outs) if outs else UNKNOWN
                if r[0] == "alias" and not self._index_may_be_basic(t.a[1]):
                    # the aliasing paths of __getitem__ are the basic-selection ones; an internally computed
                    # index of unknown kind is not a witness
                    return UNKNOWN
                return r
            ik = npkb.index_kind(t.a[1])
            if ik is None and self.R.typeof(t.a[1], fa) == ("nd",):
                ik = "fancy"
            if ik in ("basic", "maybe-basic"):
                return base
            if ik == "fancy":
                return FRESH
            return UNKNOWN if base[0] != "fresh" else FRESH
        if k == "call":
            return self._fresh_call(t, fa, depth)
        return UNKNOWN

    def _fresh_attr(self, t, fa, depth):
        base, name = t.a
        if name in npkb.A_FRESH:
            return FRESH
        bt = self.R.typeof(base, fa)
        if bt and bt[0] == "inst":
            outs = []
            for c in bt[1]:
                ms = self.R.lookup_virtual(c, name, self.R._is_self(base, fa))
                props = [m for m in ms if m.is_property]
                if props:
                    for m in props:
                        outs.append(self._map_ret(m, base, [], {}, fa, depth))
                else:
                    outs.append(self._attr_of(base, name, fa, depth))
            return join(outs)
        if bt and bt[0] in ("class", "module", "ext"):
            return alias([("<global>", (name,))])
        if name in npkb.A_ALIAS:
            return self.fresh(base, fa, depth + 1)
        return self._attr_of(base, name, fa, depth)

    def _attr_of(self, base, name, fa, depth):
        return self.field_fresh(base, name, fa, depth)

    def field_fresh(self, tm, field, fa, depth=0):
        """freshness of `tm.<field>`; looks through constructor calls and functions returning
        freshly constructed objects (field-sensitive), otherwise extends the access path"""
        if depth > 25:
            return UNKNOWN
        outs = []
        for a in alts(tm):
            done = False
            while a.k == "upd":
                a = a.a[0]
            if a.k in ("phi", "ifexp"):
                outs.append(self.field_fresh(a, field, fa, depth + 1))
                continue
            if a.k == "call":
                targets = self.R.resolve_call(a, fa)
                ft = self.R.callee_type(a.a[0], fa)
                if targets and ft and ft[0] == "class":
                    for g in targets:
                        if g.name != "__init__":
                            continue
                        s = self.ctor_field(g, field)
                        if s is None:
                            outs.append(self._ctor_fresh(g, a.a[1], dict(a.a[2]), fa, depth))
                        elif s[0] == "alias":
                            outs.append(self.map_roots(s[1], g, T("const", ("<new>",)), list(a.a[1]), dict(a.a[2]), fa, depth))
                        else:
                            outs.append(s)
                        done = True
                elif targets and ft and ft[0] in ("func", "bound"):
                    for g in targets:
                        s = self.ret_field_summary(g, field)
                        recv = a.a[0].a[0] if (a.a[0].k == "attr" and ft[0] == "bound") else None
                        if s[0] == "alias":
                            outs.append(self.map_roots(s[1], g, recv, list(a.a[1]), dict(a.a[2]), fa, depth))
                        else:
                            outs.append(s)
                        done = True
            if a.k == "sub" and not done:
                bt = self.R.typeof(a.a[0], fa)
                if bt and bt[0] == "inst":
                    for c in bt[1]:
                        m = c.lookup("__getitem__")
                        if m is not None:
                            s = self.ret_field_summary(m, field)
                            if s[0] == "alias" and not self._index_may_be_basic(a.a[1]):
                                outs.append(UNKNOWN)
                            elif s[0] == "alias":
                                outs.append(self.map_roots(s[1], m, a.a[0], [a.a[1]], {}, fa, depth))
                            else:
                                outs.append(s)
                            done = True
            if not done:
                b = self.fresh(a, fa, depth + 1)
                if b == FRESH:
                    outs.append(FRESH)
                elif b[0] == "alias":
                    outs.append(alias([(r[0], r[1] + (field,)) for r in b[1]]))
                else:
                    outs.append(UNKNOWN)
        return join(outs)

    def ctor_field(self, init, field):
        """freshness (in terms of __init__'s parameters) of the value __init__ stores into self.<field>;
        None when no store of that field is found (unknown field)"""
        key = ("ctorfield", init.qual, field, self.ident)
        if key in self.ctx._cache:
            return self.ctx._cache[key]
        self.ctx._cache[key] = UNKNOWN
        fa = self.ctx.fa(init)
        outs = []
        found = False
        selfn = init.params[0] if init.params else None
        for n in fa.cfg.stmts():
            st = n.ast
            if n.kind == "stmt" and isinstance(st, (ast.Assign, ast.AnnAssign)):
                tgs = st.targets if isinstance(st, ast.Assign) else [st.target]
                flat = []
                for tg in tgs:
                    if isinstance(tg, (ast.Tuple, ast.List)):
                        for i, e in enumerate(tg.elts):
                            flat.append((e, i, len(tg.elts)))
                    else:
                        flat.append((tg, None, None))
                for tg, i, ln in flat:
                    if isinstance(tg, ast.Attribute) and isinstance(tg.value, ast.Name) and tg.value.id == selfn \
                            and tg.attr == field and st.value is not None:
                        v = fa.term(st.value, n)
                        if i is not None:
                            from .terms import unpack_item
                            v = unpack_item(v, i, ln)
                        outs.append(self.fresh(v, fa, 1))
                        found = True
            if n.kind == "stmt" and isinstance(st, ast.Expr) and isinstance(st.value, ast.Call):
                tm = fa.term(st.value, n)
                fn = tm.a[0]
                if fn.k == "attr" and fn.a[1] == "__init__":
                    for g in self.R.resolve_call(tm, fa) or []:
                        if g.name == "__init__" and g is not init:
                            s = self.ctor_field(g, field)
                            if s is not None:
                                found = True
                                if s[0] == "alias":
                                    outs.append(self.map_roots(s[1], g, T("const", ("<new>",)), list(tm.a[1]), dict(tm.a[2]), fa, 1))
                                else:
                                    outs.append(s)
        # dataclass-style classes: fields assigned from same-named parameters by the generated __init__
        r = join(outs) if found else None
        self.ctx._cache[key] = r
        return r

    def ret_field_summary(self, g, field):
        """freshness of (return value of g).<field> in terms of g's roots"""
        key = ("retfield", g.qual, field, self.ident)
        if key in self.ctx._cache:
            return self.ctx._cache[key]
        if (g.qual, field) in self._ret_stack:
            return UNKNOWN
        self._ret_stack.add((g.qual, field))
        try:
            fa = self.ctx.fa(g)
            outs = []
            for n in fa.cfg.returns():
                if n.ast.value is None:
                    continue
                outs.append(self.field_fresh(fa.term(n.ast.value, n), field, fa, 1))
            r = join(outs) if outs else FRESH
        finally:
            self._ret_stack.discard((g.qual, field))
        self.ctx._cache[key] = r
        return r

    def _fresh_call(self, t, fa, depth):
        fn = t.a[0]
        args, kw = t.a[1], dict(t.a[2])
        rec = lambda x: self.fresh(x, fa, depth + 1)
        c = attr_chain(fn)
        if c and c[0] in npkb.NP_NAMES:
            if len(c) == 2:
                if c[1] in npkb.NP_ALIAS0:
                    return rec(args[0]) if args else UNKNOWN
                if "out" in kw:
                    return rec(kw["out"])
                return FRESH
            if len(c) == 3 and c[2] in npkb.UFUNC_METHODS_FRESH:
                if "out" in kw:
                    return rec(kw["out"])
                return FRESH
            if len(c) >= 3:
                return FRESH
        if fn.k == "global" and fn.a[0] in ("len", "int", "float", "bool", "str", "abs", "min", "max", "sum", "range",
                                             "isinstance", "hasattr", "issubclass", "type", "repr", "sorted", "any",
                                             "all", "enumerate", "id", "dict", "divmod", "round", "slice"):
            return FRESH
        if fn.k == "global" and fn.a[0] in ("list", "tuple", "zip", "iter", "reversed", "next", "getattr"):
            return join([rec(a) for a in args]) if args else FRESH
        # method call on some receiver
        if fn.k == "attr":
            recv, name = fn.a
            rt = self.R.typeof(recv, fa)
            if rt is None or rt[0] not in ("inst", "class", "module"):
                # assume ndarray-like receiver
                if name in npkb.M_FRESH:
                    if name == "astype":
                        cp = kw.get("copy")
                        if cp is not None and not (cp.k == "const" and cp.a[0] is True):
                            return rec(recv)
                    return FRESH
                if name in npkb.M_ALIAS:
                    return rec(recv)
                if name in npkb.UFUNC_METHODS_FRESH:      # ufunc.reduce(...) with ufunc a parameter
                    if "out" in kw:
                        return rec(kw["out"])
                    return FRESH
                if name in ("accumulate",):
                    return FRESH
        targets = self.R.resolve_call(t, fa)
        if targets:
            outs = []
            ft = self.R.callee_type(fn, fa)
            if ft is None or ft[0] not in ("class", "func", "bound"):
                # numpy-protocol / getattr / registry dispatch: which implementation returns is not decided
                if "out" in kw:
                    return rec(kw["out"])
                return UNKNOWN
            for g in targets:
                if g.name == "__post_init__":
                    continue
                if g.name == "__init__" and ft and ft[0] == "class":
                    # constructed object: conservatively shares memory with its array-ish arguments
                    outs.append(FRESH if self.ident else self._ctor_fresh(g, args, kw, fa, depth))
                else:
                    recv = fn.a[0] if fn.k == "attr" else None
                    if ft and ft[0] == "func":
                        recv = None
                    outs.append(self._map_ret(g, recv, list(args), kw, fa, depth))
            return join(outs)
        if fn.k in ("param", "free") or fn.k == "sub":
            # calling a callable parameter (ufunc(...), func(self, axis=axis), registry[func](*args))
            if "out" in kw:
                return rec(kw["out"])
            if fn.k in ("param", "free"):
                return FRESH        # assumption: a callable operand (ufunc) allocates its result unless out= is given
            return UNKNOWN
        return UNKNOWN

    def _ctor_fresh(self, init, args, kw, fa, depth):
        """new object; may hold references to arguments that its __init__ stores"""
        stored = self.stored_params(init)
        outs = [FRESH]
        pos = init.params[1:]
        for i, a in enumerate(args):
            if a.k == "star":
                outs.append(self.fresh(a.a[0], fa, depth + 1))
                continue
            if i < len(pos) and pos[i] in stored:
                outs.append(self.fresh(a, fa, depth + 1))
        for name, v in kw.items():
            if name in stored or name == "**":
                outs.append(self.fresh(v, fa, depth + 1))
        return join(outs)

    def stored_params(self, init):
        """params of __init__ (transitively through super().__init__) that end up stored on self"""
        key = ("stored", init.qual)
        if key in self.ctx._cache:
            return self.ctx._cache[key]
        self.ctx._cache[key] = set(init.params[1:])     # recursion guard: conservative
        fa = self.ctx.fa(init)
        out = set()
        for n in fa.cfg.stmts():
            st = n.ast
            if n.kind == "stmt" and isinstance(st, ast.Assign):
                for tg in st.targets:
                    if isinstance(tg, ast.Attribute):
                        f = self.fresh(fa.term(st.value, n), fa)
                        if f[0] == "alias":
                            out |= {r[0] for r in f[1] if r[0] in init.params}
            if n.kind == "stmt" and isinstance(st, ast.Expr) and isinstance(st.value, ast.Call):
                tm = fa.term(st.value, n)
                for g in self.R.resolve_call(tm, fa) or []:
                    if g.name == "__init__":
                        sub = self.stored_params(g)
                        gp = g.params[1:]
                        for i, a in enumerate(tm.a[1]):
                            if a.k == "star":
                                f = self.fresh(a.a[0], fa)
                                if f[0] == "alias":
                                    out |= {r[0] for r in f[1] if r[0] in init.params}
                            elif i < len(gp) and gp[i] in sub:
                                f = self.fresh(a, fa)
                                if f[0] == "alias":
                                    out |= {r[0] for r in f[1] if r[0] in init.params}
                        for nm, v in tm.a[2]:
                            if nm in sub or nm == "**":
                                f = self.fresh(v, fa)
                                if f[0] == "alias":
                                    out |= {r[0] for r in f[1] if r[0] in init.params}
        out.discard(init.params[0] if init.params else None)
        self.ctx._cache[key] = out
        return out

    def _index_may_be_basic(self, idx):
        for a in alts(idx):
            if a.k in ("param", "lparam", "free"):
                return True         # caller-controlled index: a slice is a witness
            if npkb.index_kind(a) in ("basic", "maybe-basic"):
                return True
        return False

    def _is_builtin(self, name, fa):
        m = fa.func.module
        return not (name in m.assigns or name in m.imports or name in m.classes or name in m.functions)

    # -- return summaries -----------------------------------------------
    def ret_summary(self, g):
        """freshness of g's return value in terms of g's own roots"""
        rk = (g.qual, self.ident)
        if rk in self._ret:
            return self._ret[rk]
        if g.qual in self._ret_stack:
            return UNKNOWN
        self._ret_stack.add(g.qual)
        try:
            fa = self.ctx.fa(g)
            outs = []
            for n in fa.cfg.returns():
                if n.ast.value is None:
                    continue
                outs.append(self.fresh(fa.term(n.ast.value, n), fa, 1))
            r = join(outs) if outs else FRESH
        finally:
            self._ret_stack.discard(g.qual)
        self._ret[rk] = r
        return r

    def _map_ret(self, g, recv, args, kw, fa, depth):
        s = self.ret_summary(g)
        if s[0] != "alias":
            return s
        return self.map_roots(s[1], g, recv, args, kw, fa, depth)

    def bind(self, g, recv, args, kw):
        """callee param name -> caller term (None when bound to a default / unknown)"""
        params = list(g.params)
        m = {}
        if recv is not None and params and g.cls is not None and not g.is_staticmethod:
            m[params[0]] = recv
            params = params[1:]
        elif g.cls is not None and not g.is_staticmethod and g.parent is None and params and recv is None:
            # unbound call Class.method(obj, ...) or registry call
            pass
        star = None
        i = 0
        for a in args:
            if a.k == "star":
                star = a.a[0]
                continue
            if i < len(params):
                m[params[i]] = a
            elif g.vararg:
                m.setdefault(g.vararg, a)
            i += 1
        for name, v in kw.items():
            if name == "**":
                star = star or v
            elif name in g.params or name in g.kwonly:
                m[name] = v
            elif g.kwarg:
                m.setdefault(g.kwarg, v)
        if star is not None:
            for p in params[i:]:
                m.setdefault(p, star)
            if g.vararg:
                m.setdefault(g.vararg, star)
        return m

    def map_roots(self, roots, g, recv, args, kw, fa, depth):
        b = self.bind(g, recv, args, kw)
        outs = []
        for (p, path) in roots:
            if p == "<global>":
                outs.append(alias([(p, path)]))
                continue
            tm = b.get(p)
            if tm is None:
                continue           # bound to a default value: nothing of the caller's is reachable
            f = self.fresh(tm, fa, depth + 1)
            if f[0] == "alias":
                outs.append(alias([(r[0], r[1] + path) for r in f[1]]))
            elif f[0] == "unknown":
                outs.append(UNKNOWN)
        return join(outs) if outs else FRESH

    # ------------------------------------------------------------------ in-place sites
    def sites(self, fa):
        key = ("sites", fa.func.qual)
        if key in self.ctx._cache:
            return self.ctx._cache[key]
        out = []
        f = fa.func
        for n in fa.cfg.nodes:
            if not fa.cfg.is_reachable(n) or n.ast is None or n.kind not in ("stmt", "test", "for", "with"):
                continue
            st = n.ast
            if n.kind == "stmt":
                if isinstance(st, ast.Assign):
                    for tg in st.targets:
                        out += self._target_sites(f, fa, n, tg, None)
                elif isinstance(st, ast.AugAssign):
                    out += self._target_sites(f, fa, n, st.target, st)
                elif isinstance(st, ast.AnnAssign) and st.value is not None:
                    out += self._target_sites(f, fa, n, st.target, None)
            # call-borne effects in any expression of the node
            from .resolve import _exprs_of_node
            for e in _exprs_of_node(n):
                tm = fa.term(e, n)
                for sub in walk(tm):
                    if sub.k == "call":
                        s = self._call_site(f, fa, n, sub)
                        if s:
                            out += s
        self.ctx._cache[key] = out
        return out

    def _target_sites(self, f, fa, n, tg, aug):
        out = []
        if isinstance(tg, (ast.Tuple, ast.List)):
            for e in tg.elts:
                out += self._target_sites(f, fa, n, e, aug)
        elif isinstance(tg, ast.Subscript):
            base = fa.term(tg.value, n)
            bt = self.R.typeof(base, fa)
            if bt and bt[0] == "inst" and any(c.lookup("__setitem__") for c in bt[1]):
                s = Site(f, n, "setitem", base, "%s[...] = ... (__setitem__)" % _src(tg.value), tg)
                s.attr = fa.term(tg.slice, n)
                out.append(s)
            else:
                out.append(Site(f, n, "substore", base, "store into %s[...]" % _src(tg.value), tg))
        elif isinstance(tg, ast.Attribute):
            base = fa.term(tg.value, n)
            out.append(Site(f, n, "attrstore", base, "attribute store %s.%s" % (_src(tg.value), tg.attr), tg, tg.attr))
        elif isinstance(tg, ast.Name) and aug is not None:
            prev = fa.name_term(tg.id, n)
            if not _is_scalar_term(prev):
                out.append(Site(f, n, "augname", prev, "augmented assignment %s %s= ..." % (tg.id, _op(aug)), aug))
        elif isinstance(tg, ast.Starred):
            out += self._target_sites(f, fa, n, tg.value, aug)
        return out

    def _call_site(self, f, fa, n, t):
        fn = t.a[0]
        args, kw = t.a[1], dict(t.a[2])
        out = []
        c = attr_chain(fn)
        if "out" in kw and not (kw["out"].k == "const" and kw["out"].a[0] is None):
            out.append(Site(f, n, "out", kw["out"], "out= argument of %s" % _tsrc(fn), t.node))
        if fn.k == "attr":
            recv, name = fn.a
            if name in npkb.UFUNC_INPLACE_ARG0 and args:
                # ufunc.at(target, ...)
                rc = attr_chain(recv)
                if (rc and rc[0] in npkb.NP_NAMES) or recv.k in ("param", "phi", "free"):
                    out.append(Site(f, n, "ufunc.at", args[0], "%s.at(...) on its first argument" % _tsrc(recv), t.node))
            if c and len(c) == 2 and c[0] in npkb.NP_NAMES and c[1] in npkb.NP_INPLACE_ARG0 and args:
                out.append(Site(f, n, "call", args[0], "np.%s writes its first argument" % c[1], t.node))
            if name in npkb.M_INPLACE:
                rt = self.R.typeof(recv, fa)
                if not (rt and rt[0] in ("inst", "class", "module")) and not (c and c[0] in npkb.NP_NAMES):
                    out.append(Site(f, n, "method", recv, "in-place method .%s() on %s" % (name, _tsrc(recv)), t.node))
            if name == "setattr":
                pass
        if fn.k == "global" and fn.a[0] == "setattr" and args:
            out.append(Site(f, n, "attrstore", args[0], "setattr(%s, ...)" % _tsrc(args[0]), t.node,
                            args[1].a[0] if len(args) > 1 and args[1].k == "const" else "?"))
        return out

    # ------------------------------------------------------------------ summaries
    def effects(self, g):
        """list[Write] for function g (interprocedural, fixpoint by recursion with cycle cut)"""
        if g.qual in self._sum:
            return self._sum[g.qual]
        if g.qual in self._stack:
            return []
        self._stack.add(g.qual)
        try:
            out = self._effects0(g)
        finally:
            self._stack.discard(g.qual)
        # de-duplicate
        seen, res = set(), []
        for w in out:
            if w.key() not in seen:
                seen.add(w.key())
                res.append(w)
        self._sum[g.qual] = res
        return res

    def _site_conds(self, fa, n):
        """constant conditions on parameters that dominate node n: ((param, 'None'|repr const, truth)...)"""
        conds = []
        from .guards import facts_at as _facts
        for tm, truth, test in _facts(fa, n):
            c = _param_const_cond(tm)
            if c is not None:
                conds.append((c[0], c[1], c[2] if truth else not c[2]))
        return tuple(conds)

    def _effects0(self, g):
        fa = self.ctx.fa(g)
        out = []
        is_ctor = g.name in ("__init__", "__post_init__", "__new__")
        self_name = g.params[0] if (g.cls is not None and g.params and not g.is_staticmethod and g.parent is None) else None
        for s in self.sites(fa):
            cond = self._site_conds(fa, s.node)
            if s.kind == "setitem":
                bt = self.R.typeof(s.target, fa)
                for c in bt[1]:
                    h = c.lookup("__setitem__")
                    if h is None:
                        continue
                    out += self._map_callee(g, fa, h, s.target, [s.attr, T("unk", ("value",))], {}, cond,
                                            getattr(s.astnode, "lineno", 0), False, is_ctor, self_name)
                continue
            f = self.fresh_obj(s.target, fa) if s.kind == "attrstore" else self.fresh(s.target, fa)
            if f[0] == "alias":
                for r in f[1]:
                    if is_ctor and r[0] == self_name and s.kind == "attrstore" and r[1] == ():
                        continue        # a constructor initialising the object under construction
                    if r[0] in (g.kwarg, g.vararg) and r[1] == ():
                        continue        # *args / **kwargs containers are created per call
                    out.append(Write((r[0], r[1] + ((s.attr,) if s.kind == "attrstore" else ())), s, (), cond))
            elif f[0] == "unknown":
                self.unknown_targets.append(s)
        # callee effects mapped through call sites
        for (ct, targets) in self.R.callees(fa):
            node = fa.node_of(ct.node) if ct.node is not None else None
            cond = self._site_conds(fa, node) if node is not None else ()
            for h in targets:
                if h is g:
                    continue
                eff = self.effects(h)
                if not eff:
                    continue
                recv, args, kw = self._call_shape(ct, h, fa)
                ctor_call = h.name in ("__init__", "__post_init__") and ct.k == "call" and not (
                    ct.a[0].k == "attr" and ct.a[0].a[0].k == "call" and ct.a[0].a[0].a[0].k == "global"
                    and ct.a[0].a[0].a[0].a[0] == "super")
                out += self._map_callee(g, fa, h, recv, args, kw, cond, ct.lineno, ctor_call, is_ctor, self_name)
        return out

    def _map_callee(self, g, fa, h, recv, args, kw, cond, lineno, ctor_call, is_ctor, self_name):
        out = []
        eff = self.effects(h)
        if not eff:
            return out
        b = self.bind(h, recv, args, kw)
        for w in eff:
            p, path = w.root
            if not _cond_compatible(w.cond, b, h):
                continue
            if p == "<global>":
                out.append(Write(w.root, w.site, ((g.qual, lineno),) + w.chain, cond))
                continue
            if ctor_call and h.params and p == h.params[0]:
                continue        # effects on the object being constructed
            tm = b.get(p)
            if tm is None:
                if h.params and p == h.params[0] and recv is None and h.cls is not None:
                    # registry / unbound call: receiver is one of the star-args
                    tm = _first_star(args)
                if tm is None:
                    continue
            if path:
                f = self.field_fresh(tm, path[0], fa)
                rest = path[1:]
            else:
                f = self.fresh_obj(tm, fa) if w.site.kind == "attrstore" else self.fresh(tm, fa)
                rest = ()
            if f[0] == "alias":
                for r in f[1]:
                    if is_ctor and r[0] == self_name and not r[1] and not rest:
                        continue
                    if r[0] in (g.kwarg, g.vararg) and r[1] == () and not rest and p != "<global>" and False:
                        continue
                    out.append(Write((r[0], r[1] + rest), w.site, ((g.qual, lineno),) + w.chain, cond))
        return out

    def _call_shape(self, ct, h, fa):
        if ct.k == "call":
            fn = ct.a[0]
            recv = None
            if fn.k == "attr":
                ft = self.R.callee_type(fn, fa)
                if ft and ft[0] == "bound":
                    recv = fn.a[0]
                    if recv.k == "call" and recv.a[0].k == "global" and recv.a[0].a[0] == "super":
                        recv = T("param", (fa.func.params[0],)) if fa.func.params else None
            if fn.k == "call" and fn.a[0].k == "global" and fn.a[0].a[0] == "getattr" and fn.a[1]:
                recv = fn.a[1][0]
            return recv, list(ct.a[1]), dict(ct.a[2])
        if ct.k == "attr":          # property access
            return ct.a[0], [], {}
        if ct.k == "sub":           # __getitem__
            return ct.a[0], [ct.a[1]], {}
        if ct.k in ("bin", "cmp", "un"):   # operator -> __array_ufunc__(self, ufunc, method, *inputs)
            ops = [x for x in ct.a[1:] if isinstance(x, T)]
            recv = None
            for o in ops:
                ot = self.R.typeof(o, fa)
                if ot and ot[0] == "inst":
                    recv = o
                    break
            return recv, [T("const", ("ufunc",)), T("const", ("__call__",))] + [T("star", (T("tuple", (tuple(ops),)),))], {}
        return None, [], {}


def _first_star(args):
    for a in args:
        if a.k == "star":
            return a.a[0]
    return args[0] if args else None


def _param_const_cond(t):
    """(param, value, polarity) for tests `p is None`, `p is not None`, `p == const`, `p != const`,
    `p in (consts)`; None otherwise"""
    if t.k == "cmp" and t.a[1].k == "param" and t.a[2].k == "const":
        op = t.a[0]
        if op in ("is", "=="):
            return (t.a[1].a[0], (t.a[2].a[0],), True)
        if op in ("is not", "!="):
            return (t.a[1].a[0], (t.a[2].a[0],), False)
    if t.k == "cmp" and t.a[0] in ("in", "not in") and t.a[1].k == "param" and t.a[2].k in ("tuple", "list") \
            and all(x.k == "const" for x in t.a[2].a[0]):
        return (t.a[1].a[0], tuple(x.a[0] for x in t.a[2].a[0]), t.a[0] == "in")
    return None


def _cond_compatible(conds, binding, h):
    """can the site's dominating parameter conditions hold for this call edge?  Only decided when the
    argument is a literal constant or the parameter is left at its (constant) default."""
    for (p, values, truth) in conds:
        tm = binding.get(p)
        if tm is None:
            d = h.defaults.get(p)
            if d is None or not isinstance(d, ast.Constant) and not (
                    isinstance(d, ast.UnaryOp) and isinstance(d.operand, ast.Constant)):
                continue
            val = d.value if isinstance(d, ast.Constant) else -d.operand.value
        elif tm.k == "const":
            val = tm.a[0]
        else:
            continue
        holds = any(val == v and type(val) == type(v) or (val is v) for v in values)
        if holds != truth:
            return False
    return True


def _is_scalar_term(t):
    for a in alts(t):
        if a.k == "const" and isinstance(a.a[0], (int, float, bool, str, type(None))):
            continue
        if a.k == "call" and a.a[0].k == "global" and a.a[0].a[0] in ("len", "int", "float", "bool", "sum", "max", "min", "abs"):
            continue
        if a.k == "bin" and _is_scalar_term(a.a[1]) and _is_scalar_term(a.a[2]):
            continue
        if a.k == "call" and attr_chain(a.a[0]) and attr_chain(a.a[0])[0] in npkb.NP_NAMES \
                and attr_chain(a.a[0])[-1] in ("all", "any", "sum", "max", "min", "prod"):
            # np.all(...) etc. reduce to a numpy scalar (immutable)
            continue
        if a.k == "attr" and a.a[1] in ("size", "n_rows", "ndim", "itemsize"):
            continue
        return False
    return True


def _op(aug):
    from .terms import BINOPS
    return BINOPS.get(type(aug.op), "?")


def _src(n):
    try:
        return ast.unparse(n)
    except Exception:
        return "?"


def _tsrc(t):
    from .terms import show
    return _src(t.node) if getattr(t, "node", None) is not None and isinstance(t.node, ast.AST) else show(t)


def fmt_root(r):
    return ".".join((r[0],) + tuple(str(x) for x in r[1]))
