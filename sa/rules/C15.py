"""C15 - indexing a run-length array equals indexing the dense array.

Decided: slice-bound normalisation is complete (E8; slice.indices counts as complete); boundary lookups use
the right searchsorted side for their role (U4); stride rescaling is a ceiling division and is applied after
the reversal (U3); reversal is applied to boundaries and values together; the sub-range routine forces its
first and last boundary on a fresh array; index-kind dispatch is exhaustive, a run-length mask is refused
unless boolean and selects by its values; index operands are not written (E3).  Not decided: element equality.
"""
import ast
from ..lib import Toolkit
from ..guards import Formulas, check_guard, find_calls, facts_at
from ..terms import alts, attr_chain, walk, is_const, call_name, np_call
from ..bounds import Intervals, le, show, INF, NINF
from .. import rlrules, layout, viewrules
from .. import wellformed as W

LEVEL_TEXT = ("static landmark-interval analysis of slice bounds (E8), searchsorted-side rules (U4), ceil-rescale/reversal order "
              "rules (U3), co-reversal and dispatch-shape rules, effect analysis (E3) over RunLengthArray's indexing routines; "
              "structural necessary conditions of C15")
ASSUMPTIONS = ["slice.indices(n) normalises None, negative and out-of-range bounds for either step sign (Python data model)",
               "boundaries are sorted with first boundary 0 (C14.a)"]
MIN_OBLIGATIONS = 16
RL = "runlengtharray.RunLengthArray."


def check(ctx, tier):
    tk = Toolkit(ctx)
    slice_bounds(ctx, tk)
    rlrules.slice_range_model(ctx, "C15.i")
    lookups(ctx, tk)
    f = ctx.func(RL + "_step_subset")
    rlrules.ceil_rescale(ctx, "C15.c", f)
    rlrules.co_reversal(ctx, "C15.d", f, "indices", "values")
    start_to_end(ctx, tk)
    dispatch(ctx, tk)
    mask_branch_is_bool_only(ctx, tk)
    fs = [ctx.func(RL + n) for n in ("__getitem__", "_get_position", "_get_slice", "_step_subset", "_start_to_end", "_getitem_bool", "_ragged_slice")] + \
         [ctx.func("mixin.NPSIndexable.__getitem__")]
    tk.purity("C15.g", fs, "indexing does not modify the array or the caller's index", content_only=True)
    W.report(ctx, tk, "C15.h", fs)
    from .. import hazards as _hz, scopes as _sc
    _hz.generic(ctx, tk, "C15.z", _sc.scope(tk, "C15", depth=1))
    return {}


def mask_branch_is_bool_only(ctx, tk):
    """an integer index array addresses positions whatever its width: the branch that turns the index into positions with
    np.flatnonzero is entered for boolean dtype only (a test widened with `or idx.dtype == np.uint8 ...` reads positions as a mask)"""
    what = "only a boolean index array is treated as a mask (np.flatnonzero); every integer dtype addresses positions"
    for f in (ctx.func(RL + "__getitem__"), ctx.func(RL + "_get_position")):
        local = {}
        for x in ast.walk(f.node):
            if isinstance(x, ast.Assign) and len(x.targets) == 1 and isinstance(x.targets[0], ast.Name):
                local.setdefault(x.targets[0].id, []).append(x.value)

        def expand(e, depth=0):
            out = [e]
            if depth < 3:
                for y in ast.walk(e):
                    if isinstance(y, ast.Name) and len(local.get(y.id, ())) == 1:
                        out += expand(local[y.id][0], depth + 1)
            return out

        for st in ast.walk(f.node):
            if not isinstance(st, (ast.If, ast.IfExp)):
                continue
            body = st.body if isinstance(st, ast.If) else [st.body]
            if not any(isinstance(y, ast.Call) and isinstance(y.func, ast.Attribute) and y.func.attr in ("flatnonzero", "nonzero") and y.args
                       and isinstance(y.args[0], ast.Name) and y.args[0].id in f.params for b in body for y in ast.walk(b)):
                continue
            for e in expand(st.test):
                for y in ast.walk(e):
                    if isinstance(y, ast.BoolOp) and isinstance(y.op, ast.Or):
                        for alt in y.values:
                            for cmp_ in ast.walk(alt):
                                if isinstance(cmp_, ast.Compare) and len(cmp_.ops) == 1 and isinstance(cmp_.ops[0], (ast.Eq, ast.In)) \
                                        and any(isinstance(z, ast.Attribute) and z.attr in ("dtype", "kind") for z in ast.walk(cmp_.left)):
                                    rhs = ast.unparse(cmp_.comparators[0])
                                    if rhs not in ("bool", "np.bool_", "np.bool", "'b'", '"b"', "numpy.bool_"):
                                        ctx.violated("C15.j", f, what, "the mask branch is also entered when `%s`: positions given in that dtype are read as a 0/1 mask" % ast.unparse(cmp_)[:80],
                                                     node=st, engine="E1")
                                        return
    ctx.holds("C15.j", ctx.func(RL + "__getitem__"), what, engine="E1")


def slice_bounds(ctx, tk):
    f = ctx.func(RL + "_get_slice")
    fa = ctx.fa(f)
    sp = f.params[1]
    calls = find_calls(fa, lambda c: c.a[0].k == "attr" and c.a[0].a[1] == "_start_to_end" and len(c.a[1]) == 2)
    what = "slice bounds reach the sub-range extraction normalised into [0, len] (None, negative, beyond either end)"
    if not calls:
        ctx.unknown("C15.a", f, what, "_start_to_end call not found", engine="E8")
        return
    is_N = lambda t: t.k == "call" and call_name(t) == "len" and t.a[1] and t.a[1][0].k == "param" and t.a[1][0].a[0] == f.params[0]
    is_subj = lambda t: t.k == "attr" and t.a[1] in ("start", "stop") and t.a[0].k == "param" and t.a[0].a[0] == sp
    for n, c in calls:
        for which, t in (("start", c.a[1][0]), ("end", c.a[1][1])):
            if _from_slice_indices(t, sp, f.params[0]):
                ctx.holds("C15.a", f, what + " [via slice.indices(len(self))]", node=c.node, key=which, engine="E8")
                continue
            viewrules._interval_rule(ctx, "C15.a", f, fa, t, is_N, is_subj, (0, 0), (1, 0), what, c.node, which, modes=("pos",))


def _from_slice_indices(t, sp, selfn):
    """term is item k of s.indices(len(self)), possibly +1 / swapped for reversed slices"""
    ok = True
    for a in alts(t):
        x = a
        if x.k == "bin" and x.a[0] == "+" and is_const(x.a[2], 1):
            x = x.a[1]
        if x.k == "item" and x.a[0].k == "call" and x.a[0].a[0].k == "attr" and x.a[0].a[0].a[1] == "indices" \
                and x.a[0].a[0].a[0].k == "param" and x.a[0].a[0].a[0].a[0] == sp and x.a[0].a[1] \
                and call_name(x.a[0].a[1][0]) == "len":
            continue
        ok = False
    return ok


def lookups(ctx, tk):
    f = ctx.func(RL + "_get_position")
    fa = ctx.fa(f)
    for r in fa.cfg.returns():
        tm = fa.term(r.ast.value, r)
        if tm.k == "sub":
            layout.searchsorted_row_lookup(ctx, "C15.b", f, tm.a[1], r.ast, "_events", key="position")
            viewrules.wrap_idiom(ctx, "C15.b", f, tm.a[1], r.ast)
            # the searched positions: negative entries are wrapped element-wise (np.where), for arrays as well as scalars
            pos = None
            for x in walk(tm.a[1]):
                if np_call(x, {"searchsorted"}) and len(x.a[1]) >= 2:
                    pos = x.a[1][1]
            if pos is not None:
                whatw = "negative positions are wrapped by the length element-wise, in index arrays as well as for a single integer"
                if any(np_call(a, {"where"}) for a in alts(pos)) or any(a.k == "bin" and a.a[0] == "%" for a in alts(pos)):
                    ctx.holds("C15.b", f, whatw, node=r.ast, key="wrap-arrays", engine="E8")
                else:
                    scalar_only = False
                    for a in alts(pos):
                        if a.k == "bin" and a.a[0] == "+" and a.node is not None and fa.node_of(a.node) is not None:
                            fs_ = facts_at(fa, fa.node_of(a.node))
                            if any(t.k == "call" and call_name(t) == "isinstance" and truth for t, truth, _ in fs_):
                                scalar_only = True
                    plain = all(a.k == "param" for a in alts(pos))
                    ctx.decide("C15.b", f, whatw, False if (scalar_only or plain) else None,
                               "negative entries of an index array are not wrapped (%s): they all resolve to the last run" % ("the wrap is guarded by isinstance(idx, Number)" if scalar_only else "no wrap at all"),
                               node=r.ast, key="wrap-arrays", engine="E8")
            okv = (attr_chain(tm.a[0]) or ("",))[-1] == "_values"
            ctx.decide("C15.b", f, "the element at a position is the value of the run containing it", True if okv else (False if (attr_chain(tm.a[0]) or ("",))[-1] == "_events" else None),
                       "reads %s" % (tm.a[0],), node=r.ast, key="values", engine="E5")
    g = ctx.func(RL + "_start_to_end")
    ga = ctx.fa(g)
    sp, ep = g.params[1], g.params[2]
    seen = {}
    for n in ga.cfg.stmts():
        if n.kind == "stmt" and isinstance(n.ast, ast.Assign):
            tm = ga.term(n.ast.value, n)
            core = tm.a[1] if (tm.k == "bin" and tm.a[0] == "-" and is_const(tm.a[2], 1)) else tm
            if np_call(core, {"searchsorted"}) and len(core.a[1]) >= 2:
                q = core.a[1][1]
                side = dict(core.a[2]).get("side")
                if q.k == "param" and q.a[0] == sp:
                    layout.searchsorted_row_lookup(ctx, "C15.b", g, tm, n.ast, "_events", key="first-run")
                    seen["start"] = True
                elif q.k == "param" and q.a[0] == ep:
                    ok = (side is not None and is_const(side, "left")) or side is None
                    minus = tm is not core
                    ctx.decide("C15.b", g, "the run slice ends after the last run that begins before `end`: searchsorted(events, end, side='left')",
                               True if (ok and not minus) else False, "side=%s%s: a run starting exactly at `end` is included / the last run is cut" % (
                                   side, ", minus 1" if minus else ""), node=n.ast, key="last-run", engine="E5")
                    seen["end"] = True
    for k in ("start", "end"):
        if k not in seen:
            ctx.unknown("C15.b", g, "boundary lookup for the range %s" % k, "searchsorted not recognised", key="lookup-" + k, engine="E5")


def start_to_end(ctx, tk):
    g = ctx.func(RL + "_start_to_end")
    ga = ctx.fa(g)
    sp, ep = g.params[1], g.params[2]
    stores = {}
    for n in ga.cfg.stmts():
        if n.kind == "stmt" and isinstance(n.ast, ast.Assign) and isinstance(n.ast.targets[0], ast.Subscript):
            idx = ga.term(n.ast.targets[0].slice, n)
            last = idx.a[0][-1] if idx.k == "tuple" else idx
            if last.k == "const":
                stores[last.a[0]] = (n, ga.term(n.ast.value, n), ga.term(n.ast.targets[0].value, n))
    what = "the extracted boundaries are forced to start at 0 and to end at end - start"
    ok0 = 0 in stores and is_const(stores[0][1], 0)
    okl = -1 in stores and stores[-1][1].k == "bin" and stores[-1][1].a[0] == "-" and stores[-1][1].a[1].k == "param" and stores[-1][1].a[1].a[0] == ep \
        and stores[-1][1].a[2].k == "param" and stores[-1][1].a[2].a[0] == sp
    bad = -1 in stores and stores[-1][1].k == "bin" and stores[-1][1].a[0] == "-" and stores[-1][1].a[1].k == "param" and stores[-1][1].a[1].a[0] == sp
    ctx.decide("C15.e", g, what, True if (ok0 and okl) else (False if (0 not in stores or -1 not in stores or bad) else None),
               "stores found: %s" % {k: str(v[1]) for k, v in stores.items()}, key="force", engine="E5")
    for k, (n, val, base) in stores.items():
        fr = tk.E.fresh(base, ga)
        ctx.decide("C15.e", g, "the boundaries patched in place are a fresh array, not the array's own boundaries",
                   True if fr[0] == "fresh" else (False if fr[0] == "alias" else None), "the store writes into %s" % (base,), node=n.ast, key="fresh:%s" % k, engine="E3")
    for r in ga.cfg.returns():
        tm = ga.term(r.ast.value, r)
        if tm.k == "tuple" and len(tm.a[0]) == 2:
            ctx.holds("C15.e", g, "the sub-range is returned as (boundaries, values)", node=r.ast, key="order", engine="E6")


def dispatch(ctx, tk):
    f = ctx.func(RL + "__getitem__")
    fa = ctx.fa(f)
    handlers = {"_get_position": False, "_get_slice": False, "_getitem_bool": False}
    for n, c in find_calls(fa, lambda c: c.a[0].k == "attr" and c.a[0].a[1] in handlers):
        handlers[c.a[0].a[1]] = True
    ctx.decide("C15.f", f, "integers/arrays, slices and run-length masks each reach their handler", all(handlers.values()),
               "missing handlers: %s" % [k for k, v in handlers.items() if not v], key="handlers", engine="E6")
    # boolean ndarray -> flatnonzero
    okb = False
    for n in fa.cfg.stmts():
        if n.kind == "stmt" and isinstance(n.ast, ast.Assign):
            tm = fa.term(n.ast.value, n)
            if np_call(tm, {"flatnonzero"}):
                facts = facts_at(fa, n)
                okb = any(t.k == "cmp" and t.a[0] == "==" and any(y.k == "global" and y.a[0] == "bool" for y in walk(t)) and truth for t, truth, _ in facts)
    ctx.decide("C15.f", f, "a dense boolean mask is converted to positions before the lookup", True if okb else None, key="bool-mask", engine="E6")
    sinks = [(n, c) for n, c in find_calls(fa, lambda c: c.a[0].k == "attr" and c.a[0].a[1] == "_getitem_bool")]

    def m(t):
        if t.k == "cmp" and t.a[0] in ("==", "!="):
            for l, r in ((t.a[1], t.a[2]), (t.a[2], t.a[1])):
                if l.k == "attr" and l.a[1] == "dtype" and any(y.k == "global" and y.a[0] == "bool" for y in walk(r)):
                    return ("mask_is_bool", t.a[0] == "==")
        return None
    check_guard(ctx, "C15.f", f, sinks, Formulas([m]), lambda A: A["mask_is_bool"], ["mask_is_bool"],
                "a run-length mask is used only after refusing unless it is boolean", fa=fa)
    # _getitem_bool: true runs selected by the mask's values, starts and ends alike
    g = ctx.func(RL + "_getitem_bool")
    ga = ctx.fa(g)
    mp = g.params[1]
    sel = {}
    for n in ga.cfg.stmts():
        if n.kind == "stmt" and isinstance(n.ast, ast.Assign) and isinstance(n.ast.targets[0], ast.Name):
            tm = ga.term(n.ast.value, n)
            if tm.k == "sub" and tm.a[0].k == "attr" and tm.a[0].a[1] in ("starts", "ends", "_starts", "_ends"):
                sel[tm.a[0].a[1].lstrip("_")] = (tm.a[1], n)
    what = "the windows of a run-length mask are the runs whose value is true: starts and ends selected by the mask's values"
    if set(sel) != {"starts", "ends"}:
        ctx.unknown("C15.f", g, what, "selection of true runs not recognised", engine="E6")
    else:
        same = sel["starts"][0] == sel["ends"][0]
        byval = all((a.k == "attr" and a.a[1] in ("values", "_values")) or (np_call(a, {"flatnonzero"}) and a.a[1] and a.a[1][0].k == "attr" and a.a[1][0].a[1] in ("values", "_values"))
                    for a in alts(sel["starts"][0]))
        stride = any(a.k == "slice" for a in alts(sel["starts"][0]))
        ctx.decide("C15.f", g, what, True if (same and byval) else (False if (not same or stride) else None),
                   "runs are selected by %s: masks produced by comparisons are not joined, so true and false runs need not alternate" % (sel["starts"][0],),
                   node=sel["starts"][1].ast, key="true-runs", engine="E6")
