#!/venv/bin/python
"""Run every registered check against every behaviour-preserving change in /verif/equivalent (scratch copy of the
package under /tmp, removed afterwards).  Every check must stay silent: any line printed here is a false alarm
of the machinery (or a change that is not equivalent after all - to be decided by reading)."""
import os
import shutil
import subprocess
import sys
import tempfile
from concurrent.futures import ThreadPoolExecutor

VERIF = "/verif"
PY = "/venv/bin/python"
PROPS = os.environ.get("PROPS", "").split(",") if os.environ.get("PROPS") else ["C%02d" % i for i in range(1, 20)]


def one(sid):
    sd = os.path.join(VERIF, "equivalent", sid)
    tmp = tempfile.mkdtemp(prefix="te_%s_" % sid, dir="/tmp")
    out = []
    try:
        shutil.copytree("/repo/npstructures", os.path.join(tmp, "npstructures"), ignore=shutil.ignore_patterns("__pycache__"))
        p = subprocess.run(["patch", "-p1", "-s", "-i", os.path.join(sd, "patch.diff")], cwd=tmp, capture_output=True, text=True)
        if p.returncode != 0:
            return sid, [("-", "patch failed: " + (p.stdout + p.stderr)[-200:])]
        env = dict(os.environ, VERIF_EVIDENCE_DIR=os.path.join(tmp, "ev"))
        for prop in PROPS:
            q = subprocess.run([PY, os.path.join(VERIF, "sa", "run.py"), "check", prop, "--root", tmp], capture_output=True, text=True, env=env, cwd=VERIF)
            if q.returncode != 0:
                viol = [l.strip() for l in q.stdout.splitlines() if l.strip().startswith("VIOLATED")]
                out.append((prop, "rc=%d %s" % (q.returncode, (viol[:2] or [q.stdout[-300:]]))))
        return sid, out
    finally:
        shutil.rmtree(tmp, ignore_errors=True)


ids = sorted(d for d in os.listdir(os.path.join(VERIF, "equivalent")) if os.path.exists(os.path.join(VERIF, "equivalent", d, "patch.diff")))
if len(sys.argv) > 1:
    ids = [i for i in ids if i in sys.argv[1:] or i.split("-")[0] in sys.argv[1:]]
n_bad = 0
with ThreadPoolExecutor(12) as ex:
    for sid, out in ex.map(one, ids):
        for prop, msg in out:
            n_bad += 1
            print("%-12s %s %s" % (sid, prop, msg[:600]))
print("%d equivalent changes, %d alarms" % (len(ids), n_bad))
