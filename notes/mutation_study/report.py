import json, collections
MUT = {m["id"]:m for m in json.load(open("mutants.json"))}
R = {int(k):v for k,v in json.load(open("results.json")).items()}
bycat = collections.defaultdict(lambda:[0,0])
for mid, rc in R.items():
    c = MUT[mid]["cat"]; bycat[c][0]+=1; bycat[c][1]+= (rc==0)
print("category  total  survived")
for c,(t,s) in sorted(bycat.items()): print(f"{c:10s} {t:5d} {s:5d}  {100*s/t:.0f}%")
print("TOTAL", sum(t for t,s in bycat.values()), sum(s for t,s in bycat.values()))
# by file
byf = collections.defaultdict(lambda:[0,0])
for mid, rc in R.items():
    f=MUT[mid]["file"]; byf[f][0]+=1; byf[f][1]+=(rc==0)
for f,(t,s) in sorted(byf.items()): print(f"{f:35s} {t:5d} {s:5d}")
surv = [MUT[m] for m,rc in R.items() if rc==0]
json.dump([{k:v for k,v in m.items() if k!="src"} for m in surv], open("survivors.json","w"), indent=0)
