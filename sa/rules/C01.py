"""C01 - a RaggedArray holds exactly the rows it was built from.

Decided: (a) the size-vs-lengths refusal is on every path that builds geometry from row lengths, with the
right strength; (b) geometry = exclusive prefix sum, (start, length) code layout written by the constructor
is what every reader addresses [seqalg/layout rules]; (c) read-back paths pair data and geometry coherently;
(d) save/load keys agree.  Not decided: value/dtype equality of round trips.
"""
import ast
from ..lib import Toolkit
from ..guards import Formulas, check_guard, order_atoms, is_len_of, find_calls, facts_at, refusals
from ..terms import alts, attr_chain, walk, is_const, call_name, np_call as np_call_
from ..coherence import Coherence, report
from .. import layout

LEVEL_TEXT = ("static path/guard analysis (E1), prefix-sum sequence algebra and code-layout agreement (E5/E6), and "
              "view-coherence typestate (E2) over the constructor, geometry classes and read-back methods; decides "
              "structural necessary conditions of C01 on every path, not the values read back")
ASSUMPTIONS = ["assert statements count as refusals (python -O is out of scope)",
               "numpy knowledge base: cumsum/pad/insert/searchsorted/bincount semantics as documented"]
MIN_OBLIGATIONS = 12

RA = "raggedarray.RaggedArray"


def check(ctx, tier):
    tk = Toolkit(ctx)
    size_guard(ctx, tk)
    to_numpy(ctx, tk)
    iteration(ctx, tk)
    list_constructor(ctx, tk)
    dtype_flow(ctx, tk)
    index_sum_dtype(ctx, tk)
    save_load(ctx, tk)
    layout.prefix_sum_rules(ctx, tk, "C01.b")
    layout.code_layout_rules(ctx, tk, "C01.b")
    layout.index_map_rules(ctx, tk, "C01.b")
    tk.returns_fresh_field("C01.e", ctx.func(RA + ".astype"), "__data", "a converted copy shares no buffer with the array it was converted from")
    coh = ctx.cached("coherence", lambda: Coherence(tk))
    report(coh, "C01.c", funcs=[RA + "." + n for n in ("astype", "save", "equals", "to_numpy_array", "__iter__",
                                                        "tolist", "shape", "lengths", "__len__")])
    tk.purity("C01.p", [ctx.func(q) for q in ['raggedarray.RaggedArray.__len__', 'raggedarray.RaggedArray.shape', 'raggedarray.RaggedArray.lengths', 'raggedarray.RaggedArray.__iter__', 'raggedarray.RaggedArray.tolist', 'raggedarray.RaggedArray.astype', 'raggedarray.RaggedArray.to_numpy_array', 'raggedarray.RaggedArray.save', 'raggedarray.RaggedArray.equals', 'raggedarray.RaggedArray.from_numpy_array', 'raggedarray.RaggedArray._from_array_list', 'raggedshape.ViewBase.starts', 'raggedshape.ViewBase.ends', 'raggedshape.ViewBase.lengths', 'raggedshape.ViewBase.ravel_multi_index', 'raggedshape.ViewBase.unravel_multi_index', 'raggedshape.ViewBase.index_array', 'raggedshape.RaggedShape.size', 'raggedshape.RaggedShape.to_dict']], "the operation does not write into its operands' buffers", content_only=True)
    from .. import hazards as _hz, scopes as _sc
    _hz.generic(ctx, tk, "C01.z", _sc.scope(tk, "C01", depth=1))
    return {}


def size_guard(ctx, tk):
    f = ctx.func(RA + ".__init__")
    fa = ctx.fa(f)
    # start: the statement that derives the geometry from row lengths (RaggedShape.asshape(...))
    starts = []
    for n in fa.cfg.stmts():
        if n.kind == "stmt" and isinstance(n.ast, ast.Assign):
            tm = fa.term(n.ast.value, n)
            if tm.k == "call" and tm.a[0].k == "attr" and tm.a[0].a[1] == "asshape":
                starts.append(n)
    sinks = [n for n, c in find_calls(fa, lambda c: c.a[0].k == "attr" and c.a[0].a[1] == "__init__"
                                      and c.a[0].a[0].k == "call" and call_name(c.a[0].a[0]) == "super")]
    what = ("geometry built from row lengths is only used when its total size equals the size of the flat buffer "
            "(refused otherwise, unless safe_mode is off)")
    if not starts or not sinks:
        ctx.unknown("C01.a", f, what, "constructor idiom not recognised")
        return

    def is_shape_size(t):
        return t.k == "attr" and t.a[1] == "size" and any(
            a.k == "call" and a.a[0].k == "attr" and a.a[0].a[1] == "asshape" for a in alts(t.a[0]))

    def is_data_len(t):
        return is_len_of(lambda x: any(a.k == "param" and a.a[0] == f.params[1] for a in alts(x)))(t)
    m, cons, (E, G, L) = order_atoms("size", is_shape_size, is_data_len)

    def safe(t):
        if t.k == "param" and t.a[0] == "safe_mode":
            return ("safe_mode", True)
        return None
    from ..guards import irrelevant_unless, mentions_param
    forms = Formulas([m, safe], irrelevant=irrelevant_unless(lambda t: mentions_param(t, {f.params[1], f.params[2]})))
    for st in starts:
        check_guard(ctx, "C01.a", f, sinks, forms, lambda A: A[E] or not A["safe_mode"], [E, G, L, "safe_mode"], what,
                    fa=fa, start=st, constraints=cons,
                    describe="a flat buffer whose size disagrees with the row lengths would be accepted")


def to_numpy(ctx, tk):
    f = ctx.func(RA + ".to_numpy_array")
    fa = ctx.fa(f)
    sinks = [(n, c) for n, c in find_calls(fa, lambda c: c.a[0].k == "attr" and c.a[0].a[1] == "reshape")]
    what = "the flat buffer is reshaped to (n_rows, L) only after refusing unless every row has length L"

    def alleq(t):
        # np.all(lengths == L) where L is lengths[0]
        if t.k == "call" and call_name(t) in ("np.all", "all") and t.a[1]:
            c = t.a[1][0]
            if c.k == "cmp" and c.a[0] in ("==", "!="):
                ops = (c.a[1], c.a[2])
                if any(_is_lengths(o) for o in ops) and any(o.k == "sub" and _is_lengths(o.a[0]) and is_const(o.a[1], 0) for o in ops):
                    return ("all_rows_equal", c.a[0] == "==")
        return None
    from ..guards import aggregate_only
    forms = Formulas([alleq], irrelevant=aggregate_only)
    check_guard(ctx, "C01.c", f, sinks, forms, lambda A: A["all_rows_equal"], ["all_rows_equal"], what, fa=fa,
                describe="a comparison of totals (size == L * n_rows) does not make the rows equally long: lengths [1, 0, 2] pass it")
    # the (0, 0) shortcut is taken only for an array without rows (an array of empty rows keeps its row count)
    for r in fa.cfg.returns():
        tm = fa.term(r.ast.value, r)
        if np_call_(tm, {"empty", "zeros"}) and any(x.k == "tuple" and all(is_const(y, 0) for y in x.a[0]) for x in walk(tm)):
            def is_rows(t):
                return (t.k == "call" and call_name(t) == "len" and t.a[1] and t.a[1][0].k == "param") or (attr_chain(t) or ("",))[-1] == "n_rows"

            def is_cells(t):
                return (attr_chain(t) or ("",))[-1] == "size"
            m1, c1, (E1, G1, L1) = order_atoms("rows", is_rows, lambda t: is_const(t, 0))
            m2, c2, (E2, G2, L2) = order_atoms("cells", is_cells, lambda t: is_const(t, 0))
            check_guard(ctx, "C01.c", f, [r], Formulas([m1, m2]), lambda A: A[E1], [E1, G1, L1, E2, G2, L2],
                        "the empty-matrix shortcut is taken only when the array has no rows", fa=fa, constraints=c1 + c2 + [("or", [("not", ("atom", E1)), ("atom", E2)])],
                        describe="an array consisting of empty rows loses its row count and dtype")
    # arrays created for the result carry the array's element type
    for r in fa.cfg.returns():
        tm = fa.term(r.ast.value, r)
        nm = np_call_(tm, {"empty", "zeros", "ones", "full"})
        if nm:
            dt = dict(tm.a[2]).get("dtype")
            ok = dt is not None and any(y.k == "attr" and y.a[1] == "dtype" for y in walk(dt))
            ctx.decide("C01.c", f, "a freshly allocated result has the array's element type", True if ok else (False if dt is None else None),
                       "`%s` has numpy's default dtype float64 whatever the array's dtype" % (tm,), node=r.ast, key="alloc-dtype", engine="E6")
    # reshape(R, C): first extent is the row count, second the common length
    for n, c in find_calls(fa, lambda c: c.a[0].k == "attr" and c.a[0].a[1] == "reshape"):
        args = c.a[1]
        if len(args) == 1 and args[0].k == "tuple":
            args = args[0].a[0]
        if len(args) != 2:
            ctx.unknown("C01.c", f, "reshape extents are (row count, row length)", node=c.node)
            continue
        r_ok = _is_nrows(args[0])
        c_ok = any(o.k == "sub" and _is_lengths(o.a[0]) for o in alts(args[1]))
        swapped = _is_nrows(args[1]) and any(o.k == "sub" and _is_lengths(o.a[0]) for o in alts(args[0]))
        ctx.decide("C01.c", f, "reshape extents are (row count, row length)",
                   True if (r_ok and c_ok) else (False if swapped else None),
                   "reshape receives (row length, row count)", node=c.node, engine="E5")


def _is_lengths(t):
    for a in alts(t):
        c = attr_chain(a)
        if not (c and c[-1] == "lengths"):
            return False
    return True


def _is_nrows(t):
    for a in alts(t):
        c = attr_chain(a)
        if c and c[-1] == "n_rows":
            continue
        if a.k == "call" and call_name(a) == "len" and a.a[1] and a.a[1][0].k == "param":
            continue
        return False
    return True


def iteration(ctx, tk):
    f = ctx.func(RA + ".__iter__")
    fa = ctx.fa(f)
    what = "row i is the slice [start_i, start_i + length_i) of the flat buffer, starts and lengths taken from one geometry object"
    for n in fa.cfg.returns():
        tm = fa.term(n.ast.value, n)
        ok = None
        if tm.k == "comp" and len(tm.a[2]) == 1:
            it = tm.a[2][0]
            elt = tm.a[1]
            if it.k == "call" and call_name(it) == "zip" and len(it.a[1]) == 2 and elt.k == "sub" and elt.a[1].k == "slice":
                z0, z1 = it.a[1]
                c0, c1 = attr_chain(z0), attr_chain(z1)
                lo, hi = elt.a[1].a[0], elt.a[1].a[1]
                if c0 and c1 and c0[:-1] == c1[:-1]:
                    names = (c0[-1], c1[-1])
                    e0 = lambda t: t.k == "elem" and t.a[0] == z0
                    e1 = lambda t: t.k == "elem" and t.a[0] == z1
                    if names == ("starts", "lengths"):
                        ok = e0(lo) and hi.k == "bin" and hi.a[0] == "+" and {_w(hi.a[1], e0, e1), _w(hi.a[2], e0, e1)} == {0, 1}
                    elif names == ("starts", "ends"):
                        ok = e0(lo) and e1(hi)
                    elif names == ("lengths", "starts"):
                        ok = e1(lo) and hi.k == "bin" and hi.a[0] == "+" and {_w(hi.a[1], e0, e1), _w(hi.a[2], e0, e1)} == {0, 1}
                    else:
                        ok = False
        ctx.decide("C01.c", f, what, ok, "slice bounds are not (start, start+length) of the zipped geometry", node=n.ast, engine="E5")
        # KB: np.split(x, cuts) / np.array_split return len(cuts) + 1 pieces.  Cut lists of the form geometry[1:] /
        # geometry[:-1] have max(n_rows - 1, 0) entries: for an array without rows that is 0 cuts and ONE (phantom) piece
        for x in walk(tm):
            if np_call_(x, {"split", "array_split"}) and len(x.a[1]) >= 2:
                cuts = x.a[1][1]
                trimmed = all(a.k == "sub" and a.a[1].k == "slice" and (is_const(a.a[1].a[0], 1) or (a.a[1].a[1].k == "un" or is_const(a.a[1].a[1], -1)))
                              and any(y.k == "attr" and y.a[1] in ("starts", "ends", "lengths") for y in walk(a.a[0])) for a in alts(cuts))
                from ..guards import facts_at as _facts
                guarded = any(t.k == "cmp" and any(call_name(y) == "len" or (y.k == "attr" and y.a[1] in ("n_rows",)) for y in walk(t) if y.k in ("call", "attr")) for t, _tr, _ in _facts(fa, n))
                ctx.decide("C01.c", f, "iteration yields exactly one item per row, also for an array without rows", (False if not guarded else None) if trimmed else None,
                           "`%s`: a cut list taken from the geometry minus one end has no entry for an array without rows, and np.split then returns one (empty) piece: "
                           "list(ra) has one phantom row while len(ra) == 0" % (x,), node=n.ast, key="pieces", engine="KB")


def _w(t, e0, e1):
    return 0 if e0(t) else (1 if e1(t) else -1)


def list_constructor(ctx, tk):
    f = ctx.func(RA + "._from_array_list")
    fa = ctx.fa(f)
    what = "flat data and row lengths are derived from the same list of rows, in the same order, unfiltered"
    for n in fa.cfg.returns():
        tm = fa.term(n.ast.value, n)
        if tm.k != "tuple" or len(tm.a[0]) != 2:
            ctx.unknown("C01.c", f, what, node=n.ast)
            continue
        data, shape = tm.a[0]
        its_d = [c for c in walk(data) if c.k == "comp"]
        its_s = [c for c in walk(shape) if c.k == "comp"]
        ok = None
        if its_d and its_s:
            d, s = its_d[0], its_s[0]
            src_d, src_s = d.a[2][0], s.a[2][0]
            plain = lambda c: not c.a[3]
            ok = (src_d == src_s) and plain(d) and plain(s) and src_d.k == "param"
            # lengths must be len(row) of each element
            e = s.a[1]
            if not (e.k == "call" and call_name(e) == "len" and e.a[1] and e.a[1][0].k == "elem"):
                ok = False if ok is not None else None
        ctx.decide("C01.c", f, what, ok, "data comprehension iterates %s, lengths comprehension iterates %s" % (
            its_d[0].a[2][0] if its_d else "?", its_s[0].a[2][0] if its_s else "?"), node=n.ast, engine="E6")
        # KB: np.array(list of elements) infers the element type from the elements; an empty list is float64.  Rows given as
        # typed arrays that are all empty therefore lose their element type unless the rows' own dtypes are consulted
        flat_by_elements = any(np_call_(a, {"array", "asarray", "asanyarray"}) and a.a[1] and a.a[1][0].k == "comp" and len(a.a[1][0].a[2]) >= 2 for a in alts(data))
        if flat_by_elements:
            consults = any((x.k == "call" and (attr_chain(x.a[0]) or ("",))[-1] in ("result_type", "concatenate", "hstack", "common_type", "promote_types", "find_common_type")) or
                           (x.k == "attr" and x.a[1] == "dtype" and any(y.k in ("elem", "param") for y in walk(x.a[0])))
                           for a in alts(data) for x in walk(a)) or any(
                isinstance(x, ast.Call) and isinstance(x.func, ast.Attribute) and x.func.attr in ("result_type", "common_type", "promote_types")
                for st in fa.cfg.stmts() if fa.cfg.is_reachable(st) and st.ast is not None for x in ast.walk(st.ast))
            ctx.decide("C01.c", f, "the element type of typed rows survives when no row has an element", True if consults else False,
                       "`%s`: the dtype is inferred from the elements alone; rows that are all empty (np.array([], dtype=int8) ...) give a float64 array" % (
                           [a for a in alts(data)][0],), node=n.ast, key="empty-dtype", engine="KB")


def dtype_flow(ctx, tk):
    """E4: the element type asked for at construction reaches every place where the caller's buffer / list of rows
    is turned into an array (a conversion without it takes numpy's default for the values)"""
    what = "the requested dtype reaches the conversion of the caller's data into an array"
    for q in (RA + ".__init__", RA + "._from_array_list"):
        f = ctx.func(q)
        if "dtype" not in f.params:
            ctx.violated("C01.f", f, what, "no dtype parameter", engine="E4")
            continue
        fa = ctx.fa(f)
        dp = f.params[f.params.index("dtype")]
        data_p = f.params[1]
        n = 0
        for node, c in find_calls(fa, lambda c: np_call_(c, {"asanyarray", "asarray", "array"}) and c.a[1]):
            if not any(x.k == "param" and x.a[0] == data_p for x in walk(c.a[1][0])):
                continue
            n += 1
            dt = dict(c.a[2]).get("dtype", c.a[1][1] if len(c.a[1]) > 1 else None)
            ok = dt is not None and any(x.k == "param" and x.a[0] == dp for x in walk(dt))
            later = any(isinstance(x, ast.Call) and isinstance(x.func, ast.Attribute) and x.func.attr in ("astype", "view") and any(
                isinstance(y, ast.Name) and y.id == dp for a in list(x.args) + [k.value for k in x.keywords] for y in ast.walk(a)) for x in ast.walk(f.node))
            ctx.decide("C01.f", f, what, True if ok else (None if later else False),
                       "`%s` converts the caller's data without the requested dtype: a list buffer with dtype=bool/uint8 comes out int64, an empty one float64" % (c,),
                       node=c.node, key="conversion", engine="E4")
        # delegation to the list constructor passes the dtype on
        for node, c in find_calls(fa, lambda c: c.a[0].k == "attr" and c.a[0].a[1] == "_from_array_list"):
            n += 1
            args = list(c.a[1]) + [v for _k, v in c.a[2]]
            ok = any(x.k == "param" and x.a[0] == dp for a in args for x in walk(a))
            ctx.decide("C01.f", f, what, True if ok else False, "`%s` drops the requested dtype" % (c,), node=c.node, key="delegation", engine="E4")
        if not n:
            ctx.unknown("C01.f", f, what, "no conversion of the data parameter recognised", engine="E4")


def index_sum_dtype(ctx, tk):
    """(row, column) -> flat position adds a caller-supplied column to int64 row starts.  KB: int64 + uint64 has no
    common integer type (float64); the caller's column indices are therefore brought to the index dtype first"""
    f = ctx.func("raggedshape.ViewBase.ravel_multi_index")
    fa = ctx.fa(f)
    ip = f.params[1]
    for r in fa.cfg.returns():
        tm = fa.term(r.ast.value, r)
        if not (tm.k == "bin" and tm.a[0] == "+"):
            ctx.unknown("C01.b", f, "flat position = row start + column", node=r.ast, key="ravel-sum", engine="KB")
            continue
        col = [o for o in (tm.a[1], tm.a[2]) if any(x.k == "param" and x.a[0] == ip for x in walk(o)) and not any(x.k == "attr" and x.a[1] == "starts" for x in walk(o))]
        if not col:
            ctx.unknown("C01.b", f, "flat position = row start + column", node=r.ast, key="ravel-sum", engine="KB")
            continue
        c = col[0]
        cast = any((np_call_(x, {"asanyarray", "asarray", "array"}) and "dtype" in dict(x.a[2])) or (x.k == "call" and x.a[0].k == "attr" and x.a[0].a[1] == "astype") for x in walk(c))
        ctx.decide("C01.b", f, "column indices are converted to the index dtype before they are added to the row starts", True if cast else False,
                   "`%s` adds the caller's column indices as they are: unsigned 64-bit indices (np.uintp, uint64) make the sum float64, which cannot index the flat buffer" % (tm,),
                   node=r.ast, key="ravel-sum", engine="KB")


def save_load(ctx, tk):
    save = ctx.func(RA + ".save")
    load = ctx.func(RA + ".load")
    to_dict = ctx.func("raggedshape.RaggedShape.to_dict")
    from_dict = ctx.func("raggedshape.RaggedShape.from_dict")
    written = set()
    fa = ctx.fa(save)
    for n, c in find_calls(fa, lambda c: call_name(c) in ("np.savez", "np.savez_compressed")):
        for k, v in c.a[2]:
            if k != "**":
                written.add(k)
            else:
                # **(self._shape.to_dict())
                fd = ctx.fa(to_dict)
                for r in fd.cfg.returns():
                    t = fd.term(r.ast.value, r)
                    if t.k == "dict":
                        for kk in t.a[0]:
                            if kk.k == "const":
                                written.add(kk.a[0])
    read = set()
    legacy = set()
    for g in (load, from_dict):
        ga = ctx.fa(g)
        for n in ga.cfg.stmts():
            for e in _all_exprs(n):
                for sub in ast.walk(e):
                    if isinstance(sub, ast.Subscript) and isinstance(sub.slice, ast.Constant) and isinstance(sub.slice.value, str):
                        # guarded by `"key" in d` -> optional (legacy) key
                        guarded = any(t.k == "cmp" and t.a[0] == "in" and truth and any(is_const(o, sub.slice.value) for o in (t.a[1], t.a[2]))
                                      or t.k == "cmp" and t.a[0] == "not in" and not truth and any(is_const(o, sub.slice.value) for o in (t.a[1], t.a[2]))
                                      for t, truth, _ in facts_at(ga, n))
                        (legacy if guarded else read).add(sub.slice.value)
    what = "every key load() reads is a key save() writes"
    if not written or not read:
        ctx.unknown("C01.d", save, what, "savez / key reads not recognised")
    else:
        missing = sorted(read - written)
        ctx.decide("C01.d", save, what, not missing, "load reads %s, save writes %s" % (missing, sorted(written)),
                   key="keys", engine="E6")
    # data key pairs the flat view; the loader passes (data, shape) in constructor order
    la = ctx.fa(load)
    for n in la.cfg.returns():
        t = la.term(n.ast.value, n)
        if t.k == "call" and len(t.a[1]) >= 2:
            d, s = t.a[1][0], t.a[1][1]
            okd = d.k == "sub" and is_const(d.a[1], "data")
            oks = s.k == "call" and s.a[0].k == "attr" and s.a[0].a[1] == "from_dict"
            sw = (s.k == "sub" and is_const(s.a[1], "data")) and (d.k == "call" and d.a[0].k == "attr" and d.a[0].a[1] == "from_dict")
            ctx.decide("C01.d", load, "load() rebuilds the array as cls(data, geometry)",
                       True if okd and oks else (False if sw else None), "arguments swapped", node=n.ast, engine="E6")


def _all_exprs(n):
    from ..resolve import _exprs_of_node
    return _exprs_of_node(n)
