#!/venv/bin/python
"""Confirm behaviour-preserving changes written by sub-agents (round 4) and import them into /verif/equivalent/.

For each <src>/<Cxx>/e<k>/ : in a fresh scratch worktree of /repo HEAD (under /tmp, removed afterwards) check that
(1) check.py passes on the unchanged tree, (2) the patch applies, (3) the pinned suite passes with it,
(4) check.py passes with it.  Only then copy to /verif/equivalent/<Cxx>-r4e<k>/."""
import json
import os
import shutil
import subprocess
import sys
from concurrent.futures import ThreadPoolExecutor

SRC = sys.argv[1] if len(sys.argv) > 1 else "/tmp/seed_out4"
DST = "/verif/equivalent"
PY = "/venv/bin/python"
ROUND = os.environ.get("EQUIV_ROUND", "r4")


def run(cmd, cwd=None, env=None, timeout=1800):
    e = dict(os.environ)
    if env:
        e.update(env)
    p = subprocess.run(cmd, cwd=cwd, env=e, capture_output=True, text=True, timeout=timeout)
    return p.returncode, (p.stdout + p.stderr)


def one(item):
    prop, ek, d = item
    sid = "%s-%s%s" % (prop, ROUND, ek)
    out = {"id": sid}
    patch, chk = os.path.join(d, "patch.diff"), os.path.join(d, "check.py")
    if not (os.path.exists(patch) and os.path.exists(chk)):
        out["status"] = "incomplete"
        return out
    wt = "/tmp/ve_%s" % sid
    run(["git", "-C", "/repo", "worktree", "remove", "--force", wt])
    run(["git", "-C", "/repo", "worktree", "add", "-q", "--detach", wt, "HEAD"])
    try:
        rc0, o0 = run([PY, chk], cwd="/tmp", env={"PYTHONPATH": wt})
        rc, o = run(["git", "apply", patch], cwd=wt)
        if rc != 0:
            out["status"] = "patch does not apply: " + o[-200:]
            return out
        rc1, o1 = run([PY, "-m", "pytest", "-q", "-p", "no:cacheprovider"], cwd=wt)
        tail = o1.strip().splitlines()[-1] if o1.strip() else ""
        rc2, o2 = run([PY, chk], cwd="/tmp", env={"PYTHONPATH": wt})
        out.update({"check_without": rc0, "suite": tail, "check_with": rc2})
        ok = rc0 == 0 and "141 passed" in tail and rc2 == 0
        out["status"] = "confirmed" if ok else "rejected"
        if ok:
            dd = os.path.join(DST, sid)
            os.makedirs(dd, exist_ok=True)
            shutil.copy(patch, os.path.join(dd, "patch.diff"))
            shutil.copy(chk, os.path.join(dd, "check.py"))
            meta = {}
            mp = os.path.join(d, "meta.json")
            if os.path.exists(mp):
                try:
                    meta = json.load(open(mp))
                except Exception:
                    meta = {"raw": open(mp).read()}
            meta.update({"id": sid, "property": prop, "caught_by": [],
                         "confirmed_by": {"what_i_ran": "scratch worktree of /repo HEAD under /tmp: check.py without patch (exit %d), git apply, pinned suite (%s), check.py with patch (exit %d)" % (rc0, tail, rc2),
                                          "repo_head": subprocess.check_output(["git", "-C", "/repo", "rev-parse", "--short", "HEAD"], text=True).strip()}})
            json.dump(meta, open(os.path.join(dd, "meta.json"), "w"), indent=1)
    finally:
        run(["git", "-C", "/repo", "worktree", "remove", "--force", wt])
        shutil.rmtree(wt, ignore_errors=True)
    return out


def main():
    items = []
    only = set(sys.argv[2:])
    for prop in sorted(os.listdir(SRC)):
        pd = os.path.join(SRC, prop)
        if not os.path.isdir(pd):
            continue
        for ek in sorted(os.listdir(pd)):
            d = os.path.join(pd, ek)
            if os.path.isdir(d) and ek.startswith("e"):
                sid = "%s-%s%s" % (prop, ROUND, ek)
                if only and prop not in only and sid not in only:
                    continue
                if os.path.exists(os.path.join(DST, sid, "meta.json")) and not only:
                    continue
                items.append((prop, ek, d))
    with ThreadPoolExecutor(8) as ex:
        for r in ex.map(one, items):
            print(json.dumps(r))
    run(["git", "-C", "/repo", "worktree", "prune"])


if __name__ == "__main__":
    main()
