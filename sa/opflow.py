"""E4 - operand flow: which operand a value is derived from (value position only: the index expression of
a subscript contributes nothing), scalar-kind facts from isinstance conditions, weak-scalar preservation."""
import ast
from .terms import T, alts, walk, attr_chain, np_call, is_const, call_name
from .guards import facts_at, find_calls

PASS_METHODS = {"ravel", "astype", "copy", "view", "reshape", "flatten", "squeeze", "item", "tolist"}
PASS_NP = {"asanyarray", "asarray", "array", "atleast_1d", "ascontiguousarray", "ravel"}


def value_roots(t, depth=0):
    """set of root descriptors the *value* of t derives from:
    ("param", name) | ("input", k) for inputs[k] | ("elem", iterable-repr) | ("const",) | ("other",)"""
    if depth > 30:
        return {("other",)}
    rec = lambda x: value_roots(x, depth + 1)
    k = t.k
    if k == "param":
        return {("param", t.a[0])}
    if k == "const":
        return {("const",)}
    if k in ("phi",):
        out = set()
        for x in t.a[0]:
            out |= rec(x)
        return out
    if k == "ifexp":
        return rec(t.a[1]) | rec(t.a[2])
    if k == "attr":
        return rec(t.a[0])
    if k == "sub":
        base = t.a[0]
        if base.k == "param" and t.a[1].k == "const" and isinstance(t.a[1].a[0], int):
            return {("input", base.a[0], t.a[1].a[0])}
        return rec(base)
    if k == "elem":
        return {("elem",) + tuple(sorted(rec(t.a[0])))}
    if k == "un":
        return rec(t.a[1])
    if k == "upd":
        return rec(t.a[0])
    if k == "call":
        if t.a[0].k == "attr" and t.a[0].a[1] in PASS_METHODS:
            return rec(t.a[0].a[0])
        if np_call(t, PASS_NP) and t.a[1]:
            return rec(t.a[1][0])
        return {("other",)}
    if k in ("list", "tuple") and len(t.a[0]) == 1:
        return rec(t.a[0][0])
    if k == "item":
        return rec(t.a[0])
    return {("other",)}


def param_names(roots):
    out = set()
    for r in roots:
        if r[0] == "param":
            out.add(r[1])
        elif r[0] == "input":
            out.add("%s[%d]" % (r[1], r[2]))
        elif r[0] == "elem":
            for x in r[1:]:
                if x[0] == "param":
                    out.add("elem(%s)" % x[1])
                elif x[0] == "input":
                    out.add("elem(%s[%d])" % (x[1], x[2]))
        elif r[0] == "other":
            out.add("?")
    return out


def isinstance_facts(fa, node):
    """{(subject term repr): set of class names known true} from dominating isinstance tests"""
    out = {}
    for t, truth, _ in facts_at(fa, node):
        for c in (t.a[1] if t.k == "bool" and t.a[0] == "and" and truth else [t]):
            if c.k == "call" and c.a[0].k == "global" and c.a[0].a[0] == "isinstance" and len(c.a[1]) == 2 and truth:
                names = {x.a[0] if x.k == "global" else (attr_chain(x) or ("?",))[-1] for x in walk(c.a[1][1]) if x.k in ("global", "attr")}
                out.setdefault(repr(c.a[1][0]), set()).update(names)
    return out


def converts_scalar(t):
    """does the term wrap its value in an array conversion (np.asanyarray / asarray / array)?"""
    return any(np_call(x, {"asanyarray", "asarray", "array"}) for x in walk(t))
