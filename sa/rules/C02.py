"""C02 - indexing reads exactly the addressed cells, or refuses.

Decided: refusal of out-of-range integer row/column indices on both sides (E1/E8); completeness of slice
bound normalisation in the column-slice routines (E8 landmark intervals); dimensional correctness of the
column arithmetic of views (E5: raw = start + column * col_step); coherence of every raw gather with the
buffer it reads (E2); (rows, cols) operand routing (E4); co-selection in the flat-index builder (E6).
Not decided: the clamping arithmetic of negative-step slices (_calculate_lengths) beyond bounds, values.
"""
import ast
from ..lib import Toolkit
from ..guards import Formulas, check_guard, facts_at, find_calls
from ..terms import alts, attr_chain, walk, is_const, call_name, np_call, T
from ..coherence import Coherence, report, report_raw_access
from ..bounds import Intervals, le, show, INF, NINF
from .. import viewrules

LEVEL_TEXT = ("static guard/interval analysis (E1/E8) of the integer-index refusals and slice normalisation, unit "
              "inference (E5) over the view column arithmetic, view-coherence typestate (E2) over the __getitem__ "
              "family and operand routing (E4); structural necessary conditions of C02 on all paths")
ASSUMPTIONS = ["_safe_mode is analysed at its default (True): refusals may be conditional on it",
               "numpy's own bounds check on lengths[row] refuses a row index outside [-n, n-1]",
               "assert statements count as refusals"]
MIN_OBLIGATIONS = 25
IA = "raggedarray.indexablearray.IndexableArray."
V2 = "raggedshape.RaggedView2."


def check(ctx, tier):
    tk = Toolkit(ctx)
    element_bounds(ctx, tk)
    viewrules.int_column_bounds(ctx, tk, "C02.b")
    viewrules.slice_normalisation(ctx, tk, "C02.c")
    viewrules.empty_row_rule(ctx, tk, "C02.k")
    viewrules.col_slice_model(ctx, tk, "C02.k")
    viewrules.int_column_model(ctx, tk, "C02.k")
    viewrules.scalar_column_is_python_int(ctx, tk, "C02.k")
    viewrules.ends_model(ctx, tk, "C02.k")
    viewrules.column_units(ctx, tk, "C02.d")
    viewrules.step_propagation(ctx, tk, "C02.d")
    coh = ctx.cached("coherence", lambda: Coherence(tk))
    fam = [IA + n for n in ("__getitem__", "_get_row_subset", "_get_row_col_subset", "_get_row", "_get_element",
                            "_get_view", "_get_multiple_rows", "get_column_values", "subset")]
    report(coh, "C02.e", funcs=fam)
    report_raw_access_only_vc2(coh)
    viewrules.build_indices_rules(ctx, tk, "C02.f")
    routing(ctx, tk)
    tk.purity("C02.p", [ctx.func(q) for q in ['raggedarray.indexablearray.IndexableArray.__getitem__', 'raggedarray.indexablearray.IndexableArray.get_column_values', 'raggedarray.indexablearray.IndexableArray.subset']], "the operation does not write into its operands' buffers", content_only=True)
    unchecked_construction(ctx, tk)
    from .. import hazards as _hz, scopes as _sc
    _hz.generic(ctx, tk, "C02.z", _sc.scope(tk, "C02", depth=1))
    return {}


def report_raw_access_only_vc2(coh):
    before = len(coh.ctx.obligations)
    report_raw_access(coh, "C02.e")
    # VC4 belongs to C03/C06: drop it here
    coh.ctx.obligations[before:] = [o for o in coh.ctx.obligations[before:] if not o.rule.endswith("VC4")]


def element_bounds(ctx, tk):
    f = ctx.func(IA + "_get_element")
    fa = ctx.fa(f)
    what = ("an (row, col) element address is formed only after refusing col >= len(row) and col < -len(row) "
            "(and row >= n_rows) unless safe_mode is off")
    # sink: the statement computing  starts[row] + col
    sinks = []
    vterm = None
    for n in fa.cfg.stmts():
        if n.kind == "stmt" and isinstance(n.ast, (ast.Assign, ast.Return)) and n.ast.value is not None:
            tm = fa.term(n.ast.value, n)
            for x in walk(tm):
                if x.k == "bin" and x.a[0] == "+" and any(_is_shape_attr(o, "starts") for o in (x.a[1], x.a[2])):
                    sinks.append(n)
                    vterm = x.a[2] if _is_shape_attr(x.a[1], "starts") else x.a[1]
                    break
    if not sinks or vterm is None:
        ctx.unknown("C02.a", f, what, "address computation starts[row] + col not recognised")
        return
    sinks = sinks[:1]
    colp = f.params[2]
    rowp = f.params[1]

    def is_c(t):        # the caller's column, possibly wrapped by asanyarray
        t = _strip(t)
        return all(a.k == "param" and a.a[0] == colp or (a.k == "elem" and False) for a in alts(t)) or _is_unpacked(t, colp)

    def is_v(t):
        return t == vterm and not is_c(t)

    def is_N(t):
        return t.k == "sub" and _is_shape_attr(t, "lengths")

    def m(t):
        if t.k != "cmp" or t.a[0] not in ("<", "<=", ">", ">="):
            return None
        op, l, r = t.a
        # normalise to  X op Y  with X the column
        if (is_c(r) or is_v(r)) and not (is_c(l) or is_v(l)):
            l, r = r, l
            op = {"<": ">", ">": "<", "<=": ">=", ">=": "<="}[op]
        which = "c" if is_c(l) else ("v" if is_v(l) else None)
        if which is None:
            # row bound
            for ll, rr, oo in ((l, r, op), (r, l, {"<": ">", ">": "<", "<=": ">=", ">=": "<="}[op])):
                if _is_unpacked(_strip(ll), rowp) or (ll.k == "param" and ll.a[0] == rowp):
                    if oo == ">=" and attr_chain(rr) and attr_chain(rr)[-1] == "n_rows":
                        return ("row_hi", True)
            return None
        if is_N(r):
            if op == ">=":
                return (which + "_hi", True)
            if op == "<":
                return (which + "_hi", False)
            if op == ">":
                return (which + "_hi_weak", True)      # col > len : off by one, does not refuse col == len
            return None
        if r.k == "un" and r.a[0] == "-" and is_N(r.a[1]):
            if op == "<":
                return (which + "_lo", True)
            if op == ">=":
                return (which + "_lo", False)
            if op == "<=":
                return (which + "_lo_strong", True)
            return None
        if which == "v" and is_const(r, 0):
            if op == "<":
                return ("v_lo", True)
            if op == ">=":
                return ("v_lo", False)
        return None

    def safe(t):
        c = attr_chain(t)
        if c and c[-1] == "_safe_mode":
            return ("safe_mode", True)
        return None
    forms = Formulas([m, safe])
    names = ["c_hi", "c_lo", "v_hi", "v_lo", "safe_mode"]

    def req(A):
        if not A["safe_mode"]:
            return True
        on_c = (not A["c_hi"]) and (not A["c_lo"])
        on_v = (not A["v_hi"]) and (not A["v_lo"])
        return on_c or on_v
    check_guard(ctx, "C02.a", f, sinks, forms, req, names, what, fa=fa,
                describe="a column outside [-len(row), len(row)-1] reaches starts[row] + col and addresses a neighbouring row's cell")
    # negative wrap: where(col < 0, len + col, col) must be strict
    for n in fa.cfg.stmts():
        if n.kind == "stmt" and isinstance(n.ast, ast.Assign):
            tm = fa.term(n.ast.value, n)
            viewrules.wrap_idiom(ctx, "C02.a", f, tm, n.ast)


def _strip(t):
    while True:
        nm = np_call(t, {"asanyarray", "asarray", "array"})
        if nm and t.a[1]:
            t = t.a[1][0]
            continue
        return t


def _is_unpacked(t, pname):
    """row, col = (np.asanyarray(v) for v in (row, col)) unpacks to asanyarray(param)"""
    t = _strip(t)
    return t.k == "param" and t.a[0] == pname


def _is_shape_attr(t, name):
    x = t
    while x.k == "sub":
        x = x.a[0]
    c = attr_chain(x)
    return bool(c and len(c) >= 3 and c[-2] == "_shape" and c[-1] == name)


def routing(ctx, tk):
    """C02.g: element 0 of the index tuple selects rows, element 1 columns; rows go to view_rows, cols to col_slice"""
    f = ctx.func(IA + "_get_row_subset")
    fa = ctx.fa(f)
    what = "the (rows, cols) index tuple reaches the row/column resolver in that order"
    for n, c in find_calls(fa, lambda c: c.a[0].k == "attr" and c.a[0].a[1] == "_get_row_col_subset"):
        if len(c.a[1]) != 2:
            ctx.unknown("C02.g", f, what, node=c.node, engine="E4")
            continue
        ix = []
        for a in c.a[1]:
            if a.k == "sub" and a.a[1].k == "const" and isinstance(a.a[1].a[0], int):
                ix.append(a.a[1].a[0])
            else:
                ix.append(None)
        ctx.decide("C02.g", f, what, True if ix == [0, 1] else (False if ix == [1, 0] else None),
                   "tuple elements %s are passed as (rows, cols)" % ix, node=c.node, engine="E4")
    # Ellipsis entries are dropped only from tuples longer than two ((..., cols) means all rows, columns cols)
    ip = f.params[1]
    from ..guards import order_atoms, _feasible_reach, _Partial, ev
    strip = []
    for n in fa.cfg.stmts():
        if n.kind == "stmt" and isinstance(n.ast, ast.Assign):
            tm = fa.term(n.ast.value, n)
            # the statement that itself filters the Ellipsis entries out (not a later statement that merely uses the result)
            own = any(isinstance(x, (ast.GeneratorExp, ast.ListComp)) and any(isinstance(y, ast.Name) and y.id == "Ellipsis" for g_ in x.generators for c_ in g_.ifs for y in ast.walk(c_))
                      for x in ast.walk(n.ast.value))
            if own and any(x.k == "comp" and x.a[3] and any(y.k == "global" and y.a[0] == "Ellipsis" for c in x.a[3] for y in walk(c)) for x in walk(tm)):
                strip.append(n)
    if strip:
        m_, cons_, (E_, G_, L_) = order_atoms("len", lambda t: t.k == "call" and call_name(t) == "len" and t.a[1] and t.a[1][0].k == "param" and t.a[1][0].a[0] == ip,
                                             lambda t: is_const(t, 2))
        forms_ = Formulas([m_])
        tests_ = {n.id: forms_.of(fa.term(n.ast, n)) for n in fa.cfg.nodes if n.kind == "test" and fa.cfg.is_reachable(n)}
        A = _Partial({E_: True, G_: False, L_: False})
        bad = [n for n in strip if _feasible_reach(fa.cfg, fa.cfg.entry, n, tests_, A, ())]
        ctx.decide("C02.g", f, "Ellipsis entries are stripped only from index tuples longer than two", not bad,
                   "a 2-tuple such as (..., cols) reaches the Ellipsis filter: it is reduced to (cols,) and dispatched as a row selection", node=strip[0].ast, key="ellipsis", engine="E1")
    g = ctx.func(IA + "_get_row_col_subset")
    ga = ctx.fa(g)
    rows_p, cols_p = g.params[1], g.params[2]
    for name, want in (("view_rows", rows_p), ("col_slice", cols_p), ):
        for n, c in find_calls(ga, lambda c, name=name: c.a[0].k == "attr" and c.a[0].a[1] == name):
            if not c.a[1]:
                continue
            roots = {x.a[0] for x in walk(c.a[1][0]) if x.k == "param"}
            other = cols_p if want == rows_p else rows_p
            ok = True if (want in roots and other not in roots) else (False if (other in roots and want not in roots) else None)
            ctx.decide("C02.g", g, "%s receives the %s selector" % (name, "row" if want == rows_p else "column"), ok,
                       "receives a value derived from %s" % sorted(roots), node=c.node, engine="E4")
    for n, c in find_calls(ga, lambda c: c.a[0].k == "attr" and c.a[0].a[1] == "_get_element"):
        if len(c.a[1]) == 2:
            r0 = {x.a[0] for x in walk(c.a[1][0]) if x.k == "param"}
            r1 = {x.a[0] for x in walk(c.a[1][1]) if x.k == "param"}
            ok = True if (r0 == {rows_p} and r1 == {cols_p}) else (False if (r0 == {cols_p} and r1 == {rows_p}) else None)
            ctx.decide("C02.g", g, "_get_element receives (row, col) in that order", ok, "receives (%s, %s)" % (sorted(r0), sorted(r1)),
                       node=c.node, engine="E4")


def unchecked_construction(ctx, tk):
    """who may switch the bounds checks off: `safe_mode=False` is passed only by the hash table for its private bucket
    arrays; an array handed to the user with the checks off returns neighbouring cells for out-of-range (row, col)"""
    what = "arrays are constructed with the bounds checks on, except the hash table's private bucket arrays"
    n = 0
    for q, f in sorted(ctx.program.funcs.items()):
        fa = None
        for x in ast.walk(f.node):
            if isinstance(x, ast.Call):
                for k in x.keywords:
                    if k.arg == "safe_mode" and isinstance(k.value, ast.Constant) and k.value.value is False:
                        n += 1
                        ok = f.module.short == "hashtable"
                        ctx.decide("C02.a", f, what, True if ok else False,
                                   "`%s` builds an array without bounds checks outside the hash table: element reads on it (ra[1:][0, 5]) return a neighbouring row's cell instead of "
                                   "being refused" % ast.unparse(x)[:120], node=x, key="unchecked:" + f.name, engine="E7")
            if isinstance(x, ast.Assign) and any(isinstance(t, ast.Attribute) and t.attr == "_safe_mode" for t in x.targets) and isinstance(x.value, ast.Constant) and x.value.value is False:
                n += 1
                ok = f.module.short == "hashtable"
                ctx.decide("C02.a", f, what, True if ok else False, "`%s` switches the bounds checks of an array off outside the hash table" % ast.unparse(x), node=x,
                           key="unchecked-store:" + f.name, engine="E7")
    if not n:
        ctx.holds("C02.a", "raggedarray.RaggedArray.__init__", what, key="unchecked:none", engine="E7")
