"""C05 - row reductions equal numpy's per-row reductions, empty rows included.

Decided: the ufunc.reduceat hazards (an index equal to len(data) raises; an empty segment yields the next
row's first element) are handled on every path of _reduce; the identity patch-up selects the empty rows and is
never bypassed; every registered reduction is callable through every route with the signature that route uses
(registry <-> method <-> decorator wrapper); each named reduction reduces with its defining ufunc; keepdims /
axis plumbing of the wrapper; mean converts every non-floating dtype.  Not decided: numerical results.
"""
import ast
from ..lib import Toolkit
from ..guards import Formulas, check_guard, find_calls, facts_at, reachable_under, subject_dtype_of, dtype_truth
from ..terms import alts, attr_chain, walk, is_const, call_name, np_call
from ..coherence import Coherence, report
from ..resolve import registry_method_names, static_str_list
from .. import wellformed as W
from .. import npkb

LEVEL_TEXT = ("static path analysis of RaggedArray._reduce (reduceat hazards, identity patch-up polarity and must-pass), "
              "registry/decorator call-compatibility (E6/W0), defining-ufunc table agreement, dtype-class feasibility of "
              "mean's conversion, typestate (E2); structural necessary conditions of C05 on all paths")
ASSUMPTIONS = ["ufunc.reduceat(a, idx): idx == len(a) raises IndexError, idx[i] >= idx[i+1] yields a[idx[i]] (numpy documentation)",
               "np.pad(constant_values=None) raises TypeError", "numpy: np.sum = np.add.reduce, np.prod = np.multiply.reduce, all/any = logical_and/or.reduce, max/min = maximum/minimum.reduce"]
MIN_OBLIGATIONS = 25
RA = "raggedarray.RaggedArray."


def check(ctx, tier):
    tk = Toolkit(ctx)
    reduce_hazards(ctx, tk)
    registry(ctx, tk)
    named_reductions(ctx, tk)
    wrapper(ctx, tk)
    mean_rules(ctx, tk)
    from .C17 import first_match
    first_match(ctx, "C05.f", ctx.func(RA + "argmax"))
    _amin = ctx.func(RA + "argmin")
    if any(isinstance(x_, ast.Call) and isinstance(x_.func, ast.Attribute) and x_.func.attr in ("unique", "searchsorted", "flatnonzero") for x_ in ast.walk(_amin.node)):
        # argmin selects its own first hit (it is not written through argmax): same rule
        first_match(ctx, "C05.f", _amin)
    negation_trick(ctx, tk)
    coh = ctx.cached("coherence", lambda: Coherence(tk))
    report(coh, "C05.e", funcs=[RA + n for n in ("_reduce", "__array_ufunc__", "mean", "sum", "argmax", "argmin")])
    reach = sorted(tk.R.reachable([RA + n for n in ("sum", "prod", "mean", "all", "any", "max", "min", "argmax", "argmin", "_reduce")]))
    fs = [ctx.program.funcs[q] for q in reach if q.startswith("raggedarray.RaggedArray.") or q.startswith("raggedarray.reduction")]
    W.report(ctx, tk, "C05.b", fs)
    W.report_wrappers(ctx, tk, "C05.b")
    tk.purity("C05.p", [ctx.func(q) for q in ['raggedarray.RaggedArray.sum', 'raggedarray.RaggedArray.prod', 'raggedarray.RaggedArray.mean', 'raggedarray.RaggedArray.all', 'raggedarray.RaggedArray.any', 'raggedarray.RaggedArray.max', 'raggedarray.RaggedArray.min', 'raggedarray.RaggedArray.argmax', 'raggedarray.RaggedArray.argmin', 'raggedarray.RaggedArray._reduce']] + [f_ for q_, f_ in sorted(ctx.program.funcs.items()) if q_.startswith('raggedarray.reduction.')], "the operation does not write into its operands' buffers", content_only=True)
    from .. import hazards as _hz, scopes as _sc
    _hz.generic(ctx, tk, "C05.z", _sc.scope(tk, "C05", depth=1))
    _hz.h27_positional_arguments_dropped(ctx, tk, "C05.z/H27", [f_ for f_ in (ctx.program.funcs.get(q_) for q_ in ['arrayfunctions.get_ra_func']) if f_ is not None])
    # argmax / argmin compare the array with its broadcast row extremum: the broadcast must be exact
    _hz.h37_telescoping_needs_exact_arithmetic(ctx, tk, "C05.z/H37", _sc.scope(tk, "C05", closure=True))
    _hz.h19_raw_identity_store(ctx, tk, "C05.z/H19", [ctx.func("raggedarray.RaggedArray._reduce")])
    _hz.h21_default_dtype_result(ctx, tk, "C05.z/H21", [ctx.func("raggedarray.RaggedArray._reduce")])
    return {}


def _is_identity(t, depth=0):
    """ufunc.identity, possibly converted to an array / a dtype: np.array(identity).astype(d), np.asarray(identity, dtype=d), d.type(identity)"""
    c = attr_chain(t)
    if c and c[-1] == "identity":
        return True
    if depth > 4 or t.k != "call":
        return False
    if t.a[0].k == "attr" and t.a[0].a[1] in ("astype", "view", "item") and _is_identity(t.a[0].a[0], depth + 1):
        return True
    if (np_call(t, {"array", "asarray", "asanyarray"}) or (t.a[0].k == "attr" and t.a[0].a[1] == "type")) and t.a[1] and _is_identity(t.a[1][0], depth + 1):
        return True
    return False


def reduce_hazards(ctx, tk):
    f = ctx.func(RA + "_reduce")
    fa = ctx.fa(f)
    selfn = f.params[0]
    rcalls = find_calls(fa, lambda c: c.a[0].k == "attr" and c.a[0].a[1] == "reduceat")
    if not rcalls:
        ctx.unknown("C05.a", f, "segment reduction handles a trailing empty row", "no reduceat call found", engine="KB")
    for n, c in rcalls:
        idx = c.a[1][1] if len(c.a[1]) > 1 else None
        what = "reduceat receives the row starts of all rows only when the last row is non-empty (otherwise the starts are trimmed to the rows before the trailing empty ones)"
        if idx is None:
            ctx.unknown("C05.a", f, what, node=c.node, engine="KB")
            continue
        ch = attr_chain(idx)
        facts = facts_at(fa, n)
        last_nonempty = None
        for t, truth, _ in facts:
            if t.k == "cmp" and t.a[0] in ("==", "!=", ">") and is_const(t.a[2], 0) and t.a[1].k == "sub" and is_const(t.a[1].a[1], -1) \
                    and attr_chain(t.a[1].a[0]) and attr_chain(t.a[1].a[0])[-1] == "lengths":
                eq = t.a[0] == "=="
                last_nonempty = (not truth) if eq else truth
        if ch and ch[-1] == "starts":
            ctx.decide("C05.a", f, what, True if last_nonempty is True else (False if last_nonempty in (False, None) else None),
                       "reduceat over all row starts is reachable with a trailing empty row: its start equals len(data) and reduceat raises IndexError",
                       node=c.node, key="untrimmed", engine="KB")
        elif idx.k == "sub" and idx.a[1].k == "slice" and attr_chain(idx.a[0]) and attr_chain(idx.a[0])[-1] == "starts":
            k = idx.a[1].a[1]
            ok = np_call(k, {"searchsorted"}) and any(is_const(v, "left") for _, v in k.a[2]) if k.k == "call" else None
            if k.k == "call" and np_call(k, {"searchsorted"}) and any(is_const(v, "right") for _, v in k.a[2]):
                # integers: #{starts <= v - 1} == #{starts < v}  (side='right' with the needle lowered by one)
                needle = k.a[1][1] if len(k.a[1]) > 1 else None
                lowered = needle is not None and needle.k == "bin" and needle.a[0] == "-" and is_const(needle.a[2], 1)
                ok = True if lowered else False
            ctx.decide("C05.a", f, "the trimmed row starts end before the first of the trailing empty rows (searchsorted(starts, last start, side='left'))",
                       ok, "cut point %s" % (k,), node=c.node, key="trim", engine="E5")
            # padded back to n rows
            pads = find_calls(fa, lambda c2: np_call(c2, {"pad"}))
            okp = any(fa.cfg.can_reach(n, [pn]) for pn, _ in pads)
            if not okp:
                # the same by hand: a buffer with one entry per row, the reduced part copied in, the tail set to the pad value
                bufs = [m for m in fa.cfg.stmts() if m.kind == "stmt" and isinstance(m.ast, ast.Assign) and np_call(fa.term(m.ast.value, m), {"empty", "zeros", "full"})
                        and any(x.k == "call" and call_name(x) == "len" for x in walk(fa.term(m.ast.value, m))) and fa.cfg.can_reach(n, [m])]
                tails = [m for m in fa.cfg.stmts() if m.kind == "stmt" and isinstance(m.ast, ast.Assign) and isinstance(m.ast.targets[0], ast.Subscript)
                         and isinstance(m.ast.targets[0].slice, ast.Slice) and m.ast.targets[0].slice.upper is None and m.ast.targets[0].slice.lower is not None and fa.cfg.can_reach(n, [m])]
                okp = True if (bufs and tails) else False
            ctx.decide("C05.a", f, "the trimmed result is padded back to one entry per row", True if okp else False,
                       "no np.pad after the trimmed reduceat: trailing empty rows are missing from the result", node=c.node, key="pad-back", engine="E1")
        elif any(np_call(a, {"minimum", "clip"}) for a in alts(idx)):
            ctx.violated("C05.a", f, "reduceat segments end where the next row starts: the row starts are used unmodified (trimmed, never clamped)",
                         "`%s`: reduceat reduces a[idx[i]:idx[i+1]]; clamping the start of a trailing empty row to size-1 ends the last non-empty row one "
                         "element early ([[1, 2], [3, 4], []] sums to [3, 3, 0])" % (idx,), node=c.node, key="clamped", engine="KB")
        else:
            ctx.unknown("C05.a", f, "reduceat index is the (trimmed) row starts", "index %s" % (idx,), node=c.node, key="index-form", engine="KB")
    # identity used as a pad value must not be None
    for n, c in find_calls(fa, lambda c: np_call(c, {"pad"})):
        cv = dict(c.a[2]).get("constant_values")
        if cv is None:
            continue
        what = "the value padded for trailing empty rows is a number also for ufuncs without identity (maximum, minimum)"
        if _is_identity(cv):
            guarded = any(t.k == "cmp" and _is_identity(t.a[1]) and is_const(t.a[2], None) and ((t.a[0] in ("is not", "!=")) == truth) for t, truth, _ in facts_at(fa, n))
            ctx.decide("C05.a", f, what, True if guarded else False,
                       "np.pad(..., constant_values=ufunc.identity) raises TypeError when identity is None: max/min of an array whose last row is "
                       "empty fail for every non-empty row as well (the patch-up below does check `identity is not None`)", node=c.node, key="pad-none", engine="KB")
        else:
            ctx.holds("C05.a", f, what, node=c.node, key="pad-none", engine="KB")
    # patch-up: every normal return passes the `identity is not None` test; its true branch stores identity at empty rows
    tests = [n for n in fa.cfg.nodes if n.kind == "test" and fa.cfg.is_reachable(n) and _identity_test_polarity(fa.term(n.ast, n)) is not None]
    what = "every result leaves _reduce through the identity patch-up for empty rows"
    if not tests:
        ctx.violated("C05.a", f, what, "no `ufunc.identity is not None` patch-up found: an empty row reports the next row's first element", engine="E1")
    else:
        bad = [r for r in fa.cfg.returns() if not fa.cfg.must_pass(tests, r)]
        if bad:
            for r in bad:
                ctx.violated("C05.a", f, what, "`%s` returns without the patch-up: empty rows do not get the ufunc's identity "
                             "(e.g. prod of an empty row must be 1, all() True)" % ast.unparse(r.ast), node=r.ast, engine="E1")
        else:
            ctx.holds("C05.a", f, what, key="patch-must-pass", engine="E1")
        stores = []
        for n in fa.cfg.stmts():
            if n.kind == "stmt" and isinstance(n.ast, ast.Assign) and isinstance(n.ast.targets[0], ast.Subscript):
                if any(t.k == "cmp" and _is_identity(t.a[1]) and is_const(t.a[2], None) and ((t.a[0] in ("is not", "!=")) == truth) for t, truth, _ in facts_at(fa, n)):
                    stores.append(n)
        whatp = "the patch-up stores the identity exactly at the empty rows"
        if not stores:
            ctx.violated("C05.a", f, whatp, "no store under `identity is not None`", node=tests[0].ast, engine="E1")
        for s in stores:
            mask = fa.term(s.ast.targets[0].slice, s)
            val = fa.term(s.ast.value, s)
            pol = _empty_mask_polarity(mask)
            ctx.decide("C05.a", f, whatp, pol if _is_identity(val) else (None if pol is not False else False),
                       "mask `%s` selects the non-empty rows" % (mask,), node=s.ast, key="patch-polarity", engine="E1")
    # all-empty case
    for n in fa.cfg.stmts():
        if n.kind == "stmt" and isinstance(n.ast, ast.Assign):
            tm = fa.term(n.ast.value, n)
            if np_call(tm, {"full", "zeros", "ones", "empty"}) and any(
                    t.k == "cmp" and t.a[0] == "==" and is_const(t.a[2], 0) and truth and attr_chain(t.a[1]) and attr_chain(t.a[1])[-1] == "size"
                    for t, truth, _ in facts_at(fa, n)):
                fv = dict(tm.a[2]).get("fill_value", tm.a[1][1] if len(tm.a[1]) > 1 else None)
                nm = np_call(tm, {"full", "zeros", "ones", "empty"})
                own_answer = fv is not None and fv.k == "call" and fv.a[0].k == "attr" and fv.a[0].a[1] == "reduce" and fv.a[0].a[0].k == "param"
                ok = True if (nm == "full" and fv is not None and (_is_identity(fv) or own_answer)) else (False if nm in ("zeros", "ones", "empty") or (fv is not None and fv.k == "const") else None)
                ctx.decide("C05.a", f, "an array without cells reduces to the ufunc's identity in every row", ok,
                           "all-empty result is built with np.%s: wrong for identities other than that constant" % nm, node=n.ast, key="all-empty", engine="E1")


def _identity_test_polarity(t):
    """True/False when the condition is (a negation of) `identity is not None`; None otherwise"""
    neg = False
    while t.k == "un" and t.a[0] == "not":
        t, neg = t.a[1], not neg
    if t.k == "cmp" and _is_identity(t.a[1]) and is_const(t.a[2], None) and t.a[0] in ("is not", "!=", "is", "=="):
        return (t.a[0] in ("is not", "!=")) != neg
    return None


def _empty_mask_polarity(mask):
    """True: selects empty rows (len == 0, ~(len != 0), len < 1, starts == ends); False: selects non-empty; None unknown"""
    if mask.k == "un" and mask.a[0] == "~":
        r = _empty_mask_polarity(mask.a[1])
        return None if r is None else (not r)
    if mask.k == "cmp":
        op, l, r = mask.a
        cl, cr = attr_chain(l), attr_chain(r)
        if cl and cl[-1] == "lengths" and r.k == "const":
            v = r.a[0]
            if (op == "==" and v == 0) or (op == "<" and v == 1) or (op == "<=" and v == 0):
                return True
            if (op in ("!=", ">") and v == 0) or (op == ">=" and v == 1):
                return False
        if cl and cr and {cl[-1], cr[-1]} == {"starts", "ends"}:
            return True if op == "==" else (False if op == "!=" else None)
    return None


def registry(ctx, tk):
    mod, node = ctx.program.const("arrayfunctions", "HANDLED_FUNCTIONS")
    ra = ctx.program.cls("raggedarray.RaggedArray")
    names = registry_method_names(mod, node)
    what = "every name registered for numpy dispatch is a RaggedArray method and a numpy function"
    if not names:
        ctx.unknown("C05.b", "arrayfunctions.get_ra_func", what, "registry literal not recognised", engine="E6")
    import_np = {"sum", "prod", "all", "any", "max", "min", "mean", "std", "argmax", "argmin", "cumsum", "nonzero", "cumprod", "amax", "amin"}
    for _, nm in names:
        m = ra.lookup(nm)
        ctx.decide("C05.b", "arrayfunctions.get_ra_func", what, True if (m is not None and nm in import_np) else (False if m is None else None),
                   "`%s` is registered but RaggedArray has no such method" % nm if m is None else "np.%s is not a numpy function" % nm,
                   key="registered:" + nm, engine="E6")
    # REDUCTIONS maps each ufunc to the method numpy defines through it
    _, red = ctx.program.const("arrayfunctions", "REDUCTIONS")
    if isinstance(red, ast.Dict):
        inv = {v: k for k, v in npkb.REDUCTION_UFUNC.items()}
        for k, v in zip(red.keys, red.values):
            un = k.attr if isinstance(k, ast.Attribute) else None
            mn = v.value if isinstance(v, ast.Constant) else None
            if un in inv and mn is not None:
                ctx.decide("C05.c", "arrayfunctions.get_ra_func", "REDUCTIONS maps a ufunc to the reduction numpy defines by it", inv[un] == mn,
                           "np.%s is mapped to %r, numpy's reduction of it is %r" % (un, mn, inv[un]), node=v, key="REDUCTIONS:" + un, engine="E6")


def named_reductions(ctx, tk):
    ra = ctx.program.cls("raggedarray.RaggedArray")
    for name, uf in npkb.REDUCTION_UFUNC.items():
        m = ra.lookup(name)
        if m is None:
            continue
        fa = ctx.fa(m)
        what = "%s reduces each row with np.%s.reduce along the last axis" % (name, uf)
        found = False
        for n in fa.cfg.returns():
            tm = fa.term(n.ast.value, n)
            for a in alts(tm):
                c = attr_chain(a.a[0]) if a.k == "call" else None
                if c and len(c) == 3 and c[2] == "reduce":
                    found = True
                    ax = dict(a.a[2]).get("axis", a.a[1][1] if len(a.a[1]) > 1 else None)
                    axis_ok = ax is not None and ax.k == "const" and ax.a[0] in (-1, 1)
                    ctx.decide("C05.c", m, what, (c[1] == uf) and axis_ok,
                               "delegates to np.%s.reduce(axis=%s)" % (c[1], ax), node=n.ast, engine="E6")
            # a result derived from *another* reduction (any() as `add.reduce(...) != 0`, max as -min(-x), ...) is only right for
            # some element types: signed values cancel in a sum, unsigned values wrap under negation
            for x in walk(tm):
                c = attr_chain(x.a[0]) if x.k == "call" else None
                if c and len(c) == 3 and c[2] == "reduce" and c[1] != uf and not any(a is x for a in alts(tm)):
                    ctx.violated("C05.c", m, what, "the result is derived from np.%s.reduce (%s): that is not the same function for every element type "
                                 "(signed rows such as [3, -3] sum to 0 although they hold non-zero values)" % (c[1], tm), node=n.ast, key="derived:" + c[1], engine="KB")
        if not found:
            ctx.unknown("C05.c", m, what, "delegation not recognised", engine="E6")
        # the decorator allows both spellings of the row axis
        for d in m.decorators:
            if isinstance(d, ast.Call):
                allowed = None
                for k in d.keywords:
                    if k.arg == "allowed_axis" and isinstance(k.value, ast.Tuple):
                        allowed = [e.value if isinstance(e, ast.Constant) else (-e.operand.value if isinstance(e, ast.UnaryOp) else None) for e in k.value.elts]
                if allowed is not None:
                    ctx.decide("C05.d", m, "the row axis is accepted as -1 and as 1", (-1 in allowed and 1 in allowed), "allowed_axis=%s" % allowed,
                               node=d, key="axes", engine="E6")


def _same_name_as_wrapped(nm, w):
    """the name handed to getattr(np, .) is the wrapped function's __name__: directly, or through a variable of the
    enclosing decorator that was assigned `func.__name__`.  A constant name is wrong (one name for every reduction)"""
    if nm is None:
        return None
    if nm.k == "attr" and nm.a[1] == "__name__" and nm.a[0].k == "free":
        return True
    if nm.k == "const":
        return False
    if nm.k == "free" and w.parent is not None:
        for x in ast.walk(w.parent.node):
            if isinstance(x, ast.Assign) and any(isinstance(t, ast.Name) and t.id == nm.a[0] for t in x.targets):
                v = x.value
                if isinstance(v, ast.Attribute) and v.attr == "__name__" and isinstance(v.value, ast.Name) and v.value.id in w.parent.params:
                    return True
                return None
    return None


def _choose(t, env):
    """the alternative of a conditional expression selected when the named parameters have the given constant
    values; None when the condition cannot be evaluated"""
    while t.k == "ifexp":
        c = _ev_const(t.a[0], env)
        if c is None:
            return None
        t = t.a[1] if c else t.a[2]
    return t


def _ev_const(c, env):
    if c.k == "cmp":
        def val(x):
            if x.k == "param" and x.a[0] in env:
                return (env[x.a[0]],)
            if x.k == "const":
                return (x.a[0],)
            if x.k == "un" and x.a[0] == "-" and x.a[1].k == "const":
                return (-x.a[1].a[0],)
            if x.k in ("tuple", "list") and all(val(y) is not None for y in x.a[0]):
                return (tuple(val(y)[0] for y in x.a[0]),)
            return None
        l, r = val(c.a[1]), val(c.a[2])
        if l is None or r is None:
            return None
        l, r = l[0], r[0]
        try:
            return {"==": lambda: l == r, "!=": lambda: l != r, "<": lambda: l < r, "<=": lambda: l <= r, ">": lambda: l > r, ">=": lambda: l >= r,
                    "in": lambda: l in r, "not in": lambda: l not in r, "is": lambda: l is r, "is not": lambda: l is not r}[c.a[0]]()
        except Exception:
            return None
    if c.k == "un" and c.a[0] == "not":
        v = _ev_const(c.a[1], env)
        return None if v is None else (not v)
    if c.k == "bool":
        vs = [_ev_const(x, env) for x in c.a[1]]
        if c.a[0] == "and":
            return False if any(v is False for v in vs) else (None if any(v is None for v in vs) else True)
        return True if any(v is True for v in vs) else (None if any(v is None for v in vs) else False)
    return None


def wrapper(ctx, tk):
    w = ctx.func("raggedarray.reduction.reduction_func.new_func")
    fa = ctx.fa(w)
    selfn = w.params[0]
    # keepdims => column
    for n in fa.cfg.stmts():
        if n.kind == "stmt" and isinstance(n.ast, ast.Assign):
            tm = fa.term(n.ast.value, n)
            if tm.k == "ifexp" and all(a.k == "sub" and a.a[1].k == "tuple" and any(is_const(x, None) for x in a.a[1].a[0]) for a in alts(tm)):
                # the reshape depends on a condition: for both spellings of the row axis (-1 and 1) the chosen form is the column
                for v in (-1, 1):
                    ch = _choose(tm, {"axis": v})
                    if ch is None:
                        ctx.unknown("C05.d", w, "keepdims adds the new axis last (a column) for axis=%d" % v, "condition not evaluated", node=n.ast, key="keepdims-axis:%d" % v, engine="E5")
                        continue
                    last = ch.a[1].a[0]
                    ctx.decide("C05.d", w, "keepdims adds the new axis last (a column) for axis=%d" % v, True if (len(last) == 2 and is_const(last[1], None)) else False,
                               "for axis=%d the result is indexed with %s: a row of shape (1, n_rows) instead of the column (n_rows, 1)" % (v, ch.a[1]), node=n.ast, key="keepdims-axis:%d" % v, engine="E5")
                continue
            if tm.k == "sub" and tm.a[1].k == "tuple" and any(is_const(x, None) for x in tm.a[1].a[0]):
                facts = facts_at(fa, n)
                kd = [truth for t, truth, _ in facts if t.k == "param" and t.a[0] == "keepdims"]
                ctx.decide("C05.d", w, "the result is reshaped to a column exactly when keepdims is true", True if kd == [True] else (False if kd == [False] else None),
                           "the column reshape runs when keepdims is false", node=n.ast, key="keepdims", engine="E1")
                last = tm.a[1].a[0]
                col = len(last) == 2 and is_const(last[1], None)
                # a row form is wrong only where a row axis (-1 or 1) can reach it
                row_axis_reaches = [v for v in (-1, 1) if not any(_ev_const(t, {"axis": v}) is (not truth) for t, truth, _ in facts)]
                ctx.decide("C05.d", w, "keepdims adds the new axis last (a column) for row reductions", True if (col or not row_axis_reaches) else False,
                           "index %s is reached for axis=%s" % (tm.a[1], row_axis_reaches), node=n.ast, key="keepdims-axis", engine="E5")
    # axis None: numpy function of the same name on the flat data
    for r in fa.cfg.returns():
        tm = fa.term(r.ast.value, r)
        facts = facts_at(fa, r)
        if any(t.k == "cmp" and t.a[0] in ("is", "is not", "==", "!=") and t.a[1].k == "param" and t.a[1].a[0] == "axis" and is_const(t.a[2], None) and ((t.a[0] in ("is", "==")) == truth) for t, truth, _ in facts):
            ok = None
            for x in walk(tm):
                if x.k == "call" and x.a[0].k == "call" and x.a[0].a[0].k == "global" and x.a[0].a[0].a[0] == "getattr":
                    g = x.a[0]
                    nm = g.a[1][1] if len(g.a[1]) > 1 else None
                    ok = _same_name_as_wrapped(nm, w)
                    arg = x.a[1][0] if x.a[1] else None
                    if arg is not None and not (arg.k == "call" and arg.a[0].k == "attr" and arg.a[0].a[1] == "ravel"):
                        ok = None
                        # the row results re-reduced: they hold a pad value (0) for trailing empty rows and whatever reduceat left for
                        # the others, which then takes part in max / min / prod of the whole array
                        if arg.k == "call" and arg.a[0].k in ("free", "lparam", "global", "param") and any(k_ == "axis" for k_, _ in arg.a[2]):
                            ok = False
            ctx.decide("C05.d", w, "with axis=None the numpy function of the same name is applied to the flat data", ok,
                       "`%s` reduces the per-row results once more: the values standing in for empty rows (padding 0, a neighbour's element) take part, so min() of all-positive "
                       "data ending in an empty row is 0" % (tm,), node=r.ast, key="axis-none", engine="E6")
    # not-allowed axis -> NotImplemented
    for r in fa.cfg.returns():
        tm = fa.term(r.ast.value, r)
        if tm.k == "global" and tm.a[0] == "NotImplemented":
            facts = facts_at(fa, r)
            ok = any(t.k == "cmp" and t.a[0] == "not in" and t.a[1].k == "param" and t.a[1].a[0] == "axis" and truth for t, truth, _ in facts) or \
                any(t.k == "cmp" and t.a[0] == "in" and t.a[1].k == "param" and t.a[1].a[0] == "axis" and not truth for t, truth, _ in facts)
            ctx.decide("C05.d", w, "NotImplemented is returned exactly for an axis outside allowed_axis", True if ok else None, node=r.ast, key="axis-refusal", engine="E1")


def mean_rules(ctx, tk):
    m = ctx.func(RA + "mean")
    fa = ctx.fa(m)
    selfn = m.params[0]
    subj = subject_dtype_of(selfn)
    conv = [n for n in fa.cfg.stmts() if n.kind == "stmt" and isinstance(n.ast, ast.Assign) and
            any(isinstance(x, ast.Call) and isinstance(x.func, ast.Attribute) and x.func.attr == "astype" and x.args
                and ast.unparse(x.args[0]) in ("float", "np.float64", "np.floating", "'float'", "np.double")
                for x in ast.walk(n.ast.value))]
    what = "mean converts every non-floating dtype (bool, signed, unsigned) to float before dividing"
    if not conv:
        ctx.unknown("C05.e", m, what, "float conversion not recognised", engine="E1")
    else:
        bad = []
        for kind in ("bool", "signed", "unsigned"):
            reach = reachable_under(fa, kind, subj, avoid=conv)
            if fa.cfg.exit.id in reach:
                bad.append(kind)
        ctx.decide("C05.e", m, what, not bad, "for %s arrays the division is reached without the conversion: the mean is cast back to %s" % (
            "/".join(bad), "/".join(bad)), node=conv[0].ast, key="float-conversion", engine="E1")
        # the total itself is taken from the converted data: a sum computed before the conversion runs in the integer type
        # (int64 totals wrap where numpy's mean accumulates in float64)
        sums = [n for n, c in find_calls(fa, lambda c: c.a[0].k == "attr" and c.a[0].a[1] == "sum")]
        early = []
        for kind in ("signed", "unsigned"):
            reach = reachable_under(fa, kind, subj, avoid=conv)
            early += [n for n in sums if n.id in reach and kind not in [k for k, _n in early]]
            early = [(kind, n) if not isinstance(n, tuple) else n for n in early]
        ctx.decide("C05.e", m, "the total that mean divides is computed from the float-converted data", False if early else (True if sums else None),
                   "`%s` is computed before the conversion to float for %s data: totals beyond the 64-bit range wrap" % (
                       ast.unparse(early[0][1].ast)[:80] if early else "", "/".join(sorted({k for k, _ in early}))), node=(early[0][1].ast if early else conv[0].ast),
                   key="sum-after-conversion", engine="E1")
    # divisor agreement: axis 0 -> col_counts(), rows -> lengths
    for r in fa.cfg.returns():
        tm = fa.term(r.ast.value, r)
        for x in walk(tm):
            if x.k == "bin" and x.a[0] == "/":
                div = x.a[2]
                ok = None
                if div.k == "phi" and len(div.a[0]) == 2:
                    kinds = set()
                    for a in div.a[0]:
                        if a.node is None:
                            kinds.add("?")
                            continue
                        if a.k == "call" and a.a[0].k == "attr" and a.a[0].a[1] == "col_counts":
                            node = fa.node_of(a.node)
                            ax0 = any(t.k == "cmp" and t.a[0] == "==" and is_const(t.a[2], 0) and truth for t, truth, _ in facts_at(fa, node))
                            kinds.add("col" if ax0 else "col-wrong-branch")
                        elif a.k == "attr" and a.a[1] == "lengths":
                            node = fa.node_of(a.node)
                            ax0 = any(t.k == "cmp" and t.a[0] == "==" and is_const(t.a[2], 0) and truth for t, truth, _ in facts_at(fa, node))
                            kinds.add("row-wrong-branch" if ax0 else "row")
                        else:
                            kinds.add("?")
                    ok = True if kinds == {"col", "row"} else (False if any(k.endswith("wrong-branch") for k in kinds) else None)
                ctx.decide("C05.e", m, "column means divide by col_counts(), row means by the row lengths", ok, "divisor %s" % (div,), node=r.ast, key="divisor", engine="E6")


def negation_trick(ctx, tk):
    """KB hazard: arithmetic negation does not reverse the order of unsigned integers (0 stays smallest, the rest
    wraps), of the most negative signed value, and is undefined for booleans - so min/argmin must not be
    computed as max/argmax of the negated array"""
    ra = ctx.program.cls("raggedarray.RaggedArray")
    for name in ("min", "argmin", "max", "argmax"):
        m = ra.lookup(name)
        if m is None:
            continue
        fa = ctx.fa(m)
        selfn = m.params[0]
        what = "%s orders the elements by comparison, not through arithmetic negation" % name
        bad = None
        for n in fa.cfg.stmts():
            for e in ([n.ast.value] if n.kind == "stmt" and isinstance(n.ast, (ast.Return, ast.Assign)) and n.ast.value is not None else []):
                tm = fa.term(e, n)
                for x in walk(tm):
                    if x.k == "call" and x.a[0].k == "attr" and x.a[0].a[1] in ("max", "argmax", "min", "argmin"):
                        recv = x.a[0].a[0]
                        if recv.k == "un" and recv.a[0] == "-" and any(y.k == "param" and y.a[0] == selfn for y in walk(recv)):
                            bad = (x, e)
                    if np_call(x, {"max", "argmax", "min", "argmin", "maximum", "minimum"}) and x.a[1] and x.a[1][0].k == "un" and x.a[1][0].a[0] == "-":
                        bad = (x, e)
        if bad:
            ctx.violated("C05.g", m, what, "`%s`: for unsigned rows containing 0, for the most negative signed value and for booleans negation is not "
                         "order-reversing (uint8 [3, 0, 5]: -x = [253, 0, 251], so the 'minimum' is found at 3)" % (bad[0],), node=bad[1], engine="KB")
        else:
            ctx.holds("C05.g", m, what, engine="KB")
