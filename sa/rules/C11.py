"""C11 - HashTable is a dictionary over a fixed set of integer keys.

Decided: key-set immutability and ownership of the value buffer (E3); the absent-key refusal (E1) and the
argmax-of-mask hazard on the scalar path (KB); keys / hashes / values are permuted together (E6); every bucket
address uses the one hash function and modulus; lazy scalar values are materialised before any item store;
sibling agreement of the lookup/membership routines (same query preprocessing, queries as a column);
value-dtype plumbing; zeros_like/ones_like/__add__ shape rules.  Not decided: lookup values, collision behaviour.
"""
import ast
from ..lib import Toolkit
from ..guards import Formulas, check_guard, find_calls, facts_at, order_atoms
from ..terms import alts, attr_chain, walk, is_const, call_name, np_call
from .. import hazards
from .. import wellformed as W

LEVEL_TEXT = ("static ownership/who-may-write analysis (E3), guard analysis with order atoms (E1), co-permutation and sibling "
              "agreement (E6), single-hash provenance and numpy-hazard rules over hashtable.py; structural necessary conditions of C11")
ASSUMPTIONS = ["np.argmax of an all-False mask is 0", "fancy indexing with an integer array copies; a slice is a view"]
MIN_OBLIGATIONS = 25
HT = "hashtable.HashTable."


def check(ctx, tier):
    tk = Toolkit(ctx)
    who_may_write(ctx, tk)
    ownership(ctx, tk)
    missing_key(ctx, tk)
    lookup_refusal(ctx, tk)
    co_permutation(ctx, tk)
    single_hash(ctx, tk)
    setitem(ctx, tk)
    siblings(ctx, tk)
    like_and_add(ctx, tk)
    fill_values(ctx, tk)
    values_state(ctx, tk)
    scalar_expansion(ctx, tk)
    equality_compares_keys(ctx, tk)
    keys_values_apart(ctx, tk)
    exact_key_comparison(ctx, tk)
    fs = [f for q, f in ctx.program.funcs.items() if q.startswith("hashtable.")]
    hazards.h2_argmax_of_mask(ctx, tk, "C11.b", fs)
    W.report(ctx, tk, "C11.j", fs)
    tk.purity("C11.p", [ctx.func(q) for q in ['hashtable.HashTable.__getitem__', 'hashtable.HashTable.contains', 'hashtable.HashTable.__add__', 'hashtable.HashTable.__eq__', 'hashtable.HashTable.items', 'hashtable.HashTable.to_dict', 'hashtable.HashTable._get_indices', 'hashtable.HashTable.__array_function__', 'hashtable.HashSet.contains', 'hashtable.zeros_like', 'hashtable.ones_like']], "the operation does not write into its operands' buffers", content_only=True)
    from .. import hazards as _hz, scopes as _sc
    _hz.generic(ctx, tk, "C11.z", _sc.scope(tk, "C11", depth=1))
    return {}


FROZEN = {"_keys", "_mod", "_key_dtype"}


def exact_key_comparison(ctx, tk):
    """lookups compare the bucket rows with the query column through RaggedArray.__array_ufunc__.  numpy's comparison of int64 with
    uint64 is exact, but np.result_type(int64, uint64) is float64: a dispatcher that casts the column to the common result type
    *before* the ufunc compares keys above 2**53 in floating point (2**62 and 2**62 + 1 are the same float), so absent keys are
    reported present and their lookups are not refused"""
    f = ctx.func("raggedarray.RaggedArray.__array_ufunc__")
    fa = ctx.fa(f)
    what = "key comparisons are exact for every pairing of signed and unsigned key / query types (operands are not cast to np.result_type before the comparison)"
    calls = find_calls(fa, lambda c: c.a[0].k == "attr" and c.a[0].a[1] == "_broadcast_rows")
    if not calls:
        ctx.unknown("C11.k", f, what, "column broadcast not found", engine="KB")
    for n, c in calls:
        kw = dict(c.a[2])
        dt = kw.get("dtype", c.a[1][1] if len(c.a[1]) > 1 else None)
        if dt is None:
            ctx.unknown("C11.k", f, what, "no dtype is passed (decided by C04.g)", node=c.node, engine="KB")
            continue
        pre = any(np_call(x, {"result_type", "promote_types"}) for a in alts(dt) for x in walk(a))
        own = dt.k == "attr" and dt.a[1] == "dtype" and c.a[1] and str(dt.a[0]) == str(c.a[1][0])
        ctx.decide("C11.k", f, what, True if own else (False if pre else None),
                   "`%s` casts the query column to np.result_type of the operands first - float64 for a uint64 table asked with int64 keys (a Python list): "
                   "HashTable(uint64 [2**62, 5], mod=1).contains([2**62 + 1]) is True" % (c,), node=c.node, key="precast", engine="KB")


def who_may_write(ctx, tk):
    for q, f in ctx.program.funcs.items():
        if not q.startswith("hashtable."):
            continue
        for sub in ast.walk(f.node):
            if isinstance(sub, ast.Attribute) and isinstance(sub.ctx, ast.Store) and sub.attr in FROZEN \
                    and isinstance(sub.value, ast.Name) and f.params and sub.value.id == f.params[0]:
                ok = f.name == "__init__" or f.qual in tk.ctor_helpers()
                ctx.decide("C11.a", f, "the key set, modulus and key dtype are assigned only by the constructor", ok,
                           "`%s` is re-assigned outside __init__: the key set is no longer fixed" % ast.unparse(sub), node=sub, engine="E3")
        # content writes into the keys buffer
        fa = ctx.fa(f)
        for s in tk.E.sites(fa):
            if s.kind in ("attrstore",):
                continue
            tgt = s.target
            if any(x.k == "attr" and x.a[1] == "_keys" for x in walk(tgt)) and s.kind != "setitem" or \
                    (s.kind == "setitem" and (attr_chain(tgt) or ("",))[-1] == "_keys"):
                ctx.violated("C11.a", f, "no operation writes into the keys", "%s modifies the stored keys" % s.desc, node=s.astnode, engine="E3")
    ctx.holds("C11.a", HT + "__init__", "no operation writes into the keys [no in-place construct targets _keys in hashtable.py]", key="scan", engine="E3")


def ownership(ctx, tk):
    f = ctx.func(HT + "__init__")
    fa = ctx.fa(f)
    for n in fa.cfg.stmts():
        if n.kind == "stmt" and isinstance(n.ast, ast.Assign) and isinstance(n.ast.targets[0], ast.Attribute) and n.ast.targets[0].attr == "_values":
            tm = fa.term(n.ast.value, n)
            if tm.k == "call" and tm.a[1] and tk.R.callee_type(tm.a[0], fa) and tk.R.callee_type(tm.a[0], fa)[0] == "class":
                fr = tk.E.fresh(tm.a[1][0], fa)
                ctx.decide("C11.a", f, "the table owns its value buffer (count / fill / item assignment write it in place): it is a copy of the caller's values",
                           True if fr[0] == "fresh" else (False if fr[0] == "alias" else None),
                           "`%s` may be a view of the caller's array (for keys already in bucket order no copy is made): later in-place updates write "
                           "into the caller's array and into every table built from it" % (tm.a[1][0],), node=n.ast, key="values-owned", engine="E3")


def missing_key(ctx, tk):
    f = ctx.func(HT + "_get_indices")
    fa = ctx.fa(f)
    kp = f.params[1]
    rets = []
    for r in fa.cfg.returns():
        facts = facts_at(fa, r)
        if not any(t.k == "call" and call_name(t) == "isinstance" and truth for t, truth, _ in facts):
            rets.append(r)
    what = "the vector lookup returns positions only after refusing when fewer matches than queries were found"

    def is_off(t):
        return t.k == "attr" and t.a[1] == "size" and t.a[0].k == "item"

    def is_q(t):
        return (t.k == "attr" and t.a[1] == "size" or (t.k == "call" and call_name(t) == "len")) and any(x.k == "param" and x.a[0] == kp for x in walk(t))
    m, cons, (E, G, L) = order_atoms("matches", is_off, is_q)
    check_guard(ctx, "C11.b", f, rets, Formulas([m]), lambda A: not A[L], [E, G, L], what, fa=fa, constraints=cons,
                describe="an absent key in a vector lookup silently shifts or drops results")


def lookup_refusal(ctx, tk):
    """every vector lookup resolves its keys through _get_indices (whose refusal is C11.b), whatever the hidden
    state of the values (scalar / array)"""
    f = ctx.func(HT + "__getitem__")
    fa = ctx.fa(f)
    kp = f.params[1]
    what = "a vector lookup always passes the absent-key refusal, also while the values are still a single scalar"
    resolved = [n for n, c in find_calls(fa, lambda c: c.a[0].k == "attr" and c.a[0].a[1] in ("_get_indices", "contains"))]
    for r in fa.cfg.returns():
        tm = fa.term(r.ast.value, r)
        facts = facts_at(fa, r)
        scalar_key = any(t.k == "call" and call_name(t) == "isinstance" and truth and t.a[1] and t.a[1][0].k == "param" and t.a[1][0].a[0] == kp for t, truth, _ in facts)
        if scalar_key:
            continue
        # vector alternatives of the returned value
        vec = []
        for a in ([tm.a[2]] if tm.k == "ifexp" and _is_key_number_test(tm.a[0], kp) else ([tm.a[1]] if tm.k == "ifexp" and _is_key_number_test(tm.a[0], kp, neg=True) else [tm])):
            vec.append(a)
        for a in vec:
            inline = any(x.k == "call" and x.a[0].k == "attr" and x.a[0].a[1] in ("_get_indices", "contains") for x in walk(a))
            dom = any(fa.cfg.dominates(n, r) for n in resolved if n is not r)
            ctx.decide("C11.b", f, what, True if (inline or dom) else False,
                       "`%s` is returned for any keys, present or not: HashTable([1, 2, 3], 0)[[5]] answers [0] instead of refusing" % (a,),
                       node=r.ast, key="lookup-refusal:" + ("inline" if inline else "lazy"), engine="E1")


def _is_key_number_test(t, kp, neg=False):
    if neg:
        return t.k == "un" and t.a[0] == "not" and _is_key_number_test(t.a[1], kp)
    return t.k == "call" and call_name(t) == "isinstance" and t.a[1] and t.a[1][0].k == "param" and t.a[1][0].a[0] == kp


def co_permutation(ctx, tk):
    f = ctx.func(HT + "__init__")
    fa = ctx.fa(f)
    calls = find_calls(fa, lambda c: c.a[0].k == "attr" and c.a[0].a[1] == "_build_ragged_array" and len(c.a[1]) == 2)
    what = "keys, hashes and values are reordered by the same argsort of the hashes before they are bucketed"
    if not calls:
        ctx.unknown("C11.c", f, what, "bucket construction not recognised", engine="E6")
        return
    perm = None
    for n, c in calls:
        k, h = c.a[1]
        if k.k == "sub" and h.k == "sub":
            ok = k.a[1] == h.a[1]
            perm = k.a[1]
            srt = any(np_call(a, {"argsort"}) and a.a[1] and a.a[1][0] == h.a[0] for a in alts(perm))
            ctx.decide("C11.c", f, what, True if (ok and srt) else (False if not ok else None),
                       "keys are permuted by %s, hashes by %s" % (k.a[1], h.a[1]), node=c.node, key="keys-hashes", engine="E6")
            kroot = any(x.k == "param" and x.a[0] == f.params[1] for x in walk(k.a[0]))
            hroot = h.a[0].k == "call" and h.a[0].a[0].k == "attr" and h.a[0].a[0].a[1] == "_get_hash"
            ctx.decide("C11.c", f, "the bucketed arrays are (keys, hash(keys)) in that order", True if (kroot and hroot) else (False if (hroot is False and kroot is False) else None),
                       node=c.node, key="arg-order", engine="E4")
        else:
            ctx.unknown("C11.c", f, what, node=c.node, engine="E6")
    for n in fa.cfg.stmts():
        if n.kind == "stmt" and isinstance(n.ast, ast.Assign) and isinstance(n.ast.targets[0], ast.Attribute) and n.ast.targets[0].attr == "_values":
            tm = fa.term(n.ast.value, n)
            if tm.k == "call" and len(tm.a[1]) >= 2 and tm.a[1][0].k == "sub" and perm is not None:
                ctx.decide("C11.c", f, "values are permuted like the keys", tm.a[1][0].a[1] == perm, "values are indexed by %s, keys by %s" % (tm.a[1][0].a[1], perm),
                           node=n.ast, key="values", engine="E6")
                g = tm.a[1][1]
                okg = (attr_chain(g) or ())[-2:] == ("_keys", "_shape")
                ctx.decide("C11.c", f, "values are bucketed with the keys' geometry object", True if okg else None, node=n.ast, key="values-geometry", engine="E6")


def single_hash(ctx, tk):
    what = "every bucket row used to address the keys is the table's hash of the queried keys"
    for q in (HT + "_get_indices", HT + "contains", "hashtable.HashSet.contains", "hashtable.Counter.count"):
        f = ctx.func(q)
        fa = ctx.fa(f)
        selfn = f.params[0]
        seen = 0
        for n in fa.cfg.stmts():
            if not (n.kind == "stmt" and isinstance(n.ast, ast.Assign)):
                continue
            tm = fa.term(n.ast.value, n)
            idx = None
            if tm.k == "sub" and attr_chain(tm.a[0]) == (selfn, "_keys"):
                idx = tm.a[1]
                if idx.k == "call" and idx.a[0].k == "attr" and idx.a[0].a[1] in ("view",) or (idx.k == "sub" or idx.k == "upd"):
                    continue
            elif tm.k == "call" and tm.a[0].k == "attr" and tm.a[0].a[1] == "view" and (attr_chain(tm.a[0].a[0]) or ())[-2:] == ("_keys", "_shape") and tm.a[1]:
                idx = tm.a[1][0]
            if idx is None:
                continue
            seen += 1
            ok = all(a.k == "call" and a.a[0].k == "attr" and a.a[0].a[1] == "_get_hash" and attr_chain(a.a[0].a[0]) == (selfn,) for a in alts(idx))
            ctx.decide("C11.d", f, what, True if ok else (False if all(a.k in ("param", "bin") for a in alts(idx)) else None),
                       "buckets are addressed by %s" % (idx,), node=n.ast, engine="E4")
        if not seen:
            ctx.unknown("C11.d", f, what, "bucket addressing not recognised", engine="E4")
    g = ctx.func(HT + "_get_hash")
    ga = ctx.fa(g)
    for r in ga.cfg.returns():
        tm = ga.term(r.ast.value, r)
        def _is_mod(x):
            if x.k == "call" and x.a[0].k == "global" and x.a[0].a[0] == "int" and x.a[1]:
                x = x.a[1][0]
            return attr_chain(x) == (g.params[0], "_mod")
        ok = (tm.k == "bin" and tm.a[0] == "%" and tm.a[1].k == "param" and _is_mod(tm.a[2])) or \
            (np_call(tm, {"mod", "remainder"}) and len(tm.a[1]) == 2 and _is_mod(tm.a[1][1]))
        bad = np_call(tm, {"fmod"}) is not None
        if tm.k == "param" and tm.a[0] in g.params[1:]:
            # "already reduced" shortcut: x % m == x needs 0 <= x as well as x < m
            lower = upper = False
            for t, truth, _ in facts_at(ga, r):
                for x in walk(t):
                    nm = (attr_chain(x.a[0]) or ("",))[-1] if x.k == "call" else None
                    if nm in ("min", "amin"):
                        lower = True
                    if nm in ("max", "amax"):
                        upper = True
                    if x.k == "attr" and x.a[1] == "kind":
                        lower = True      # an unsigned-dtype test bounds the keys below
            ctx.decide("C11.d", g, "a key is its own hash only when 0 <= key < modulus", True if (lower and upper) else (False if upper else None),
                       "the keys are returned unchanged when their maximum is below the modulus; negative keys (x % m is in [0, m)) then keep negative bucket numbers",
                       node=r.ast, key="identity-shortcut", engine="KB")
            continue
        ctx.decide("C11.d", g, "the hash is key modulo the table's modulus, i.e. a bucket number in [0, modulus) also for negative keys", True if ok else (False if bad else None),
                   "`%s`: np.fmod takes the sign of the key, so negative keys get negative bucket numbers that disagree with the sorted bucket layout" % (tm,), node=r.ast, engine="KB")
    # KB (NEP 50): a numpy scalar is a strong operand.  `int64_queries % np.uint64(m)` has no common integer type and comes
    # back float64 - unusable as a bucket index - while a Python int modulus is weak and keeps the queries' own integer type
    for r in ga.cfg.returns():
        tm = ga.term(r.ast.value, r)
        if not (tm.k == "bin" and tm.a[0] == "%"):
            continue
        m_op = tm.a[2]
        weak = m_op.k == "call" and m_op.a[0].k == "global" and m_op.a[0].a[0] == "int"
        strong_src = None
        if not weak:
            gm = ctx.program.funcs.get(HT + "_get_mod")
            if gm is not None:
                gma = ctx.fa(gm)
                for rr in gma.cfg.returns():
                    t2 = gma.term(rr.ast.value, rr)
                    if t2.k == "call" and ((attr_chain(t2.a[0]) or ("",))[-1] in ("dtype", "uint64", "int64", "uint32", "int32", "intp", "uint8", "int8", "uint16", "int16") or
                                           (t2.a[0].k == "attr" and t2.a[0].a[1] == "type")):
                        strong_src = t2
        ctx.decide("C11.d", g, "the modulus is a weak (Python int) operand of the hash, so queries of any integer dtype hash to integers", True if weak else (False if strong_src is not None else None),
                   "the default modulus is the numpy scalar `%s`: an int64 query (a Python list, np.array([3, 10])) on a uint64-keyed table hashes through float64 and the bucket lookup "
                   "raises IndexError" % (strong_src,), node=r.ast, key="weak-modulus", engine="KB")
    # keys handed over as buckets: the modulus is their number of rows
    f0 = ctx.func(HT + "__init__")
    fa0 = ctx.fa(f0)
    mod_stores = [n for n in fa0.cfg.stmts() if n.kind == "stmt" and isinstance(n.ast, ast.Assign) and isinstance(n.ast.targets[0], ast.Attribute) and n.ast.targets[0].attr == "_mod"]

    def _inst(n, want):
        return any(t.k == "call" and call_name(t) == "isinstance" and truth is want for t, truth, _ in facts_at(fa0, n))
    if mod_stores and not any(_inst(n, True) for n in mod_stores):
        # no store is specific to keys given as buckets: the store(s) that are not confined to the other case decide
        for n in [m_ for m_ in mod_stores if not _inst(m_, False)]:
            tm = fa0.term(n.ast.value, n)
            bad = any(x.k == "call" and x.a[0].k == "attr" and x.a[0].a[1] == "_get_mod" for x in walk(tm))
            ctx.decide("C11.d", f0, "for keys handed over as buckets the modulus is the number of bucket rows", False if bad else None,
                       "modulus is %s whatever the kind of keys: a table built over an existing bucket array (zeros_like, ones_like, table + table) hashes into "
                       "2n-1 buckets while its keys are stored in len(keys) buckets" % (tm,), node=n.ast, key="mod-of-buckets", engine="E5")
    for n in mod_stores:
        if True:
            tm = fa0.term(n.ast.value, n)
            if _inst(n, True):
                ok = (tm.k == "call" and call_name(tm) == "len" and tm.a[1] and tm.a[1][0].k == "param" and tm.a[1][0].a[0] == f0.params[1]) or (attr_chain(tm) or ("",))[-1] == "n_rows"
                bad = any(x.k == "call" and x.a[0].k == "attr" and x.a[0].a[1] == "_get_mod" for x in walk(tm)) or any(x.k == "attr" and x.a[1] == "size" for x in walk(tm))
                ctx.decide("C11.d", f0, "for keys handed over as buckets the modulus is the number of bucket rows", True if ok else (False if bad else None),
                           "modulus is %s: lookups hash into a different number of buckets than the keys are stored in" % (tm,), node=n.ast, key="mod-of-buckets", engine="E5")
    for n in fa0.cfg.stmts():
        if n.kind == "stmt" and isinstance(n.ast, ast.Assign) and isinstance(n.ast.targets[0], ast.Attribute) and n.ast.targets[0].attr == "_value_dtype":
            tm = fa0.term(n.ast.value, n)
            srcs = {(attr_chain(x.a[0]) or ("?",))[-1] for x in walk(tm) if x.k == "attr" and x.a[1] == "dtype"}
            ok = "_keys" not in srcs and "keys" not in srcs
            ctx.decide("C11.h", f0, "the value dtype is taken from the values (or the value_dtype argument), never from the keys", ok,
                       "value dtype derives from %s: counts / values are cast to the key dtype" % sorted(srcs), node=n.ast, key="value-dtype-source", engine="E5")
    b = ctx.func(HT + "_build_ragged_array")
    ba = ctx.fa(b)
    for n in ba.cfg.stmts():
        if n.kind == "stmt" and isinstance(n.ast, ast.Assign):
            tm = ba.term(n.ast.value, n)
            if np_call(tm, {"zeros"}) and tm.a[1]:
                e = tm.a[1][0]
                ok = any(attr_chain(x) == (b.params[0], "_mod") for x in walk(e))
                ctx.decide("C11.d", b, "there is exactly one bucket per hash value (modulus rows)", True if ok else None, node=n.ast, key="rows", engine="E5")
    for n in ba.cfg.stmts():
        if n.kind == "stmt" and isinstance(n.ast, ast.Assign) and isinstance(n.ast.targets[0], ast.Subscript):
            idx = ba.term(n.ast.targets[0].slice, n)
            val = ba.term(n.ast.value, n)
            ok = idx.k == "item" and val.k == "item" and idx.a[0] == val.a[0] and idx.a[1] == 0 and val.a[1] == 1 and np_call(idx.a[0], {"unique"})
            ctx.decide("C11.d", b, "bucket lengths are the histogram of the hashes (unique hash -> its count)", True if ok else None, node=n.ast, key="hist", engine="E6")


def setitem(ctx, tk):
    f = ctx.func(HT + "__setitem__")
    fa = ctx.fa(f)
    stores = [n for n in fa.cfg.stmts() if n.kind == "stmt" and isinstance(n.ast, ast.Assign) and isinstance(n.ast.targets[0], ast.Subscript)]
    fills = [n for n, c in find_calls(fa, lambda c: c.a[0].k == "attr" and c.a[0].a[1] == "_fill_values")]
    what = "a scalar-valued (lazy) table is materialised before any item store"
    if not stores:
        ctx.violated("C11.e", f, "item assignment stores the value", "no store in __setitem__", engine="E1")
    for s in stores:
        ok = bool(fills) and fa.cfg.must_pass(fills, s)
        ctx.decide("C11.e", f, what, True if ok else False, "the store can run while _values is still a scalar", node=s.ast, engine="E1")
        tgt = fa.term(s.ast.targets[0].value, s)
        okt = attr_chain(tgt) == (f.params[0], "_values")
        ctx.decide("C11.e", f, "the store goes into the table's own values (not a temporary)", True if okt else (False if tgt.k in ("call", "sub") else None),
                   "store target is %s" % (tgt,), node=s.ast, key="target", engine="E3")
        idx = fa.term(s.ast.targets[0].slice, s)
        oki = idx.k == "call" and idx.a[0].k == "attr" and idx.a[0].a[1] == "_get_indices" and idx.a[1] and idx.a[1][0].k == "param" and idx.a[1][0].a[0] == f.params[1]
        ctx.decide("C11.e", f, "the written positions are those the lookup resolves for the same keys", True if oki else None, node=s.ast, key="index", engine="E4")
    g = ctx.func(HT + "__getitem__")
    ga = ctx.fa(g)
    for r in ga.cfg.returns():
        tm = ga.term(r.ast.value, r)
        if tm.k == "sub" and attr_chain(tm.a[0]) == (g.params[0], "_values"):
            idx = tm.a[1]
            oki = idx.k == "call" and idx.a[0].k == "attr" and idx.a[0].a[1] == "_get_indices"
            ctx.decide("C11.e", g, "lookups read the positions resolved by _get_indices", True if oki else None, node=r.ast, key="read-index", engine="E4")


def _norm_query(fa, f):
    """how a routine preprocesses the query keys: term of the first rebinding of the keys parameter"""
    kp = f.params[1]
    for n in fa.cfg.stmts():
        if n.kind == "stmt" and isinstance(n.ast, ast.Assign) and isinstance(n.ast.targets[0], ast.Name) and n.ast.targets[0].id == kp:
            facts = facts_at(fa, n)
            if any(t.k == "call" and call_name(t) == "isinstance" and truth for t, truth, _ in facts):
                continue
            return fa.term(n.ast.value, n), n
    return None, None


def siblings(ctx, tk):
    quals = (HT + "_get_indices", HT + "contains", "hashtable.HashSet.contains")
    norms = {}
    for q in quals:
        f = ctx.func(q)
        fa = ctx.fa(f)
        t, n = _norm_query(fa, f)
        norms[q] = (t, n, f)
        what = "query keys are compared as given (no narrowing cast to the key dtype)"
        if t is None:
            ctx.unknown("C11.f", f, what, engine="E6")
            continue
        nm = np_call(t, {"asanyarray", "asarray", "array"})
        kw = dict(t.a[2]) if t.k == "call" else {}
        has_dt = "dtype" in kw or (t.k == "call" and len(t.a[1]) > 1)
        ctx.decide("C11.f", f, what, True if (nm and not has_dt) else (False if has_dt else None),
                   "`%s` casts the queries: a query outside the key dtype's range wraps onto a stored key and is reported present" % (t,),
                   node=n.ast, key="query-cast", engine="E6")
        # candidates are compared with the queries as a column: possible_keys == keys[:, None]
        found = False
        for m in fa.cfg.stmts():
            for e in ([m.ast.value] if m.kind == "stmt" and isinstance(m.ast, (ast.Assign, ast.Return)) and m.ast.value is not None else []):
                tm = fa.term(e, m)
                for x in walk(tm):
                    if x.k == "cmp" and x.a[0] == "==" and any(o.k == "sub" and o.a[1].k == "tuple" for o in (x.a[1], x.a[2])):
                        q = x.a[2] if (x.a[2].k == "sub" and x.a[2].a[1].k == "tuple") else x.a[1]
                        tup = q.a[1].a[0]
                        col = len(tup) == 2 and tup[0].k == "slice" and is_const(tup[1], None)
                        row = len(tup) == 2 and is_const(tup[0], None) and tup[1].k == "slice"
                        found = True
                        ctx.decide("C11.f", f, "bucket candidates (row i) are compared with query i (queries as a column)", True if col else (False if row else None),
                                   "queries are broadcast as %s" % (q.a[1],), node=e, key="column", engine="E6")
        if not found:
            ctx.unknown("C11.f", f, "bucket candidates (row i) are compared with query i (queries as a column)", engine="E6")
    ts = [repr(v[0]) for v in norms.values() if v[0] is not None]
    if len(ts) == len(quals):
        ctx.decide("C11.f", norms[quals[0]][2], "the three lookup/membership routines preprocess the queries identically", len(set(ts)) == 1,
                   "preprocessing differs: %s" % sorted(set(ts)), key="siblings", engine="E6")


def like_and_add(ctx, tk):
    for name, scalar in (("zeros_like", 0), ("ones_like", 1)):
        f = ctx.func("hashtable." + name)
        fa = ctx.fa(f)
        p = f.params[0]
        for r in fa.cfg.returns():
            tm = fa.term(r.ast.value, r)
            if tm.k == "call" and len(tm.a[1]) >= 2:
                k, v = tm.a[1][0], tm.a[1][1]
                ok = attr_chain(k) == (p, "_keys") and is_const(v, scalar)
                bad = attr_chain(k) == (p, "_values") or (v.k == "const" and v.a[0] != scalar)
                ctx.decide("C11.g", f, "%s builds a table over the same keys object with the scalar %d" % (name, scalar), True if ok else (False if bad else None),
                           "constructed with (%s, %s)" % (k, v), node=r.ast, engine="E6")
    f = ctx.func(HT + "__add__")
    fa = ctx.fa(f)
    rets = [r for r in fa.cfg.returns()]

    def m(t):
        if t.k == "call" and t.a[0].k == "attr" and t.a[0].a[1] == "equals" and (attr_chain(t.a[0].a[0]) or ("",))[-1] == "_keys":
            return ("same_keys", True)
        return None

    def safe(t):
        c = attr_chain(t)
        return ("safe_mode", True) if c and c[-1] == "_safe_mode" else None
    def not_positional(t):
        """conditions that cannot establish that the two key arrays hold the same key at every *position*:
        geometry-only comparisons (._shape, lengths, sizes) and comparisons of sorted / de-duplicated / counted keys"""
        from ..guards import aggregate_only
        if aggregate_only(t):
            return True
        if t.k == "bool":
            return all(not_positional(x) for x in t.a[1])
        if t.k == "un" and t.a[0] == "not":
            return not_positional(t.a[1])
        if t.k == "call" and (attr_chain(t.a[0]) or ("",))[-1] in ("all", "any", "array_equal") and t.a[1]:
            return all(not_positional(x) for x in t.a[1]) if (attr_chain(t.a[0]) or ("",))[-1] != "array_equal" else all(_order_free(x) or _geometry(x) for x in t.a[1])
        if t.k == "cmp":
            return all(_order_free(x) or _geometry(x) for x in (t.a[1], t.a[2]))
        return False

    def _order_free(x):
        return x.k == "call" and ((attr_chain(x.a[0]) or ("",))[-1] in ("sort", "unique", "bincount", "sorted", "set", "frozenset", "sum", "min", "max")
                                  or (x.a[0].k == "global" and x.a[0].a[0] in ("sorted", "set", "frozenset", "len")))

    def _geometry(x):
        c = attr_chain(x)
        return bool(c) and c[-1] in ("_shape", "lengths", "starts", "ends", "size", "n_rows", "shape")
    check_guard(ctx, "C11.g", f, rets, Formulas([m, safe], irrelevant=not_positional), lambda A: A["same_keys"] or not A["safe_mode"], ["same_keys", "safe_mode"],
                "tables are added only after refusing when their key sets differ", fa=fa,
                describe="values are added position by position: equal bucket geometry and equal sorted keys do not put the same key at the same position")
    for r in rets:
        tm = fa.term(r.ast.value, r)
        if tm.k == "call" and len(tm.a[1]) >= 2:
            k, v = tm.a[1]
            ok = (attr_chain(k) or ("",))[-1] == "_keys" and v.k == "bin" and v.a[0] == "+" and all((attr_chain(x) or ("",))[-1] == "_values" for x in (v.a[1], v.a[2]))
            ctx.decide("C11.g", f, "the sum table has the keys and the element-wise sum of the values", True if ok else None, node=r.ast, key="sum", engine="E6")
    g = ctx.func(HT + "fill")
    ga = ctx.fa(g)
    writes = [n for n in ga.cfg.stmts() if (n.kind == "stmt" and isinstance(n.ast, ast.Assign) and isinstance(n.ast.targets[0], ast.Attribute) and n.ast.targets[0].attr == "_values")
              or (n.kind == "stmt" and isinstance(n.ast, ast.Expr) and isinstance(n.ast.value, ast.Call) and isinstance(n.ast.value.func, ast.Attribute) and n.ast.value.func.attr == "fill")]
    ok = bool(writes) and ga.cfg.must_pass(writes, ga.cfg.exit)
    ctx.decide("C11.i", g, "fill writes the value in both the scalar and the array state", True if ok else False, "a branch of fill leaves the values untouched", key="fill", engine="E1")
    for q in (HT + "items", HT + "to_dict"):
        h = ctx.func(q)
        ha = ctx.fa(h)
        for r in ha.cfg.returns():
            tm = ha.term(r.ast.value, r)
            z = [x for x in walk(tm) if x.k == "call" and call_name(x) == "zip" and len(x.a[1]) == 2]
            if z:
                a, b = z[0].a[1]
                names = []
                for x in (a, b):
                    nm = (attr_chain(x.a[0].a[0]) or ("",))[-1] if x.k == "call" and x.a[0].k == "attr" else None
                    if x.k == "call" and nm not in ("_keys", "_values"):
                        # a helper of the table: which state does it read?
                        for g2 in tk.R.resolve_call(x, ha) or []:
                            src2 = {y.attr for y in ast.walk(g2.node) if isinstance(y, ast.Attribute) and y.attr in ("_keys", "_values") and isinstance(y.ctx, ast.Load)
                                    and not (isinstance(y.value, ast.Name) and False)}
                            rets = [ast.unparse(r.value) for r in ast.walk(g2.node) if isinstance(r, ast.Return) and r.value is not None]
                            if rets and all("_values" in r_ for r_ in rets):
                                nm = "_values"
                            elif rets and all("_keys" in r_ and "_values" not in r_ for r_ in rets):
                                nm = "_keys"
                    names.append(nm)
                ctx.decide("C11.h", h, "items are (key, value) pairs in that order", True if names == ["_keys", "_values"] else (False if names == ["_values", "_keys"] else None),
                           "pairs are %s" % names, node=r.ast, engine="E5")


def fill_values(ctx, tk):
    f = ctx.func(HT + "_fill_values")
    fa = ctx.fa(f)
    selfn = f.params[0]
    for n in fa.cfg.stmts():
        if n.kind == "stmt" and isinstance(n.ast, ast.Assign) and isinstance(n.ast.targets[0], ast.Attribute) and n.ast.targets[0].attr == "_values":
            tm = fa.term(n.ast.value, n)
            calls = [x for x in walk(tm) if np_call(x, {"ones_like", "full_like", "zeros_like", "ones", "full"})]
            what = "materialised values get the table's value dtype (not the keys' dtype)"
            if not calls:
                ctx.unknown("C11.h", f, what, node=n.ast, engine="E6")
                continue
            c = calls[0]
            dt = dict(c.a[2]).get("dtype")
            like_keys = c.a[1] and attr_chain(c.a[1][0]) == (selfn, "_keys")
            if dt is None and like_keys:
                ctx.violated("C11.h", f, what, "`%s` inherits the key dtype: a float-valued lazy table truncates the first assigned value" % (c,), node=n.ast, engine="E6")
            else:
                ok = dt is not None and (attr_chain(dt) or ("",))[-1] == "_value_dtype"
                ctx.decide("C11.h", f, what, True if ok else None, node=n.ast, engine="E6")
            okk = like_keys
            ctx.decide("C11.h", f, "materialised values have the keys' bucket geometry", True if okk else None, node=n.ast, key="geometry", engine="E5")
            guarded = any(t.k == "call" and call_name(t) == "isinstance" and truth for t, truth, _ in facts_at(fa, n))
            ctx.decide("C11.h", f, "materialisation happens only while the values are still a scalar", True if guarded else False,
                       "existing per-key values would be overwritten", node=n.ast, key="guard", engine="E1")


def scalar_expansion(ctx, tk):
    """E5 extents: while all keys share one scalar value, that scalar is expanded on demand; the expansion has one
    entry per *key* (cells of the bucket array) or per queried key - never one per bucket (rows)"""
    what = "the shared scalar value is expanded to one entry per key (or per queried key), not one per bucket"
    for q, f in ctx.program.funcs.items():
        if not q.startswith("hashtable.") or f.cls is None or not f.params:
            continue
        fa = ctx.fa(f)
        selfn = f.params[0]
        for n, c in find_calls(fa, lambda c: np_call(c, {"full", "ones", "zeros", "empty"}) and c.a[1]):
            if not any(attr_chain(x) == (selfn, "_values") for a in list(c.a[1][1:]) + [v for _k, v in c.a[2]] for x in walk(a)) and np_call(c, {"full"}):
                continue
            if not np_call(c, {"full"}):
                continue
            cnt = c.a[1][0]
            verdicts = []
            for a in alts(cnt):
                ch = attr_chain(a)
                if ch and ch[:2] == (selfn, "_keys") and ch[-1] == "size":
                    verdicts.append(True)
                elif a.k == "call" and call_name(a) == "len" and a.a[1] and attr_chain(a.a[1][0]) == (selfn, "_keys"):
                    verdicts.append(False)
                elif ch and ch[:2] == (selfn, "_keys") and ch[-1] in ("n_rows",):
                    verdicts.append(False)
                elif a.k == "sub" and attr_chain(a.a[0]) and attr_chain(a.a[0])[:2] == (selfn, "_keys") and attr_chain(a.a[0])[-1] == "shape":
                    verdicts.append(False)
                elif a.k == "call" and call_name(a) == "len" and a.a[1] and any(x.k == "param" for x in alts(a.a[1][0])):
                    verdicts.append(True)
                elif ch and ch[-1] == "size" and any(x.k == "param" and x.a[0] != selfn for x in walk(a)):
                    verdicts.append(True)
                else:
                    verdicts.append(None)
            ok = False if False in verdicts else (True if all(v is True for v in verdicts) else None)
            ctx.decide("C11.h", f, what, ok, "`%s`: len() of the bucket array is the number of buckets (the modulus); with fewer buckets than keys the "
                       "expansion is shorter than the key list and zip() drops keys silently" % (c,), node=c.node, key="expansion", engine="E5")


def values_state(ctx, tk):
    """typestate of HashTable._values: a single scalar ('all keys share it') until materialised.  Array operations on
    it (ravel / subscript / size / fill) are only reached when it is known not to be a scalar"""
    for q, f in ctx.program.funcs.items():
        if not q.startswith("hashtable.") or f.cls is None or not f.params:
            continue
        fa = ctx.fa(f)
        selfn = f.params[0]
        fills = [n for n, c in find_calls(fa, lambda c: c.a[0].k == "attr" and c.a[0].a[1] == "_fill_values")]
        for n in fa.cfg.stmts():
            uses = []
            for e in _exprs(n):
                for sub in ast.walk(e):
                    if isinstance(sub, ast.Attribute) and sub.attr in ("ravel", "size", "fill", "dtype", "_shape") and isinstance(sub.value, ast.Attribute) and sub.value.attr == "_values" \
                            and isinstance(sub.value.value, ast.Name) and sub.value.value.id == selfn:
                        uses.append(sub)
                    if isinstance(sub, ast.Subscript) and isinstance(sub.value, ast.Attribute) and sub.value.attr == "_values" and isinstance(sub.value.value, ast.Name) \
                            and sub.value.value.id == selfn:
                        uses.append(sub)
            if n.kind == "stmt" and isinstance(n.ast, (ast.Assign, ast.AugAssign)):
                tg = n.ast.targets[0] if isinstance(n.ast, ast.Assign) else n.ast.target
                if isinstance(tg, ast.Subscript) and isinstance(tg.value, ast.Attribute) and tg.value.attr == "_values":
                    uses.append(tg)
            for u in uses:
                facts = facts_at(fa, n)
                known_array = any(t.k == "call" and call_name(t) == "isinstance" and not truth and t.a[1] and (attr_chain(t.a[1][0]) or ("",))[-1] == "_values"
                                  and any(y.k == "global" and y.a[0] == "Number" for y in walk(t.a[1][1])) for t, truth, _ in facts) or \
                    any(t.k == "call" and call_name(t) == "isinstance" and truth and t.a[1] and (attr_chain(t.a[1][0]) or ("",))[-1] == "_values"
                        and any(y.k == "global" and y.a[0] in ("RaggedArray", "ndarray") for y in walk(t.a[1][1])) for t, truth, _ in facts)
                # inside the conditional expression  X if isinstance(self._values, Number) else self._values.dtype
                tern = _ternary_guard(n, u)
                filled = bool(fills) and fa.cfg.must_pass(fills, n)
                ctx.decide("C11.e", f, "array operations on the values are reached only when the values are not (any longer) a single scalar",
                           True if (known_array or filled or tern) else False,
                           "`%s` runs while the table may still hold one scalar for all keys (HashTable(keys, 0), np.zeros_like(table), a sum of such tables): AttributeError"
                           % ast.unparse(u), node=u, engine="E1")


def _ternary_guard(n, u):
    for sub in ast.walk(n.ast) if n.ast is not None else []:
        if isinstance(sub, ast.IfExp) and any(x is u for x in ast.walk(sub.orelse)):
            t = sub.test
            if isinstance(t, ast.Call) and isinstance(t.func, ast.Name) and t.func.id == "isinstance" and "Number" in ast.unparse(t.args[1]) and "_values" in ast.unparse(t.args[0]):
                return True
    return False


def _exprs(n):
    from ..resolve import _exprs_of_node
    return _exprs_of_node(n)


def equality_compares_keys(ctx, tk):
    """two tables are equal only if they hold the same keys: every answer of __eq__ depends on a comparison of the key
    arrays (a return that looks at the values alone calls tables over different key sets equal)"""
    f = ctx.func(HT + "__eq__")
    fa = ctx.fa(f)
    what = "every answer of == depends on a comparison of the two key arrays"
    for r in fa.cfg.returns():
        if r.ast.value is None:
            continue
        tm = fa.term(r.ast.value, r)
        keys_cmp = any((x.k == "cmp" and all(any((attr_chain(y) or ("",))[-1] == "_keys" for y in walk(o)) for o in (x.a[1], x.a[2]))) or
                       (x.k == "call" and x.a[0].k == "attr" and x.a[0].a[1] in ("equals", "array_equal") and any((attr_chain(y) or ("",))[-1] == "_keys" for y in walk(x)))
                       for x in walk(tm))
        const_false = all(is_const(a, False) or (a.k == "global" and a.a[0] == "NotImplemented") for a in alts(tm))
        facts_keys = any(any((attr_chain(y) or ("",))[-1] == "_keys" for y in walk(t)) for t, _tr, _ in facts_at(fa, r))
        ctx.decide("C11.g", f, what, True if (keys_cmp or const_false or facts_keys) else False,
                   "`%s` answers without comparing the keys: two tables over different key sets with the same (scalar) value compare equal" % ast.unparse(r.ast),
                   node=r.ast, key="eq-keys:%d" % getattr(r, "lineno", 0), engine="E4")


def keys_values_apart(ctx, tk):
    """keys and values have their own dtypes (uint64 keys, float values ...): one numpy array built from both
    (column_stack / stack / array / concatenate) promotes them to a common type, and keys above 2**53 are rounded"""
    what = "keys and values are never combined into one array (each keeps its own dtype)"
    n = 0
    for q, f in sorted(ctx.program.funcs.items()):
        if not q.startswith("hashtable."):
            continue
        fa = ctx.fa(f)
        for nd, c in find_calls(fa, lambda c: np_call(c, {"column_stack", "stack", "vstack", "hstack", "array", "asarray", "concatenate", "dstack"}) and c.a[1]):
            arg = c.a[1][0]
            has_k = any((attr_chain(x) or ("",))[-1] == "_keys" for x in walk(arg))
            has_v = any((attr_chain(x) or ("",))[-1] in ("_values",) or (x.k == "call" and x.a[0].k == "attr" and x.a[0].a[1] == "_flat_values") for x in walk(arg))
            if has_k and has_v:
                n += 1
                ctx.violated("C11.h", f, what, "`%s` builds one array from keys and values: numpy promotes both to one dtype (uint64 keys with signed or float values go "
                             "through float64), so large keys are rounded or merged" % (c,), node=c.node, key="coercion", engine="KB")
    if not n:
        ctx.holds("C11.h", HT + "to_dict", what, key="coercion", engine="KB")
