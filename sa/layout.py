"""E5 (part) - prefix-sum sequence algebra, (start,length) code-layout agreement, flat<->(row,col) maps.

Sequence algebra: a 1-D array expression over a base vector L (row lengths, symbolic extent n) is a
concatenation of segments
    ("Z", k)        k zeros
    ("E", lo, hi)   inclusive prefix sums  c[lo : n+hi]      (End)
    ("L", lo, hi)   L[lo : n+hi]
The exclusive prefix sums ("Start") of extent n are  Z(1) ++ E(0,-1).  Slices with constant bounds, pad,
insert-at-0, concatenate with [0], cumsum, diff and E-L / X+L are evaluated exactly; anything else is None
(unknown, never reported).
"""
import ast
from .terms import T, alts, attr_chain, walk, is_const, call_name, np_call
from .guards import find_calls

START = (("Z", 1), ("E", 0, -1))
LEN = (("L", 0, 0),)
END = (("E", 0, 0),)
OFFSETS = (("Z", 1), ("E", 0, 0))


def _norm(segs):
    out = []
    for s in segs:
        if s[0] == "Z":
            if s[1] == 0:
                continue
            if out and out[-1][0] == "Z":
                out[-1] = ("Z", out[-1][1] + s[1])
                continue
        out.append(s)
    return tuple(out)


def _drop_left(segs, k):
    segs = list(segs)
    while k > 0 and segs:
        s = segs[0]
        if s[0] == "Z":
            if s[1] > k:
                segs[0] = ("Z", s[1] - k)
                k = 0
            else:
                k -= s[1]
                segs.pop(0)
        else:
            segs[0] = (s[0], s[1] + k, s[2])
            k = 0
    return None if k > 0 else segs


def _drop_right(segs, k):
    segs = list(segs)
    while k > 0 and segs:
        s = segs[-1]
        if s[0] == "Z":
            if s[1] > k:
                segs[-1] = ("Z", s[1] - k)
                k = 0
            else:
                k -= s[1]
                segs.pop()
        else:
            segs[-1] = (s[0], s[1], s[2] - k)
            k = 0
    return None if k > 0 else segs


class SeqAlg:
    def __init__(self, is_base, fa=None):
        self.is_base = is_base          # term -> True when it denotes the base vector L
        self.fa = fa

    def ev(self, t, depth=0):
        if depth > 30:
            return None
        rec = lambda x: self.ev(x, depth + 1)
        if self.is_base(t):
            return LEN
        k = t.k
        if k == "phi":
            vals = [rec(x) for x in t.a[0]]
            if vals and all(v is not None and v == vals[0] for v in vals):
                return vals[0]
            return None
        if k == "call":
            name = np_call(t, {"asanyarray", "asarray", "array", "cumsum", "pad", "insert", "concatenate", "diff",
                               "append", "hstack", "atleast_1d", "ascontiguousarray"})
            args, kw = t.a[1], dict(t.a[2])
            if name in ("asanyarray", "asarray", "array", "atleast_1d", "ascontiguousarray") and args:
                return rec(args[0])
            if name == "cumsum" and args:
                if "out" in kw or "axis" in kw and not is_const(kw["axis"], -1) and not is_const(kw["axis"], 0):
                    return None
                v = rec(args[0])
                return self.cumsum(v)
            if name == "diff" and args:
                v = rec(args[0])
                n = kw.get("n", args[1] if len(args) > 1 else None)
                if n is not None and not is_const(n, 1):
                    return None
                return self.diff(v)
            if name == "pad" and args:
                v = rec(args[0])
                pw = kw.get("pad_width", args[1] if len(args) > 1 else None)
                mode = kw.get("mode", args[2] if len(args) > 2 else None)
                cv = kw.get("constant_values")
                if v is None or pw is None or (mode is not None and not is_const(mode, "constant")):
                    return None
                if cv is not None and not is_const(cv, 0):
                    return None
                if pw.k == "const" and isinstance(pw.a[0], int):
                    a = b = pw.a[0]
                elif pw.k == "tuple" and len(pw.a[0]) == 2 and all(x.k == "const" and isinstance(x.a[0], int) for x in pw.a[0]):
                    a, b = pw.a[0][0].a[0], pw.a[0][1].a[0]
                else:
                    return None
                return _norm((("Z", a),) + tuple(v) + (("Z", b),))
            if name == "insert" and len(args) >= 3:
                v = rec(args[0])
                if v is not None and is_const(args[1], 0) and is_const(args[2], 0):
                    return _norm((("Z", 1),) + tuple(v))
                return None
            if name == "append" and len(args) >= 2:
                v = rec(args[0])
                if v is not None and (is_const(args[1], 0) or (args[1].k == "list" and len(args[1].a[0]) == 1 and is_const(args[1].a[0][0], 0))):
                    return _norm(tuple(v) + (("Z", 1),))
                return None
            if name in ("concatenate", "hstack") and args and args[0].k in ("tuple", "list"):
                parts = []
                for p in args[0].a[0]:
                    if p.k in ("list", "tuple") and all(is_const(x, 0) for x in p.a[0]):
                        parts.append((("Z", len(p.a[0])),))
                    else:
                        v = rec(p)
                        if v is None:
                            return None
                        parts.append(tuple(v))
                return _norm(sum(parts, ()))
            cn = call_name(t)
            if cn and cn.split(".")[-1] == "unsafe_extend_left" and args:
                v = rec(args[0])
                return None if v is None else _norm((("Z", 1),) + tuple(v))
            if cn and cn.split(".")[-1] == "unsafe_extend_right" and args:
                v = rec(args[0])
                return None if v is None else _norm(tuple(v) + (("Z", 1),))
            if t.a[0].k == "attr" and t.a[0].a[1] in ("copy", "astype", "ravel", "flatten", "view") :
                return rec(t.a[0].a[0])
            if t.a[0].k == "attr" and t.a[0].a[1] == "cumsum" and not args:
                return self.cumsum(rec(t.a[0].a[0]))
            return None
        if k == "sub":
            v = rec(t.a[0])
            if v is None:
                return None
            idx = t.a[1]
            if idx.k == "slice":
                lo, hi, st = idx.a
                if not (is_const(st, None) or is_const(st, 1)):
                    return None
                segs = list(v)
                if not is_const(lo, None):
                    if not (lo.k == "const" and isinstance(lo.a[0], int) and lo.a[0] >= 0):
                        return None
                    segs = _drop_left(segs, lo.a[0])
                    if segs is None:
                        return None
                if not is_const(hi, None):
                    if not (hi.k == "const" and isinstance(hi.a[0], int) and hi.a[0] < 0):
                        return None
                    segs = _drop_right(segs, -hi.a[0])
                    if segs is None:
                        return None
                return _norm(segs)
            return None
        if k == "bin" and t.a[0] in ("+", "-"):
            a, b = rec(t.a[1]), rec(t.a[2])
            if a is None or b is None:
                return None
            return self.addsub(t.a[0], a, b)
        return None

    def cumsum(self, v):
        if v is None:
            return None
        segs = list(v)
        pre = []
        while segs and segs[0][0] == "Z":
            pre.append(segs.pop(0))
        if len(segs) == 1 and segs[0][0] == "L" and segs[0][1] == 0:
            return _norm(tuple(pre) + (("E", 0, segs[0][2]),))
        return None

    def diff(self, v):
        if v is None:
            return None
        if tuple(v) == OFFSETS:
            return LEN
        if len(v) == 1 and v[0][0] == "E":
            return (("L", v[0][1] + 1, v[0][2]),)
        if len(v) == 2 and v[0] == ("Z", 1) and v[1][0] == "E" and v[1][1] == 0:
            return (("L", 0, v[1][2]),)
        return None

    def addsub(self, op, a, b):
        a, b = tuple(a), tuple(b)
        if op == "-" and len(a) == 1 and len(b) == 1 and a[0][0] == "E" and b[0][0] == "L" and a[0][1:] == b[0][1:]:
            lo, hi = a[0][1], a[0][2]          # exclusive prefix sums X[lo:n+hi]
            if lo == 0:
                return _norm((("Z", 1), ("E", 0, hi - 1)))
            return (("E", lo - 1, hi - 1),)
        if op == "+":
            for x, y in ((a, b), (b, a)):
                if len(y) == 1 and y[0][0] == "L":
                    lo, hi = y[0][1], y[0][2]
                    want = _norm((("Z", 1), ("E", 0, hi - 1))) if lo == 0 else (("E", lo - 1, hi - 1),)
                    if tuple(x) == want:
                        return (("E", lo, hi),)
        return None


def show_seq(v):
    if v is None:
        return "?"
    names = {"Z": "zeros", "E": "End", "L": "Len"}
    out = []
    for s in v:
        if s[0] == "Z":
            out.append("zeros(%d)" % s[1])
        else:
            out.append("%s[%d:n%s]" % (names[s[0]], s[1], ("%d" % s[2]) if s[2] else ""))
    return " ++ ".join(out) or "empty"


# ---------------------------------------------------------------------------
# rules

def prefix_sum_rules(ctx, tk, rule):
    # (1) RaggedShape.__init__: lengths -> (Start, Len)
    f = ctx.func("raggedshape.RaggedShape.__init__")
    fa = ctx.fa(f)
    what = "row starts handed to the code constructor are the exclusive prefix sums of the row lengths (extent n)"
    sites = find_calls(fa, lambda c: c.a[0].k == "attr" and c.a[0].a[1] == "__init__" and len(c.a[1]) >= 2)
    if not sites:
        ctx.unknown(rule, f, what, "constructor call with (starts, lengths) not found")
    for n, c in sites:
        starts, lengths = c.a[1][0], c.a[1][1]
        base = _strip_cast(lengths)
        alg = SeqAlg(lambda t, base=base: _strip_cast(t) == base)
        v = alg.ev(starts)
        if v is None:
            ctx.unknown(rule, f, what, "prefix-sum form not recognised: %r" % (starts,), node=c.node, engine="E5")
        else:
            ctx.decide(rule, f, what, tuple(v) == START, "starts evaluate to %s, expected zeros(1) ++ End[0:n-1]" % show_seq(v),
                       node=c.node, engine="E5")
        # the lengths operand must be derived from the parameter (not from the starts)
        lv = alg.ev(lengths)
        ctx.decide(rule, f, "the second constructor operand is the row-length vector", True if lv == LEN else None,
                   node=c.node, key="lengths-operand", engine="E5")

    # (2) RaggedView.get_shape: starts := [0] ++ cumsum(lengths[:-1]) inside the interleaved codes
    g = ctx.func("raggedshape.RaggedView.get_shape")
    ga = ctx.fa(g)
    what2 = "get_shape rewrites the start components as the exclusive prefix sums of the length components"
    cs = find_calls(ga, lambda c: np_call(c, {"cumsum"}) and "out" in dict(c.a[2]))
    if not cs:
        ctx.unknown(rule, g, what2, "in-place cumsum over the codes not found", engine="E5")
    for n, c in cs:
        src = c.a[1][0] if c.a[1] else None
        dst = dict(c.a[2])["out"]
        s = _code_slice(src) if src is not None else None
        d = _code_slice(dst)
        if s is None or d is None or s[3] != d[3]:
            ctx.unknown(rule, g, what2, "slices of the code array not recognised", node=c.node, engine="E5")
            continue
        # s, d = (component, lo, hi, base)
        ok = (s[0] == 1 and d[0] == 0 and s[1] == 0 and d[1] == 1 and d[2] == s[2] + 1)
        detail = "source is %s[%d:n%+d], destination is %s[%d:n%+d]; need lengths[0:n-1] -> starts[1:n]" % (
            ("starts", "lengths")[s[0]], s[1], s[2], ("starts", "lengths")[d[0]], d[1], d[2])
        ctx.decide(rule, g, what2, ok, detail, node=c.node, engine="E5")
        # first start forced to 0 on the same path
        zero = [m for m in ga.cfg.stmts() if m.kind == "stmt" and isinstance(m.ast, ast.Assign)
                and isinstance(m.ast.targets[0], ast.Subscript) and isinstance(m.ast.targets[0].slice, ast.Constant)
                and m.ast.targets[0].slice.value == 0 and isinstance(m.ast.value, ast.Constant) and m.ast.value.value == 0]
        rets = [r for r in ga.cfg.returns() if ga.cfg.can_reach(n, [r])]
        okz = bool(zero) and all(ga.cfg.must_pass(zero, r, start=n) for r in rets)
        ctx.decide(rule, g, "the first start is forced to 0 before the geometry is returned", True if okz else False,
                   "no `codes[0] = 0` on the path from the prefix sum to the return", node=c.node, key="first-start", engine="E5")
        # the codes being rewritten are a private copy
        base_t = d[3]
        fr = tk.E.fresh(base_t, ga)
        ctx.decide(rule, g, "the codes rewritten in place are a private copy of the view's codes",
                   True if fr[0] == "fresh" else (False if fr[0] == "alias" else None),
                   "np.cumsum(..., out=) writes into %s" % (sorted(".".join((r[0],) + r[1]) for r in fr[1]) if fr[0] == "alias" else "?"),
                   node=c.node, key="copy", engine="E3")

    # (3) size = last start + last length ; ends = starts + lengths
    for q, want in (("raggedshape.RaggedShape.size", "size"), ("raggedshape.ViewBase.ends", "ends"),):
        h = ctx.func(q)
        ha = ctx.fa(h)
        for r in ha.cfg.returns():
            t = ha.term(r.ast.value, r)
            if t.k == "const":
                continue
            ok = None
            if t.k == "bin" and t.a[0] == "+":
                comps = []
                for o in (t.a[1], t.a[2]):
                    idx = None
                    if want == "size":
                        if o.k == "sub" and is_const(o.a[1], -1):
                            o2 = o.a[0]
                        else:
                            o2 = None
                    else:
                        o2 = o
                    c = attr_chain(o2) if o2 is not None else None
                    comps.append(c[-1] if c and c[0] == h.params[0] and len(c) == 2 else None)
                if None not in comps:
                    ok = set(comps) == {"starts", "lengths"}
            ctx.decide(rule, h, "%s is start + length%s" % (want, " of the last row" if want == "size" else " per row"),
                       ok, "operands are %s" % (t,), node=r.ast, engine="E5")

    # (4) legacy offsets -> lengths
    fd = ctx.func("raggedshape.RaggedShape.from_dict")
    fda = ctx.fa(fd)
    for r in fda.cfg.returns():
        t = fda.term(r.ast.value, r)
        if t.k == "call" and len(t.a[1]) == 1 and not t.a[2]:
            a = t.a[1][0]
            if a.k == "call" and a.a[1] and a.a[1][0].k == "sub" and is_const(a.a[1][0].a[1], "offsets"):
                nm = np_call(a, {"diff", "cumsum", "ediff1d"})
                ctx.decide(rule, fd, "legacy offsets are converted to row lengths by differencing",
                           True if nm in ("diff", "ediff1d") else (False if nm else None),
                           "np.%s of offsets is not the row lengths" % nm, node=r.ast, engine="E5")


def _strip_cast(t):
    while True:
        nm = np_call(t, {"asanyarray", "asarray", "array"})
        if nm and t.a[1]:
            t = t.a[1][0]
            continue
        return t


def _code_slice(t):
    """codes[a:b:2] -> (component, lo, hi, base term)"""
    if t.k != "sub" or t.a[1].k != "slice":
        return None
    lo, hi, st = t.a[1].a
    if not is_const(st, 2):
        return None
    a = 0 if is_const(lo, None) else (lo.a[0] if lo.k == "const" and isinstance(lo.a[0], int) and lo.a[0] >= 0 else None)
    if a is None:
        return None
    if is_const(hi, None):
        b = 0
    elif hi.k == "const" and isinstance(hi.a[0], int) and hi.a[0] < 0:
        b = hi.a[0]
    else:
        return None
    comp = a % 2
    return (comp, a // 2, -((comp - b) // 2), _root_of_upd(t.a[0]))


def _root_of_upd(t):
    while t.k == "upd" or (t.k == "bin" and len(t.a) > 3):
        t = t.a[0] if t.k == "upd" else t.a[1]
    return t


def code_layout_rules(ctx, tk, rule):
    """the (start, length) interleaving written by ViewBase.__init__ is what every reader addresses"""
    f = ctx.func("raggedshape.ViewBase.__init__")
    fa = ctx.fa(f)
    writer = None
    wnode = None
    for n in fa.cfg.stmts():
        if n.kind == "stmt" and isinstance(n.ast, ast.Assign):
            tm = fa.term(n.ast.value, n)
            for c in walk(tm):
                if np_call(c, {"hstack", "column_stack", "stack"}) and c.a[1] and c.a[1][0].k in ("tuple", "list") and len(c.a[1][0].a[0]) == 2:
                    a, b = c.a[1][0].a[0]
                    ra, rb = _param_roots(a), _param_roots(b)
                    writer = (ra, rb)
                    wnode = n.ast
    what = "the constructor interleaves codes as (start_0, length_0, start_1, length_1, ...)"
    if writer is None:
        ctx.unknown(rule, f, what, "interleaving construct not recognised", engine="E6")
        return
    p_codes, p_lengths = f.params[1], f.params[2]
    ok = (p_codes in writer[0] and p_lengths not in writer[0] and p_lengths in writer[1] and p_codes not in writer[1])
    ctx.decide(rule, f, what, ok, "even positions derive from %s, odd positions from %s" % (sorted(writer[0]), sorted(writer[1])),
               node=wnode, engine="E6")
    # readers
    vb = ctx.program.cls("raggedshape.ViewBase")
    for name, comp in (("starts", 0), ("lengths", 1)):
        m = vb.lookup(name)
        if m is None:
            continue
        ma = ctx.fa(m)
        for r in ma.cfg.returns():
            t = ma.term(r.ast.value, r)
            cs = _code_slice(t)
            whatr = "%s reads the %s positions of the codes (all rows)" % (name, ("even", "odd")[comp])
            if cs is None:
                ctx.unknown(rule, m, whatr, "not a stride-2 slice of the codes", node=r.ast, engine="E6")
            else:
                ctx.decide(rule, m, whatr, cs[0] == comp and cs[1] == 0 and cs[2] == 0,
                           "reads component %d from row %d to n%+d" % (cs[0], cs[1], cs[2]), node=r.ast, engine="E6")
    # view_rows: idx.reshape(-1, 2) columns 0/1 -> RaggedView2(starts, lengths)
    for q in ("raggedshape.RaggedShape.view_rows", "raggedshape.RaggedView.view_rows"):
        m = ctx.func(q)
        ma = ctx.fa(m)
        for r in ma.cfg.returns():
            t = ma.term(r.ast.value, r)
            whatr = "selected (start, length) pairs are handed to RaggedView2 as (starts=column 0, lengths=column 1)"
            if t.k == "call" and len(t.a[1]) >= 2:
                cols = [_last_axis_index(x) for x in t.a[1][:2]]
                resh = all(_reshaped_pairs(x) for x in t.a[1][:2])
                if None in cols or not resh:
                    ctx.unknown(rule, m, whatr, node=r.ast, engine="E6")
                else:
                    ctx.decide(rule, m, whatr, cols == [0, 1], "columns %s" % cols, node=r.ast, engine="E6")
            else:
                ctx.unknown(rule, m, whatr, node=r.ast, engine="E6")
    # RaggedRow(code): code[0] start, code[1] length
    rr = ctx.func("raggedshape.RaggedRow.__init__")
    ra = ctx.fa(rr)
    got = {}
    for n in ra.cfg.stmts():
        if n.kind == "stmt" and isinstance(n.ast, ast.Assign) and isinstance(n.ast.targets[0], ast.Attribute):
            got[n.ast.targets[0].attr] = (ra.term(n.ast.value, n), n.ast)
    for name, comp in (("starts", 0), ("lengths", 1)):
        if name in got:
            t, node = got[name]
            ok = None
            if t.k == "sub" and t.a[0].k == "param" and t.a[1].k == "const":
                ok = t.a[1].a[0] == comp
            ctx.decide(rule, rr, "a single row's %s is element %d of its code pair" % (name, comp), ok,
                       "reads %s" % (t,), node=node, engine="E6")
    if "ends" in got:
        t, node = got["ends"]
        ok = None
        if t.k == "bin" and t.a[0] == "+":
            ix = sorted(x.a[1].a[0] for x in (t.a[1], t.a[2]) if x.k == "sub" and x.a[1].k == "const" and isinstance(x.a[1].a[0], int))
            ok = ix == [0, 1]
        ctx.decide(rule, rr, "a single row's end is start + length", ok, "computed as %s" % (t,), node=node, engine="E6")
    # RaggedShape.__getitem__: rebase the start components of the selected codes by the first start
    gi = ctx.func("raggedshape.RaggedShape.__getitem__")
    gia = ctx.fa(gi)
    for n in gia.cfg.stmts():
        if n.kind == "stmt" and isinstance(n.ast, ast.AugAssign) and isinstance(n.ast.target, ast.Subscript):
            tgt = gia.term(n.ast.target, n)
            cs = _code_slice(tgt)
            val = gia.term(n.ast.value, n)
            whatr = "a sliced geometry is rebased by subtracting the first selected start from every start"
            if cs is None:
                ctx.unknown(rule, gi, whatr, node=n.ast, engine="E6")
                continue
            first = val.k == "sub" and val.a[1].k == "const" and val.a[1].a[0] == 0
            ok = cs[0] == 0 and cs[1] == 0 and cs[2] == 0 and isinstance(n.ast.op, ast.Sub) and first
            ctx.decide(rule, gi, whatr, ok, "updates component %d with %s" % (cs[0], val), node=n.ast, engine="E6")
    # _index_rows: pairs are gathered as units (reshape(-1, 2) or one 64-bit word per pair)
    ir = ctx.func("raggedshape.ViewBase._index_rows")
    ira = ctx.fa(ir)
    for r in ira.cfg.returns():
        t = ira.term(r.ast.value, r)
        whatr = "rows are gathered as whole (start, length) pairs"
        ok = None
        for c in walk(t):
            if c.k == "call" and c.a[0].k == "attr" and c.a[0].a[1] == "reshape" and len(c.a[1]) == 2:
                ok = is_const(c.a[1][1], 2) and is_const(c.a[1][0], -1)
            if c.k == "call" and c.a[0].k == "attr" and c.a[0].a[1] == "view" and c.a[1]:
                ch = attr_chain(c.a[1][0])
                if ch and ch[-1] in ("uint64", "int64", "uint32", "int32", "uint16"):
                    width = {"uint64": 8, "int64": 8, "uint32": 4, "int32": 4, "uint16": 2}[ch[-1]]
                    guard = _dtype_guard_width(ira, r)
                    if guard is not None:
                        ok = (width == 2 * guard)
        ctx.decide(rule, ir, whatr, ok, "pair width does not match the index width", node=r.ast, engine="E6")


def _dtype_guard_width(fa, node):
    from .guards import facts_at as _facts
    for t, truth, test in _facts(fa, node):
        if t.k == "cmp" and ((t.a[0] == "==" and truth) or (t.a[0] == "!=" and not truth)):
            for o in (t.a[1], t.a[2]):
                ch = attr_chain(o)
                if ch and ch[-1] in ("int32", "int64", "int16"):
                    return {"int32": 4, "int64": 8, "int16": 2}[ch[-1]]
    return None


def _param_roots(t):
    return {x.a[0] for x in walk(t) if x.k == "param"}


def _last_axis_index(t):
    if t.k == "sub":
        idx = t.a[1]
        if idx.k == "tuple" and idx.a[0] and idx.a[0][-1].k == "const":
            return idx.a[0][-1].a[0]
    return None


def _reshaped_pairs(t):
    for c in walk(t):
        if c.k == "call" and c.a[0].k == "attr" and c.a[0].a[1] == "reshape" and len(c.a[1]) == 2 and is_const(c.a[1][1], 2):
            return True
    return False


def index_map_rules(ctx, tk, rule):
    vb = "raggedshape.ViewBase."
    # unravel: rows = searchsorted(starts, flat, side="right") - 1 ; cols = flat - starts[rows]
    f = ctx.func(vb + "unravel_multi_index")
    fa = ctx.fa(f)
    for r in fa.cfg.returns():
        t = fa.term(r.ast.value, r)
        if t.k != "tuple" or len(t.a[0]) != 2:
            ctx.unknown(rule, f, "unravel returns (rows, cols)", node=r.ast, engine="E5")
            continue
        rows, cols = t.a[0]
        searchsorted_row_lookup(ctx, rule, f, rows, r.ast, "starts")
        ok = None
        if cols.k == "bin" and cols.a[0] == "-":
            flat, sub = cols.a[1], cols.a[2]
            if sub.k == "sub" and _is_attr(sub.a[0], "starts") and sub.a[1] == rows and flat.k == "param":
                ok = True
            elif flat.k == "sub" and _is_attr(flat.a[0], "starts"):
                ok = False
            elif sub.k == "sub" and _is_attr(sub.a[0], "ends"):
                ok = False
        elif cols.k == "bin":
            ok = False
        ctx.decide(rule, f, "the column of a flat position is its distance from the start of its row", ok,
                   "cols computed as %s" % (cols,), node=r.ast, key="cols", engine="E5")
    # ravel: starts[rows] + cols
    g = ctx.func(vb + "ravel_multi_index")
    ga = ctx.fa(g)
    for r in ga.cfg.returns():
        t = ga.term(r.ast.value, r)
        ok = None
        if t.k == "bin" and t.a[0] == "+":
            a, b = t.a[1], t.a[2]
            if b.k == "sub" and _is_attr(b.a[0], "starts"):
                a, b = b, a
            if a.k == "sub" and _is_attr(a.a[0], "starts"):
                ri = a.a[1]
                ci = _strip_cast(b)
                ok = (ri.k == "sub" and is_const(ri.a[1], 0) and ci.k == "sub" and is_const(ci.a[1], 1) and ri.a[0] == ci.a[0])
                if ri.k == "sub" and is_const(ri.a[1], 1):
                    ok = False
            elif a.k == "sub" and (_is_attr(a.a[0], "ends") or _is_attr(a.a[0], "lengths")):
                ok = False
        elif t.k == "bin":
            ok = False
        ctx.decide(rule, g, "the flat position of (row, col) is starts[row] + col", ok, "computed as %s" % (t,), node=r.ast, engine="E5")
    # index_array: rows are counted with multiplicity (empty rows share a start)
    h = ctx.func(vb + "index_array")
    ha = ctx.fa(h)
    for r in ha.cfg.returns():
        t = ha.term(r.ast.value, r)
        what = "row boundaries are counted with multiplicity (several empty rows share one start) and prefix-summed"
        ok = None
        detail = ""
        inner = t
        if inner.k == "sub" and inner.a[1].k == "slice":
            cut = inner.a[1]
            inner = inner.a[0]
            if not (is_const(cut.a[0], None) and is_const(cut.a[1], -1)):
                ok, detail = False, "the prefix sum over size+1 bins is not cut to [:-1]"
        if np_call(inner, {"cumsum"}) and inner.a[1] and ok is None:
            cnt = inner.a[1][0]
            if np_call(cnt, {"bincount"}):
                args, kw = cnt.a[1], dict(cnt.a[2])
                idx = args[0] if args else None
                ml = kw.get("minlength", args[2] if len(args) > 2 else None)
                idx_ok = idx is not None and idx.k == "sub" and _is_attr(idx.a[0], "starts") and idx.a[1].k == "slice" \
                    and is_const(idx.a[1].a[0], 1) and is_const(idx.a[1].a[1], None)
                ml_ok = ml is not None and ml.k == "bin" and ml.a[0] == "+" and _is_attr(ml.a[1], "size") and is_const(ml.a[2], 1)
                if idx is not None and idx.k == "sub" and _is_attr(idx.a[0], "starts") and idx.a[1].k == "slice" and not idx_ok:
                    ok, detail = False, "boundaries counted are %s, expected starts[1:]" % (idx,)
                elif ml is not None and ml.k == "bin" and not ml_ok and _is_attr(ml.a[1], "size"):
                    ok, detail = False, "minlength is %s, expected size + 1" % (ml,)
                elif idx_ok and ml_ok:
                    ok = True
            elif cnt.k == "upd":
                # diffs[starts[1:]] = 1 : a plain scatter keeps one count per distinct start
                u = cnt
                if u.a[3] is None and u.a[1].k == "sub" and _is_attr(u.a[1].a[0], "starts"):
                    ok, detail = False, ("subscript assignment at starts does not accumulate: rows following several "
                                         "empty rows get a too small row number (witness: lengths [0, 0, 1])")
                elif u.a[3] is not None and u.a[1].k == "sub" and _is_attr(u.a[1].a[0], "starts"):
                    ok, detail = False, "buffered `x[idx] += 1` with repeated idx counts each distinct start once"
            elif cnt.k == "call" and cnt.a[0].k == "attr" and cnt.a[0].a[1] == "at":
                ok = None
        ctx.decide(rule, h, what, ok, detail, node=r.ast, engine="E5")


def _is_attr(t, name):
    for a in alts(t):
        c = attr_chain(a)
        if not (c and c[-1] == name):
            return False
    return True


def searchsorted_row_lookup(ctx, rule, f, rows, node, boundary_attr="starts", key="rows"):
    """U4: the row (or run) containing position p among sorted boundaries B with B[0]=0 is
    searchsorted(B, p, side="right") - 1"""
    what = "the row containing a flat position is searchsorted(%s, position, side='right') - 1" % boundary_attr
    ok = None
    detail = ""
    if rows.k == "bin" and rows.a[0] == "-" and is_const(rows.a[2], 1) and np_call(rows.a[1], {"searchsorted"}):
        c = rows.a[1]
        kw = dict(c.a[2])
        side = kw.get("side", c.a[1][2] if len(c.a[1]) > 2 else None)
        b = c.a[1][0] if c.a[1] else None
        # integer compensation:  #{B <= p} == #{B < p + 1} == #{B - 1 < p}
        shift = 0
        needle = c.a[1][1] if len(c.a[1]) > 1 else kw.get("v")
        if needle is not None and len(alts(needle)) == 1 and needle.k == "bin" and needle.a[0] == "+" and (is_const(needle.a[2], 1) or is_const(needle.a[1], 1)):
            shift += 1
        elif needle is not None and len(alts(needle)) == 1 and np_call(needle, {"add"}) and len(needle.a[1]) == 2 and (is_const(needle.a[1][1], 1) or is_const(needle.a[1][0], 1)):
            shift += 1
        if b is not None and len(alts(b)) == 1 and b.k == "bin" and b.a[0] == "-" and is_const(b.a[2], 1):
            shift += 1
            b = b.a[1]
        if (side is None or is_const(side, "left")) and shift == 1:
            ok = True if (b is not None and _is_attr(b, boundary_attr)) else (False if b is not None and (_is_attr(b, "ends") or _is_attr(b, "lengths")) else None)
            detail = "searches %s with side='left' and a compensating shift by one" % (b,)
        elif side is None or is_const(side, "left"):
            ok, detail = False, "side='left' (the default) maps a position that equals a boundary to the previous row"
        elif is_const(side, "right") and shift:
            ok, detail = False, "side='right' together with a shift by one counts the row after the containing one"
        elif is_const(side, "right"):
            ok = True if (b is not None and _is_attr(b, boundary_attr)) else (False if b is not None and (_is_attr(b, "ends") or _is_attr(b, "lengths")) else None)
            detail = "searches %s" % (b,)
    elif np_call(rows, {"searchsorted"}):
        ok, detail = False, "missing `- 1`: searchsorted(side='right') returns the index after the containing row"
    ctx.decide(rule, f, what, ok, detail, node=node, key=key, engine="E5")


# ---------------------------------------------------------------------------
# U2 - extent-safe boundary gathers
#
# extent of a flat array relative to the element count `size` of a ragged array:  (a, b) = a*size + b

def extent_of(t, is_data, is_size, depth=0):
    """(a, b) or None.  is_data(term): the flat buffer (extent size); is_size(term): the scalar `size`"""
    if depth > 30:
        return None
    rec = lambda x: extent_of(x, is_data, is_size, depth + 1)
    if is_data(t):
        return (1, 0)
    k = t.k
    if k == "phi":
        vs = [rec(x) for x in t.a[0]]
        return vs[0] if vs and all(v is not None and v == vs[0] for v in vs) else None
    if k == "upd":
        return rec(t.a[0])
    if k == "call":
        nm = np_call(t, {"cumsum", "asanyarray", "asarray", "array", "concatenate", "insert", "append", "diff", "zeros", "ones", "full",
                         "empty", "zeros_like", "ones_like", "empty_like", "abs", "logical_not", "flatnonzero", "sort", "pad"})
        args, kw = t.a[1], dict(t.a[2])
        if nm in ("cumsum", "asanyarray", "asarray", "array", "abs", "logical_not", "sort", "zeros_like", "ones_like", "empty_like") and args:
            return rec(args[0])
        if nm == "diff" and args:
            v = rec(args[0])
            n = kw.get("n", args[1] if len(args) > 1 else None)
            if v is None or (n is not None and not (n.k == "const" and isinstance(n.a[0], int))):
                return None
            return (v[0], v[1] - (n.a[0] if n is not None else 1))
        if nm == "insert" and len(args) >= 3:
            v = rec(args[0])
            return None if v is None else (v[0], v[1] + 1)
        if nm == "append" and len(args) >= 2:
            v = rec(args[0])
            return None if v is None else (v[0], v[1] + 1)
        if nm == "concatenate" and args and args[0].k in ("tuple", "list"):
            a = b = 0
            for p in args[0].a[0]:
                if p.k in ("list", "tuple"):
                    b += len(p.a[0])
                else:
                    v = rec(p)
                    if v is None:
                        return None
                    a += v[0]
                    b += v[1]
            return (a, b)
        if nm in ("zeros", "ones", "full", "empty") and args:
            e = args[0]
            while e.k == "call" and e.a[0].k == "global" and e.a[0].a[0] == "int" and e.a[1]:
                e = e.a[1][0]
            return scalar_size(e, is_size)
        cn = call_name(t)
        if cn and cn.split(".")[-1] in ("unsafe_extend_left", "unsafe_extend_right") and args:
            v = rec(args[0])
            return None if v is None else (v[0], v[1] + 1)
        if t.a[0].k == "attr" and t.a[0].a[1] in ("copy", "astype", "ravel", "view", "cumsum", "cumprod") :
            return rec(t.a[0].a[0])
        if t.a[0].k == "attr" and t.a[0].a[1] == "accumulate" and args:
            return rec(args[0])
        return None
    if k == "sub":
        v = rec(t.a[0])
        idx = t.a[1]
        if v is None or idx.k != "slice":
            return None
        lo, hi, st = idx.a
        if not (is_const(st, None) or is_const(st, 1)):
            return None
        d = 0
        if not is_const(lo, None):
            if not (lo.k == "const" and isinstance(lo.a[0], int) and lo.a[0] >= 0):
                return None
            d += lo.a[0]
        if not is_const(hi, None):
            if not (hi.k == "const" and isinstance(hi.a[0], int) and hi.a[0] < 0):
                return None
            d += -hi.a[0]
        return (v[0], v[1] - d)
    if k in ("bin", "cmp"):
        a, b = rec(t.a[1]), rec(t.a[2])
        if a is not None and b is not None:
            return a if a == b else None
        return a or b
    if k == "un":
        return rec(t.a[1])
    return None


def scalar_size(e, is_size):
    if is_size(e):
        return (1, 0)
    if e.k == "const" and isinstance(e.a[0], int):
        return (0, e.a[0])
    if e.k == "bin" and e.a[0] in ("+", "-"):
        a, b = scalar_size(e.a[1], is_size), scalar_size(e.a[2], is_size)
        if a is None or b is None:
            return None
        return (a[0] + b[0], a[1] + b[1]) if e.a[0] == "+" else (a[0] - b[0], a[1] - b[1])
    return None


def boundary_index(t):
    """classify an index term built from all rows' boundaries:
    returns (kind, lo_shift, hi_shift) with kind in {"starts","ends"}; value range is
    [0+lo_shift, size+hi_shift];  None when the term is not such an index.  'clamped' when wrapped in
    minimum(., size-1)"""
    if t.k == "phi":
        rs = [boundary_index(x) for x in t.a[0]]
        return rs[0] if rs and all(r == rs[0] for r in rs) else None
    if t.k == "sub" and t.a[1].k == "slice":
        return boundary_index(t.a[0])           # starts[1:], ends[:-1]: same value range
    c = attr_chain(t)
    if c and len(c) >= 2 and c[-1] in ("starts", "ends") and c[-2] == "_shape":
        return (c[-1], 0, 0)
    if t.k == "bin" and t.a[0] in ("+", "-") and t.a[2].k == "const" and isinstance(t.a[2].a[0], int):
        b = boundary_index(t.a[1])
        if b is not None:
            d = t.a[2].a[0] if t.a[0] == "+" else -t.a[2].a[0]
            return (b[0], b[1] + d, b[2] + d)
    if np_call(t, {"minimum"}) and len(t.a[1]) == 2:
        for x, y in ((t.a[1][0], t.a[1][1]), (t.a[1][1], t.a[1][0])):
            b = boundary_index(x)
            if b is not None and y.k == "bin" and y.a[0] == "-" and is_const(y.a[2], 1) and (attr_chain(y.a[1]) or ("",))[-1] == "size":
                return (b[0], b[1], -1)
    return None


def boundary_gather_rules(ctx, tk, rule, funcs):
    """U2 over the given functions: A[I] with I all rows' starts/ends needs extent(A) >= size+1 (rows may be
    empty at the end: start == end == size), and I >= 0"""
    for f in funcs:
        fa = ctx.fa(f)
        seen = set()
        for n in fa.cfg.stmts():
            cands = []
            for e in _exprs_n(n):
                for sub in ast.walk(e):
                    if isinstance(sub, ast.Subscript):
                        cands.append(sub)
            if n.kind == "stmt" and isinstance(n.ast, (ast.Assign, ast.AugAssign)):
                tg = n.ast.targets[0] if isinstance(n.ast, ast.Assign) else n.ast.target
                if isinstance(tg, ast.Subscript):
                    cands.append(tg)
            for sub in cands:
                if id(sub) in seen:
                    continue
                seen.add(id(sub))
                idx = fa.term(sub.slice, n)
                b = boundary_index(idx)
                if b is None:
                    continue
                arr = fa.term(sub.value, n)
                owner = _owner_of_boundary(idx)
                if owner is None:
                    continue
                def is_data(t, owner=owner):
                    if not (t.k == "call" and t.a[0].k == "attr" and t.a[0].a[1] == "ravel" and not t.a[1]):
                        return False
                    o = t.a[0].a[0]
                    if o == owner:
                        return True
                    # geometry-preserving derivations of the owner: owner.sort() / owner.astype(...)
                    return o.k == "call" and o.a[0].k == "attr" and o.a[0].a[1] in ("sort", "astype", "copy") and o.a[0].a[0] == owner
                is_size = lambda t, owner=owner: (t.k == "attr" and t.a[1] == "size" and (t.a[0] == owner or (t.a[0].k == "attr" and t.a[0].a[1] == "_shape" and t.a[0].a[0] == owner)))
                ext = extent_of(arr, is_data, is_size)
                what = "a gather/scatter at every row's %s addresses inside the array (rows may be empty at either end)" % b[0][:-1]
                if ext is None:
                    ctx.unknown(rule, f, what, "extent of %s not decided" % (arr,), node=sub, engine="E5")
                    continue
                if ext[0] != 1:
                    continue
                hi_ok = b[2] <= ext[1] - 1          # max index size+b[2] <= size+ext_b-1
                lo_ok = b[1] >= 0
                detail = []
                if b[2] < 0 and b[1] == 0 and hi_ok:
                    # clamped to size-1: for an array without cells that is -1 -> needs the size == 0 case handled before
                    from .guards import facts_at as _facts
                    nonempty = any(t.k == "cmp" and is_size(t.a[1]) and is_const(t.a[2], 0) and ((t.a[0] in ("!=", ">")) == truth) for t, truth, _ in _facts(fa, n))
                    if not nonempty:
                        lo_ok = False
                        detail.append("the clamp to size-1 is -1 for an array whose rows are all empty, and no `size == 0` exit dominates the gather (IndexError)")
                if not hi_ok:
                    # licensed by a dominating emptiness refusal?  (size == 0 early exit does not help: trailing empty row)
                    detail.append("the index reaches size%+d but the array has size%+d entries: IndexError as soon as the last row is empty" % (b[2], ext[1]))
                if not lo_ok:
                    lic = _wrap_licence(fa, n, sub)
                    if lic:
                        lo_ok = True
                    else:
                        detail.append("the index can be %d (a leading empty row / first row): it wraps to the end of the array" % b[1])
                ctx.decide(rule, f, what, hi_ok and lo_ok, "; ".join(detail), node=sub, engine="E5")


def _owner_of_boundary(idx):
    for x in walk(idx):
        c = attr_chain(x)
        if x.k == "attr" and x.a[1] in ("starts", "ends") and x.a[0].k == "attr" and x.a[0].a[1] == "_shape":
            return x.a[0].a[0]
    return None


def _wrap_licence(fa, n, sub):
    """a store `A[-1] = const` on the same array that dominates the gather makes the -1 wrap intentional"""
    name = sub.value.id if isinstance(sub.value, ast.Name) else None
    if name is None:
        return False
    for m in fa.cfg.stmts():
        if m.kind == "stmt" and isinstance(m.ast, ast.Assign) and isinstance(m.ast.targets[0], ast.Subscript):
            tg = m.ast.targets[0]
            if isinstance(tg.value, ast.Name) and tg.value.id == name and isinstance(tg.slice, ast.UnaryOp) and isinstance(tg.slice.op, ast.USub) \
                    and isinstance(tg.slice.operand, ast.Constant) and tg.slice.operand.value == 1 and fa.cfg.dominates(m, n):
                return True
            if isinstance(tg.value, ast.Name) and tg.value.id == name and isinstance(tg.slice, ast.Constant) and tg.slice.value == -1 and fa.cfg.dominates(m, n):
                return True
    return False


def _exprs_n(n):
    from .resolve import _exprs_of_node
    return _exprs_of_node(n)
