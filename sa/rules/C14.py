"""C14 - run-length encoding is lossless and canonical.

Decided: the constructor invariants are checked on every path (strictly increasing, first boundary 0, one more
boundary than values); canonical form is re-established, in the right order, by every producer that promises
it; encoder boundary forcing and co-derivation of boundaries and values; change detection by comparison (KB
hazard); padding keeps the dtype (KB hazard); reinterpretation widths and XOR-op agreement of the decoder.
Not decided: decode equality.
"""
import ast
from ..lib import Toolkit
from ..guards import Formulas, check_guard, find_calls, facts_at
from ..terms import alts, attr_chain, walk, is_const, call_name, np_call
from .. import hazards, rlrules, npkb
from .. import wellformed as W

LEVEL_TEXT = ("static guard analysis with strictness atoms (E1), sanitizer-order rule, encoder barrier/co-derivation rules (E6), "
              "numpy-hazard rules (KB) and reinterpretation-width table agreement over RunLengthArray and util.py; structural "
              "necessary conditions of C14")
ASSUMPTIONS = ["assert statements count as refusals", "np.append/concatenate with a Python int list promotes by value kind (uint64 -> float64)"]
MIN_OBLIGATIONS = 18
RL = "runlengtharray.RunLengthArray."


def check(ctx, tier):
    tk = Toolkit(ctx)
    constructor(ctx, tk)
    rlrules.canonical_construction(ctx, "C14.b", ctx.func(RL + "_step_subset"))
    rlrules.canonical_construction(ctx, "C14.b", ctx.func(RL + "_apply_binary_func"))
    rlrules.delete_helpers(ctx, "C14.b")
    rlrules.boundary_arguments(ctx, "C14.b")
    rlrules.empty_interval_direction(ctx, "C14.b")
    slice_nonempty(ctx, tk)
    encoder(ctx, tk)
    encoder_keeps_element_type(ctx, tk)
    decoder(ctx, tk)
    fs = [ctx.func(RL + n) for n in ("from_array", "to_array", "__init__", "_step_subset", "_apply_binary_func", "join_runs", "remove_empty_intervals")]
    us = [ctx.func("util." + n) for n in ("unsafe_extend_left", "unsafe_extend_right", "unsafe_extend_left_2d", "unsafe_extend_right_2d")]
    hazards.h3_diff_as_comparison(ctx, tk, "C14.c", fs)
    hazards.h5_python_list_promotion(ctx, tk, "C14.e", us)
    W.report(ctx, tk, "C14.f", fs + us)
    tk.purity("C14.p", [ctx.func(q) for q in ['runlengtharray.RunLengthArray.from_array', 'runlengtharray.RunLengthArray.to_array', 'runlengtharray.RunLengthArray.__array__', 'runlengtharray.RunLengthArray.remove_empty_intervals', 'runlengtharray.RunLengthArray.join_runs', 'runlengtharray.RunLengthArray._step_subset']], "the operation does not write into its operands' buffers", content_only=True)
    from .. import hazards as _hz, scopes as _sc
    _hz.generic(ctx, tk, "C14.z", _sc.scope(tk, "C14", depth=1))
    return {}


def constructor(ctx, tk):
    f = ctx.func(RL + "__init__")
    fa = ctx.fa(f)
    ep, vp = f.params[1], f.params[2]

    def is_e(t):
        return any(x.k == "param" and x.a[0] == ep for x in walk(t)) and not any(x.k == "param" and x.a[0] == vp for x in walk(t))

    def m(t):
        if t.k == "cmp":
            op, l, r = t.a
            if op in ("==", "!=") and l.k == "bin" and r.k == "call":
                l, r = r, l
            if op in ("==", "!=") and l.k == "sub" and l.a[0].k == "param" and l.a[0].a[0] == ep and is_const(l.a[1], 0) and is_const(r, 0):
                return ("first_is_zero", op == "==")
            if op in ("==", "!=") and l.k == "call" and call_name(l) == "len" and is_e(l) and r.k == "bin" and r.a[0] == "+" and is_const(r.a[2], 1) \
                    and r.a[1].k == "call" and call_name(r.a[1]) == "len":
                return ("one_more_boundary", op == "==")
            if op in ("==", "!=") and l.k == "call" and call_name(l) == "len" and r.k == "call" and call_name(r) == "len":
                return ("same_count", op == "==")
            # events[1:] > events[:-1]
            if op in (">", ">=", "<", "<=") and l.k == "sub" and r.k == "sub" and l.a[0] == r.a[0] and is_e(l.a[0]):
                sl = (l.a[1].a[0], l.a[1].a[1]) if l.a[1].k == "slice" else None
                sr = (r.a[1].a[0], r.a[1].a[1]) if r.a[1].k == "slice" else None
                if sl and sr:
                    later_l = is_const(sl[0], 1) and is_const(sl[1], None) and is_const(sr[0], None) and is_const(sr[1], -1)
                    later_r = is_const(sr[0], 1) and is_const(sr[1], None) and is_const(sl[0], None) and is_const(sl[1], -1)
                    if later_l:
                        return {">": ("strictly_increasing", True), ">=": ("non_decreasing", True)}.get(op)
                    if later_r:
                        return {"<": ("strictly_increasing", True), "<=": ("non_decreasing", True)}.get(op)
        return None
    from ..guards import aggregate_only
    # a condition made of scalars only (events[-1], len(values)) says nothing about every pair of neighbouring boundaries
    forms = Formulas([m], irrelevant=aggregate_only)
    check_guard(ctx, "C14.a", f, [fa.cfg.exit], forms, lambda A: A["first_is_zero"] and A["one_more_boundary"] and A["strictly_increasing"],
                ["first_is_zero", "one_more_boundary", "strictly_increasing"],
                "a RunLengthArray exists only after refusing unless boundaries start at 0, increase strictly (no empty run) and number one more than the values",
                fa=fa, describe="a non-canonical encoding is accepted")


def slice_nonempty(ctx, tk):
    f = ctx.func(RL + "_get_slice")
    fa = ctx.fa(f)
    sinks = [(n, c) for n, c in find_calls(fa, lambda c: c.a[0].k == "attr" and c.a[0].a[1] == "_start_to_end")]

    # orientation from the call: _start_to_end(start, end)
    s_t = e_t = None
    for n, c in find_calls(fa, lambda c: c.a[0].k == "attr" and c.a[0].a[1] == "_start_to_end" and len(c.a[1]) == 2):
        s_t, e_t = c.a[1]
    from ..guards import order_atoms
    m, cons, (E, G, L) = order_atoms("start_vs_end", lambda t: t == s_t, lambda t: t == e_t)
    check_guard(ctx, "C14.b", f, sinks, Formulas([m]), lambda A: A[L], [E, G, L],
                "a sub-range is extracted only for start < end (an empty range would produce an empty run)", fa=fa, constraints=cons)


def encoder_keeps_element_type(ctx, tk):
    """lossless means the element type too: the encoder does not rebind its input to a conversion into a FIXED dtype
    (array = array.astype(np.float32), np.asanyarray(array, dtype=np.int64)) - the run values would be taken from the converted array"""
    f = ctx.func(RL + "from_array")
    what = "the encoder takes the run values from the input in its own element type"
    param = f.params[1] if len(f.params) > 1 and f.params[0] == "cls" else (f.params[0] if f.params else None)
    if param is None:
        return
    bad = None
    for x in ast.walk(f.node):
        if not (isinstance(x, ast.Assign) and any(isinstance(t, ast.Name) and t.id == param for t in x.targets) and isinstance(x.value, ast.Call)):
            continue
        c = x.value
        d = None
        if isinstance(c.func, ast.Attribute) and c.func.attr == "astype" and c.args and isinstance(c.func.value, ast.Name) and c.func.value.id == param:
            d = c.args[0]
        elif isinstance(c.func, ast.Attribute) and c.func.attr in ("asarray", "asanyarray", "array", "ascontiguousarray"):
            d = dict((k.arg, k.value) for k in c.keywords).get("dtype", c.args[1] if len(c.args) > 1 else None)
        if d is None:
            continue
        fixed = (isinstance(d, ast.Attribute) and isinstance(d.value, ast.Name) and d.value.id in ("np", "numpy")) or \
            (isinstance(d, ast.Name) and d.id in ("int", "float", "bool", "complex")) or (isinstance(d, ast.Constant) and isinstance(d.value, str))
        if fixed:
            bad = x
    if bad is not None:
        ctx.violated("C14.e", f, what, "`%s` replaces the input by a copy in a fixed element type: the encoded array (and what it decodes to) has that type, not the input's" % ast.unparse(bad)[:110],
                     node=bad, engine="E5")
    else:
        ctx.holds("C14.e", f, what, engine="E5")


def encoder(ctx, tk):
    f = ctx.func(RL + "from_array")
    fa = ctx.fa(f)
    # barrier: first and last mask entries forced true before flatnonzero
    forced = set()
    fnodes = []
    for n in fa.cfg.stmts():
        if n.kind == "stmt" and isinstance(n.ast, ast.Assign):
            tgs = n.ast.targets[0].elts if isinstance(n.ast.targets[0], ast.Tuple) else [n.ast.targets[0]]
            vals = n.ast.value.elts if isinstance(n.ast.value, ast.Tuple) else [n.ast.value] * len(tgs)
            for tg, v in zip(tgs, vals):
                if isinstance(tg, ast.Subscript) and isinstance(v, ast.Constant) and v.value is True:
                    s = ast.unparse(tg.slice)
                    if s in ("0", "-1"):
                        forced.add(s)
                        fnodes.append(n)
    fz = [n for n, c in find_calls(fa, lambda c: np_call(c, {"flatnonzero"}))]
    what = "the change mask is forced true at the first position and one past the last before the boundaries are read off"
    ok = forced == {"0", "-1"} and fz and all(fa.cfg.must_pass(fnodes, z) for z in fz)
    if not ok:
        # the other way to force the two ends: start from an all-True mask and write the comparison into the interior only
        ok = _ends_true_by_construction(fa)
    ctx.decide("C14.c", f, what, ok, "forced positions: %s" % sorted(forced), key="barrier", engine="E1")
    for r in fa.cfg.returns():
        tm = fa.term(r.ast.value, r)
        if tm.k == "call" and len(tm.a[1]) == 2:
            ev, va = tm.a[1]
            ok1 = np_call(ev, {"flatnonzero"}) is not None
            ok2 = va.k == "sub" and va.a[1].k == "sub" and va.a[1].a[0] == ev and va.a[1].a[1].k == "slice" and is_const(va.a[1].a[1].a[1], -1) and is_const(va.a[1].a[1].a[0], None)
            bad = va.k == "sub" and va.a[1].k == "sub" and va.a[1].a[0] == ev and va.a[1].a[1].k == "slice" and is_const(va.a[1].a[1].a[0], 1)
            ctx.decide("C14.c", f, "run values are the array's elements at the run starts (all boundaries but the last), from the same mask as the boundaries",
                       True if (ok1 and ok2) else (False if bad else None), "values are %s" % (va,), node=r.ast, key="co-derived", engine="E6")
            # mask: left-extended != right-extended (neighbour comparison)
            evc = next((a for a in alts(ev) for x in [a] if np_call(x, {"flatnonzero"}) or (x.k == "call" and x.a[0].k == "attr" and x.a[0].a[1] == "astype" and np_call(x.a[0].a[0], {"flatnonzero"}))), None)
            if evc is not None and not np_call(evc, {"flatnonzero"}):
                evc = evc.a[0].a[0]
            mask = evc.a[1][0] if (evc is not None and evc.a[1]) else None
            if mask is not None:
                core = mask
                while core.k == "upd":
                    core = core.a[0]
                okm = core.k == "cmp" and core.a[0] == "!=" and {(call_name(core.a[1]) or "").split(".")[-1], (call_name(core.a[2]) or "").split(".")[-1]} == {"unsafe_extend_left", "unsafe_extend_right"}
                same = core.k == "cmp" and {(call_name(core.a[1]) or "").split(".")[-1], (call_name(core.a[2]) or "").split(".")[-1]} in ({"unsafe_extend_left"}, {"unsafe_extend_right"})
                ctx.decide("C14.c", f, "runs are detected by comparing each element with its left neighbour (left-extended vs right-extended copy)",
                           True if okm else (False if same else None), "mask is %s" % (core,), node=r.ast, key="neighbour-mask", engine="E5")


def decoder(ctx, tk):
    f = ctx.func(RL + "to_array")
    fa = ctx.fa(f)
    # reinterpretation widths
    for n in fa.cfg.stmts():
        if n.kind == "stmt" and isinstance(n.ast, ast.Assign):
            tm = fa.term(n.ast.value, n)
            if tm.k == "call" and tm.a[0].k == "attr" and tm.a[0].a[1] == "view" and tm.a[1]:
                tgt = (attr_chain(tm.a[1][0]) or ("",))[-1]
                src = None
                for t, truth, _ in facts_at(fa, n):
                    if t.k == "cmp" and t.a[0] == "==" and truth:
                        src = (attr_chain(t.a[2]) or ("",))[-1]
                if src in npkb.ITEMSIZE and tgt in npkb.ITEMSIZE:
                    ok = npkb.ITEMSIZE[src] == npkb.ITEMSIZE[tgt] and tgt in npkb.UNSIGNED
                    ctx.decide("C14.d", f, "float values are reinterpreted as unsigned integers of the same width", ok,
                               "%s is viewed as %s" % (src, tgt), node=n.ast, key="width:" + src, engine="E6")
    for n in fa.cfg.stmts():
        if n.kind == "stmt" and isinstance(n.ast, ast.Assign):
            tm = fa.term(n.ast.value, n)
            if tm.k == "call" and tm.a[0].k == "attr" and tm.a[0].a[1] == "view" and tm.a[1] and (attr_chain(tm.a[1][0]) or ("",))[-1] in npkb.UNSIGNED:
                recv = tm.a[0].a[0]
                conv = any(x.k == "call" and x.a[0].k == "attr" and x.a[0].a[1] == "astype" for x in alts(recv))
                ctx.decide("C14.d", f, "the bit reinterpretation views the values as they are (same width), without converting them first", not conv,
                           "`%s` widens the values before viewing them as integers, but the result is viewed back as the original (narrower) dtype: float32/float16 arrays "
                           "decode to 2x/4x the length" % (tm,), node=n.ast, key="no-astype:%s" % n.lineno, engine="E6")
    # xor op agreement
    ops = []
    for n in fa.cfg.stmts():
        if n.kind == "stmt" and isinstance(n.ast, ast.Assign):
            tm = fa.term(n.ast.value, n)
            if tm.k == "ifexp":
                names = [(attr_chain(x) or ("",))[-1] for x in (tm.a[1], tm.a[2])]
                if set(names) <= {"logical_xor", "bitwise_xor"}:
                    cond = tm.a[0]
                    okb = cond.k == "cmp" and cond.a[0] == "==" and any(y.k == "global" and y.a[0] == "bool" for y in walk(cond))
                    ctx.decide("C14.d", f, "differences are taken with logical_xor for booleans and bitwise_xor otherwise",
                               True if (names == ["logical_xor", "bitwise_xor"] and okb) else (False if names == ["bitwise_xor", "logical_xor"] and okb else None),
                               "op is %s" % (tm,), node=n.ast, key="xor-op", engine="E6")
    # the same op is used for the differences and the accumulate; the result is viewed as the original dtype
    diffs = find_calls(fa, lambda c: c.a[0].k in ("phi", "ifexp", "attr") and len(c.a[1]) == 2 and any(
        (attr_chain(y) or ("",))[-1] in ("logical_xor", "bitwise_xor") for y in alts(c.a[0])))
    accs = find_calls(fa, lambda c: c.a[0].k == "attr" and c.a[0].a[1] == "accumulate")
    if diffs and accs:
        ok = diffs[0][1].a[0] == accs[0][1].a[0].a[0]
        ctx.decide("C14.d", f, "the run differences and the prefix accumulation use the same XOR operator", True if ok else False,
                   "differences use %s, accumulate uses %s" % (diffs[0][1].a[0], accs[0][1].a[0].a[0]), key="same-op", engine="E6")
    for r in fa.cfg.returns():
        tm = fa.term(r.ast.value, r)
        if tm.k == "call" and tm.a[0].k == "attr" and tm.a[0].a[1] == "view" and tm.a[1]:
            d = tm.a[1][0]
            ok = d.k == "attr" and d.a[1] == "dtype" and (attr_chain(d.a[0]) or ("",))[-1] == "_values"
            ctx.decide("C14.d", f, "the decoded bits are viewed back as the values' dtype", True if ok else None, node=r.ast, key="view-back", engine="E6")
    # scatter at the run starts: first value at start 0, differences at the other starts
    for n in fa.cfg.stmts():
        if n.kind == "stmt" and isinstance(n.ast, ast.Assign) and isinstance(n.ast.targets[0], ast.Subscript):
            idx = fa.term(n.ast.targets[0].slice, n)
            val = fa.term(n.ast.value, n)
            if idx.k == "sub" and (attr_chain(idx.a[0]) or ("",))[-1] == "_starts":
                if idx.a[1].k == "slice" and is_const(idx.a[1].a[0], 1):
                    ok = val.k == "call" and len(val.a[1]) == 2
                    # a constant instead of the difference claims that every boundary is a change of value: adjacent runs with equal
                    # values (legal for results of comparisons, astype, concatenation, run-length masks) are then decoded inverted
                    def _consts(t):
                        if t.k == "ifexp":
                            return _consts(t.a[1]) + _consts(t.a[2])
                        return [a for a in alts(t) if a.k == "const"]
                    cs = _consts(val)
                    ctx.decide("C14.d", f, "value differences are scattered at the starts of runs 1..", False if cs else (True if ok else None),
                               "the constant %r is stored at the run starts on some path instead of the difference of the neighbouring run values: runs are assumed to alternate, "
                               "which only canonical arrays do" % (cs[0].a[0] if cs else None,), node=n.ast, key="scatter-diffs", engine="E5")
                elif is_const(idx.a[1], 0):
                    ok = val.k == "sub" and is_const(val.a[1], 0)
                    ctx.decide("C14.d", f, "the first run's value is stored at its start", True if ok else None, node=n.ast, key="scatter-first", engine="E5")


def _ends_true_by_construction(fa):
    """True / False / None: the argument of flatnonzero is an all-True boolean array whose later stores leave
    positions 0 and -1 alone (or store True there)"""
    verdicts = []
    for n, c in find_calls(fa, lambda c: np_call(c, {"flatnonzero"}) and c.a[1]):
        for m in alts(c.a[1][0]):
            stores = []
            while m.k == "upd":
                stores.append((m.a[1], m.a[2]))
                m = m.a[0]
            base_true = (np_call(m, {"ones"}) is not None and any((attr_chain(v) or ("",))[-1] in ("bool", "bool_") or (v.k == "global" and v.a[0] == "bool")
                                                                   for v in [dict(m.a[2]).get("dtype")] + list(m.a[1][1:2]) if v is not None)) \
                or (np_call(m, {"full"}) is not None and len(m.a[1]) > 1 and is_const(m.a[1][1], True))
            if not base_true:
                verdicts.append(False)
                continue
            v = True
            for idx, val in stores:
                for pos in (0, -1):
                    cov = _covers(idx, pos)
                    if cov is None:
                        v = None if v is True else v
                    elif cov and not is_const(val, True):
                        v = False
            verdicts.append(v)
    if not verdicts or any(x is False for x in verdicts):
        return False
    return None if any(x is None for x in verdicts) else True


def _covers(idx, pos):
    """does a store through `idx` write position pos (0 = first, -1 = last)?  None when not decidable"""
    if idx.k == "const" and isinstance(idx.a[0], int):
        return idx.a[0] == pos
    if idx.k == "un" and idx.a[0] == "-" and idx.a[1].k == "const":
        return -idx.a[1].a[0] == pos
    if idx.k == "slice":
        lo, hi, st = idx.a
        if not is_const(st, None) and not is_const(st, 1):
            return None
        def c(x):
            if is_const(x, None):
                return None
            if x.k == "const" and isinstance(x.a[0], int):
                return x.a[0]
            if x.k == "un" and x.a[0] == "-" and x.a[1].k == "const":
                return -x.a[1].a[0]
            return "?"
        l, h = c(lo), c(hi)
        if l == "?" or h == "?":
            return None
        if pos == 0:
            return l is None or l == 0
        return h is None
    return None
