"""Shared rule helpers (Toolkit): engines instantiated once per run + generic rule templates."""
import ast
from .resolve import Resolver
from .effects import Effects, fmt_root, FRESH
from .model import AnalysisError, src
from .terms import T, walk, alts, attr_chain
from .core import norm

CONTENT_KINDS = ("substore", "augname", "out", "ufunc.at", "method", "call")


class Toolkit:
    def __init__(self, ctx):
        self.ctx = ctx
        self.R = ctx.cached("resolver", lambda: Resolver(ctx))
        self.E = ctx.cached("effects", lambda: Effects(ctx, self.R))

    # -- entry point helpers ------------------------------------------------
    def methods(self, cls_qual, names):
        c = self.ctx.program.cls(cls_qual)
        out = []
        for n in names:
            m = c.lookup(n)
            if m is None:
                raise AnalysisError("anchor method %s.%s not found" % (cls_qual, n))
            out.append(m)
        return out

    def funcs(self, quals):
        return [self.ctx.func(q) for q in quals]

    def ctor_helpers(self):
        """quals of methods that run only as part of construction: every resolved call site is `self.m(...)` inside
        `__init__` (or inside another such helper) of the same class hierarchy.  A constructor split into helpers keeps
        its licence to assign the object's fields"""
        def build():
            p = self.ctx.program
            cand = {}
            for q, f in p.funcs.items():
                if f.cls is None or f.parent is not None or not f.params or f.is_staticmethod or f.is_classmethod:
                    continue
                if f.name.startswith("__") and f.name.endswith("__"):
                    continue
                sites = self.R.call_sites(f)
                if sites:
                    cand[q] = sites
            helpers = set()
            changed = True
            while changed:
                changed = False
                for q, sites in cand.items():
                    if q in helpers:
                        continue
                    ok = True
                    for cfa, c in sites:
                        g = cfa.func
                        in_ctor = g.name in ("__init__", "__post_init__") or g.qual in helpers
                        recv_self = c.a[0].k == "attr" and c.a[0].a[0].k == "param" and g.params and c.a[0].a[0].a[0] == g.params[0]
                        if not (in_ctor and recv_self and g.cls is not None):
                            ok = False
                            break
                    if ok:
                        helpers.add(q)
                        changed = True
            return helpers
        return self.ctx.cached("ctor_helpers", build)

    # -- EF1: purity ---------------------------------------------------------
    def purity(self, rule, entries, what, content_only=False, allowed=(), engine="E3", site_key=None):
        """EF1: from every entry point, no reachable in-place construct targets a value that may alias
        an operand (parameter / self) of the entry point or global state.
        allowed: iterable of (site function qual, attr-or-None, reason) that are accepted effects."""
        ctx = self.ctx
        allowed = list(allowed)
        bysite = {}
        for e in entries:
            bad = False
            for w in self.E.effects(e):
                s = w.site
                if content_only and s.kind not in CONTENT_KINDS:
                    continue
                ok = None
                for al in allowed:
                    fq, attr, reason = al[0], al[1], al[2]
                    only = al[3] if len(al) > 3 else None
                    if s.func.qual == fq and (attr is None or s.attr == attr) and (only is None or e.qual in only):
                        ok = reason
                        break
                if ok is not None:
                    tag = "%s: %s (%s)" % (s.func.qual, s.desc, ok)
                    if tag not in ctx.suppressed:
                        ctx.suppressed.append(tag)
                    continue
                bad = True
                k = (s.func.qual, id(s.astnode))
                b = bysite.setdefault(k, {"site": s, "entries": [], "roots": set(), "chain": w.chain})
                if e.qual not in b["entries"]:
                    b["entries"].append(e.qual)
                b["roots"].add(fmt_root(w.root))
            if not bad:
                ctx.holds(rule, e, "%s: no reachable in-place construct targets an operand or shared state" % what,
                          key="entry", engine=engine)
        for k, b in sorted(bysite.items(), key=lambda kv: (kv[0][0], getattr(kv[1]["site"].astnode, "lineno", 0))):
            s = b["site"]
            chain = " -> ".join("%s:%s" % c for c in b["chain"][:6])
            ctx.violated(rule, s.func, "%s: in-place construct must only target locally created values" % what,
                         "%s may write %s; reached from %d read-only entr%s e.g. %s%s"
                         % (s.desc, ", ".join(sorted(b["roots"])[:4]), len(b["entries"]),
                            "y" if len(b["entries"]) == 1 else "ies", ", ".join(b["entries"][:3]),
                            (" via " + chain) if chain else ""),
                         node=s.astnode, key=(site_key(s) if site_key else None) or norm(s.astnode), engine=engine)

    # -- EF4: alias exposure ---------------------------------------------------
    def returns_fresh_field(self, rule, f, field, what, allow=None, engine="E3"):
        """every object returned by f has a `field` that shares no memory with f's operands.
        allow(return_term, freshness) -> reason string for accepted aliases"""
        ctx = self.ctx
        fa = ctx.fa(f)
        for n in fa.cfg.returns():
            if n.ast.value is None:
                continue
            tm = fa.term(n.ast.value, n)
            # only returns that construct an object here or hand back an operand; delegations to other
            # functions are judged in those functions
            cand = []
            for a in alts(tm):
                if a.k == "tuple":
                    cand += [x for x in a.a[0]]
                else:
                    cand.append(a)
            keep = []
            for a in cand:
                if a.k == "call":
                    ft = self.R.callee_type(a.a[0], fa)
                    if ft and ft[0] in ("class", "bound", "func"):
                        keep.append(a)
                elif a.k in ("param", "attr"):
                    t2 = self.R.typeof(a, fa)
                    if t2 and t2[0] == "inst":
                        keep.append(a)
            handed_back = [a for a in cand if a.k in ("sub", "elem", "item") and a.a and isinstance(a.a[0], T) and a.a[0].k == "param"
                           and not (a.k == "sub" and a.a[1].k in ("slice", "tuple"))]
            if handed_back and not keep:
                ctx.violated(rule, f, what, "`%s`: an element of the operand `%s` is returned as the result (the caller's own object, not a new one)" % (
                    norm(n.ast), handed_back[0].a[0].a[0]), node=n.ast, key="alias-via:operand-element", engine=engine)
                continue
            if not keep:
                continue
            if any(_empty_fact(fa, n)):
                ctx.holds(rule, f, what + " [array without cells]", node=n.ast, engine=engine)
                continue
            tm = keep[0] if len(keep) == 1 else T("phi", (tuple(keep),), n.ast)
            fr = self.E.field_fresh(tm, field, fa)
            if fr[0] == "alias":
                roots = sorted(fmt_root(r) for r in fr[1] if r[0] != "<global>")
                if not roots:
                    ctx.holds(rule, f, what, node=n.ast, engine=engine)
                    continue
                reason = allow(tm, fr) if allow else None
                if reason:
                    tag = "%s: %s (%s)" % (f.qual, norm(n.ast), reason)
                    if tag not in ctx.suppressed:
                        ctx.suppressed.append(tag)
                    ctx.holds(rule, f, what + " [accepted alias: %s]" % reason, node=n.ast, engine=engine)
                else:
                    via = sorted({(a.a[0].a[1] if a.a[0].k == "attr" else (a.a[0].a[0] if a.a[0].k in ("global", "param") else "call")) if a.k == "call" else a.k for a in keep})
                    ctx.violated(rule, f, what, "returned object's %s may share memory with %s" % (field, ", ".join(roots[:4])),
                                 node=n.ast, key="alias-via:" + ",".join(via), engine=engine)
            elif fr[0] == "fresh":
                ctx.holds(rule, f, what, node=n.ast, engine=engine)
            else:
                ctx.unknown(rule, f, what, "freshness of the returned %s not decided" % field, node=n.ast, engine=engine)


def public_methods(cls, exclude=()):
    out = []
    seen = set()
    for c in cls.mro():
        for n, m in c.methods.items():
            if n in seen:
                continue
            seen.add(n)
            if n in exclude:
                continue
            out.append(m)
    return out


def _empty_fact(fa, n):
    """facts `X.size == 0` dominating node n (an array without cells has no content to share)"""
    from .guards import facts_at as _facts
    for tm, truth, test in _facts(fa, n):
        if tm.k == "cmp" and ((tm.a[0] == "==" and truth) or (tm.a[0] == "!=" and not truth)) and tm.a[1].k == "attr" and tm.a[1].a[1] == "size" \
                and tm.a[2].k == "const" and tm.a[2].a[0] == 0:
            yield True
