"""Entry points per property (DESIGN.md Appendix B) and the function scope reachable from them."""
RA = "raggedarray.RaggedArray."
IA = "raggedarray.indexablearray.IndexableArray."
RB = "raggedarray.base.RaggedBase."
RS = "raggedshape.RaggedShape."
VB = "raggedshape.ViewBase."
V2 = "raggedshape.RaggedView2."
RV = "raggedshape.RaggedView."
HT = "hashtable.HashTable."
RL = "runlengtharray.RunLengthArray."
R2 = "runlengtharray.RunLength2dArray."
RR = "runlengtharray.RunLengthRaggedArray."
IM = "runlengtharray.IndexableMixin."
ND = "npdataclasses.NpDataClass."

GETITEM = [IA + "__getitem__", IA + "_get_row_subset", IA + "_get_row_col_subset", IA + "_get_row", IA + "_get_element", IA + "_get_view",
           IA + "_get_multiple_rows", V2 + "col_slice", V2 + "_pos_col_slice", V2 + "_calculate_lengths", V2 + "view_rows", V2 + "get_flat_indices",
           RS + "view", RS + "view_rows", RV + "view", RV + "view_rows", RV + "get_flat_indices", "raggedshape.build_indices", RB + "ravel", RB + "_flatten_myself"]

ENTRIES = {
    "C01": [RA + n for n in ("__init__", "__len__", "shape", "lengths", "__iter__", "tolist", "astype", "from_numpy_array", "to_numpy_array", "save", "load",
                             "_from_array_list", "equals")] + [RB + "size", RB + "ravel", RS + "__init__", VB + "__init__", VB + "starts", VB + "ends", VB + "lengths",
                                                                RS + "size", VB + "ravel_multi_index", VB + "unravel_multi_index", VB + "index_array", RS + "to_dict",
                                                                RS + "from_dict", RS + "from_tuple_shape", RS + "asshape"],
    "C02": GETITEM + [IA + "get_column_values", IA + "subset"],
    "C03": [IA + "__setitem__", RB + "_set_data_range", RS + "broadcast_values"] + GETITEM,
    "C04": [RA + "__array_ufunc__", RA + "_broadcast_rows", RS + "broadcast_values", RS + "_raw_broadcast", RS + "_broadcast_values_fast", VB + "__eq__"],
    "C05": [RA + n for n in ("sum", "prod", "mean", "all", "any", "max", "min", "argmax", "argmin", "_reduce", "__array_function__", "__array_ufunc__")],
    "C06": GETITEM + [IA + "__setitem__", RB + "_change_view", RA + "__array_ufunc__", RA + "__array_function__"],
    "C07": [RA + n for n in ("cumsum", "_accumulate", "_row_accumulate", "sort")] + ["arrayfunctions.unique", "arrayfunctions.diff", VB + "index_array"],
    "C08": ["arrayfunctions." + n for n in ("concatenate", "where", "zeros_like", "ones_like", "empty_like")] + [RA + "nonzero", RA + "_as_padded_matrix", IA + "subset",
                                                                                                                "raggedarray.raggedslice.ragged_slice", "mixin.NPSIndexable.__getitem__",
                                                                                                                "mixin.NPSArray._ragged_slice", VB + "unravel_multi_index"],
    "C09": [RA + "sum", RA + "mean", RA + "col_counts", IA + "get_column_values", VB + "unravel_multi_index"],
    "C11": [HT + n for n in ("__init__", "__getitem__", "__setitem__", "contains", "fill", "__add__", "__eq__", "items", "to_dict", "__array_function__", "_get_indices",
                             "_fill_values", "_get_hash", "_get_mod", "_build_ragged_array")] + ["hashtable.HashSet.contains", "hashtable.HashSet.__init__",
                                                                                                   "hashtable.zeros_like", "hashtable.ones_like"],
    "C12": ["hashtable.Counter.__init__", "hashtable.Counter.count", HT + "__getitem__", HT + "__init__", RV + "_get_flat_indices_fast", RS + "_broadcast_values_fast",
            VB + "ravel_multi_index"],
    "C13": ["bitarray.BitArray." + n for n in ("__init__", "pack", "unpack", "__getitem__", "sliding_window")],
    "C14": [RL + n for n in ("__init__", "from_array", "to_array", "__array__", "__len__", "size", "remove_empty_intervals", "join_runs", "_step_subset", "_apply_binary_func")] +
           ["util.unsafe_extend_left", "util.unsafe_extend_right"],
    "C15": [RL + n for n in ("__getitem__", "_get_position", "_get_slice", "_step_subset", "_start_to_end", "_getitem_bool", "_ragged_slice")] + ["mixin.NPSIndexable.__getitem__"],
    "C16": [RL + n for n in ("__array_ufunc__", "_apply_binary_func", "sum", "any", "all", "max", "mean", "astype", "__array_function__")] +
           ["runlengtharray.histogram", "runlengtharray.concatenate"],
    "C17": None,      # every function of the three 2-D classes (computed)
    "C18": None,      # every function in npdataclasses.py (computed)
    "C19": [VB + "_index_rows", VB + "set_dtype", VB + "__init__", RS + "__init__", "raggedshape.build_indices", RS + "__getitem__", RV + "get_shape"],
}


def scope(tk, prop, closure=False, depth=None):
    p = tk.ctx.program
    ent = ENTRIES.get(prop)
    if prop == "C17":
        ent = [q for q in p.funcs if q.startswith((R2, RR, IM)) or q == "runlengtharray.rlra_concatenate"]
    elif prop == "C18":
        ent = [q for q in p.funcs if q.startswith("npdataclasses.") and not any(x in q for x in (".empty", "stack_with_ragged", "__str__"))]
    # private helpers named in the tables are optional: a refactoring may inline or rename them, and their code is then
    # reached through the entries that used them; public entry points must exist
    fs = []
    for q in ent:
        if q.rsplit(".", 1)[-1].startswith("_") and not q.rsplit(".", 1)[-1].startswith("__") and p.funcs.get(q) is None and p.maybe_func(q) is None:
            continue
        fs.append(p.func(q))
    if closure:
        reach = tk.R.reachable([f.qual for f in fs])
        fs = [p.funcs[q] for q in sorted(reach) if q in p.funcs]
    elif depth:
        # the entries plus the helpers they call, `depth` call edges deep
        E = tk.R.edges()
        seen = dict((f.qual, 0) for f in fs)
        frontier = list(seen)
        for d in range(1, depth + 1):
            nxt = []
            for q in frontier:
                for h in E.get(q, ()):
                    if h not in seen and h in p.funcs:
                        seen[h] = d
                        nxt.append(h)
            frontier = nxt
        fs = fs + [p.funcs[q] for q in sorted(seen) if seen[q] > 0]
    return fs
