"""E1 - path rules: branch facts, refusals, truth-table implication over rule atoms,
must-pass, and dtype-class feasibility (which dtype kinds can reach which node)."""
import ast
import itertools
from .terms import T, alts, walk, attr_chain, is_const, np_call
from . import npkb


# ---------------------------------------------------------------------------
# boolean formulas over atoms:  ("atom", name) | ("not", f) | ("and", [f..]) | ("or", [f..]) | ("const", bool)

class Formulas:
    def __init__(self, matchers, irrelevant=None):
        """matchers: list of callables term -> (atom name, polarity) | None, tried in order.
        irrelevant: callable(term) -> bool for opaque conditions that provably cannot imply the
        rule's atoms (dropped instead of being treated as possibly sufficient)."""
        self.matchers = matchers
        self.irrelevant = irrelevant
        self.opaque = {}

    def of(self, t):
        if t.k == "const":
            return ("const", bool(t.a[0]))
        if t.k == "bool":
            return (t.a[0], [self.of(x) for x in t.a[1]])
        if t.k == "un" and t.a[0] == "not":
            return ("not", self.of(t.a[1]))
        for m in self.matchers:
            r = m(t)
            if r is not None:
                name, pol = r
                return ("atom", name) if pol else ("not", ("atom", name))
        # np.any(x) / np.all(x) of a recognisable condition, element-wise (a or b) / (a and b)
        if t.k == "call" and t.a[1]:
            c = attr_chain(t.a[0])
            if c and c[-1] in ("any", "all") and len(t.a[1]) == 1:
                inner = self.of(t.a[1][0])
                if inner[0] != "atom" or not inner[1].startswith("?"):
                    return inner
        if t.k == "bin" and t.a[0] in ("|", "&"):
            return ("or" if t.a[0] == "|" else "and", [self.of(t.a[1]), self.of(t.a[2])])
        if t.k == "un" and t.a[0] == "~":
            return ("not", self.of(t.a[1]))
        if self.irrelevant is not None and self.irrelevant(t):
            return ("free", None)
        key = repr(t)
        name = self.opaque.setdefault(key, "?%d" % len(self.opaque))
        return ("atom", name)


def atoms_of(f, out=None):
    out = out if out is not None else set()
    if f[0] == "atom":
        out.add(f[1])
    elif f[0] == "not":
        atoms_of(f[1], out)
    elif f[0] in ("and", "or"):
        for x in f[1]:
            atoms_of(x, out)
    return out


def ev(f, A):
    """three-valued evaluation: True / False / None (free: unconstrained)"""
    k = f[0]
    if k == "const":
        return f[1]
    if k == "free":
        return None
    if k == "atom":
        return A[f[1]]
    if k == "not":
        v = ev(f[1], A)
        return None if v is None else (not v)
    vals = [ev(x, A) for x in f[1]]
    if k == "and":
        if any(v is False for v in vals):
            return False
        return None if any(v is None for v in vals) else True
    if any(v is True for v in vals):
        return True
    return None if any(v is None for v in vals) else False


def implied(facts, required, names):
    """facts: list of (formula, truth).  required: callable(assignment) -> bool over `names`.
    returns (verdict, witness): verdict True (all models satisfy), False (a model of the understood facts
    violates it and no opaque condition could exclude it), None (depends on an opaque condition)"""
    atoms = set(names)
    for f, _ in facts:
        atoms |= atoms_of(f)
    atoms = sorted(atoms)
    opaque = [a for a in atoms if a.startswith("?")]
    named = [a for a in atoms if not a.startswith("?")]
    if len(atoms) > 12:
        return None, None
    bad_named = None
    depends_on_opaque = False
    for vals in itertools.product([False, True], repeat=len(named)):
        A = dict(zip(named, vals))
        if required(A):
            continue
        # is there an assignment of the opaque atoms making all facts true?
        sat_any = False
        sat_all = True
        for ovals in itertools.product([False, True], repeat=len(opaque)):
            B = dict(A)
            B.update(zip(opaque, ovals))
            ok = True
            for f, truth in facts:
                v = ev(f, B)
                if v is not None and v != truth:
                    ok = False
                    break
            if ok:
                sat_any = True
            else:
                sat_all = False
        if sat_any:
            if sat_all or not opaque:
                return False, A
            depends_on_opaque = True
            bad_named = A
    if depends_on_opaque:
        return None, bad_named
    return True, None


# ---------------------------------------------------------------------------
# facts from the CFG

def facts_at(fa, node):
    """[(condition term, truth, test node)] for every branch edge dominating `node`; `not c` is unwrapped
    (truth flipped) and a true conjunction / false disjunction is split into its operands"""
    out = []
    for test, truth in fa.cfg.facts_at(node):
        if test.kind != "test":
            continue
        _split_fact(fa.term(test.ast, test), truth, test, out)
    return out


def _split_fact(t, truth, test, out):
    while t.k == "un" and t.a[0] == "not":
        t, truth = t.a[1], not truth
    if t.k == "bool" and ((t.a[0] == "and" and truth) or (t.a[0] == "or" and not truth)):
        for x in t.a[1]:
            _split_fact(x, truth, test, out)
        return
    out.append((t, truth, test))


def refusals(fa):
    """test nodes one of whose outcomes always ends in an exception: [(test node, refusing truth)]"""
    out = []
    for n in fa.cfg.nodes:
        if n.kind != "test" or not fa.cfg.is_reachable(n):
            continue
        for e in n.succ:
            if e.kind == "edge" and fa.cfg.always_raises_from(e):
                out.append((n, e.info[1]))
    return out


def check_guard(ctx, rule, f, sink_nodes, forms, required, names, what, engine="E1", fa=None, describe=None,
                start=None, constraints=()):
    """must-guard, path-sensitive: for every truth assignment A of the rule's atoms (consistent with
    `constraints`) under which `required(A)` is false, the sink must not be reachable from `start` (default: entry)
    when every branch test is followed only along the edges feasible under A.  Tests the rule cannot
    interpret are followed along both edges; if such a test is a *refusal* relevant to the rule (it may be the
    guard written differently), a sink reachable only through it is `unknown`, not `violated`."""
    fa = fa or ctx.fa(f)
    if not sink_nodes:
        ctx.unknown(rule, f, what, "guarded construct not found (idiom not recognised)", engine=engine)
        return
    # sinks may be given as (cfg node, call term) pairs (the result of find_calls): the term's AST node then gives the
    # position of the construct *inside* its statement, and short-circuit operands / conditional expressions /
    # comprehension filters in front of it count as guards too
    sink_asts = {}
    plain = []
    for s_ in sink_nodes:
        if isinstance(s_, tuple):
            n_, t_ = s_
            if n_ not in plain:
                plain.append(n_)
            if getattr(t_, "node", None) is not None:
                sink_asts.setdefault(n_.id, []).append(t_.node)
        else:
            plain.append(s_)
    sink_nodes = plain
    cfg = fa.cfg
    ref_tests = {t.id for t, _ in refusals(fa)}
    tests = {}
    opaque_refusals = set()
    helpers = {}
    # a statement that only calls a helper of the repository which can raise (its value is discarded) is a refusal
    # written as a function: the rule cannot look inside, so a sink behind it is undecided, not violated
    for n in cfg.stmts():
        if n.kind == "stmt" and isinstance(n.ast, ast.Expr) and isinstance(n.ast.value, ast.Call) and cfg.is_reachable(n) and n not in sink_nodes:
            try:
                from .resolve import Resolver
                R = ctx.cached("resolver", lambda: Resolver(ctx))
                targets = R.resolve_call(fa.term(n.ast.value, n), fa) or []
            except Exception:
                targets = []
            raising = [g for g in targets if any(isinstance(x, (ast.Raise, ast.Assert)) for x in ast.walk(g.node))]
            if not raising:
                continue
            # one resolved checker: read its tests with the call's arguments substituted for its parameters, so that
            # the caller's path continues behind the call only under assignments that let the checker return normally
            hp = _helper_pass(ctx, fa, n, raising, forms) if len(targets) == 1 else None
            if hp is None:
                opaque_refusals.add(n.id)
            else:
                helpers[n.id] = hp
    for n in cfg.nodes:
        if n.kind == "test" and cfg.is_reachable(n):
            fm = forms.of(fa.term(n.ast, n))
            tests[n.id] = fm
            if n.id in ref_tests and any(a.startswith("?") for a in atoms_of(fm)):
                opaque_refusals.add(n.id)
    named = sorted(set(names) | {a for fm in tests.values() for a in atoms_of(fm) if not a.startswith("?")} |
                   {a for c in constraints for a in atoms_of(c)} |
                   {a for hp in helpers.values() for fm in hp[2].values() for a in atoms_of(fm) if not a.startswith("?")})
    if len(named) > 14:
        for s in sink_nodes:
            ctx.unknown(rule, f, what, "too many atoms", node=s.ast, engine=engine)
        return
    src = start or cfg.entry
    for s in sink_nodes:
        if not cfg.can_reach(src, [s]):
            continue
        verdict, wit = True, None
        for vals in itertools.product([False, True], repeat=len(named)):
            A = _Partial(zip(named, vals))
            if any(ev(c, A) is False for c in constraints):
                continue
            if required(A):
                continue
            r1 = _feasible_reach(cfg, src, s, tests, A, avoid=(), helpers=helpers, strict=False)
            if not r1:
                continue
            # guards inside the statement (a and b, a or b, x if c else y, comprehension filters)
            loc = _local_guard(fa, s, sink_asts.get(s.id), forms, A)
            if loc is False:
                continue
            if loc is None:
                verdict, wit = None, dict(A)
                continue
            r2 = _feasible_reach(cfg, src, s, tests, A, avoid=opaque_refusals, helpers=helpers, strict=True)
            if r2:
                verdict, wit = False, dict(A)
                break
            verdict, wit = None, dict(A)
        node = s.ast if s.ast is not None else None
        if verdict is True:
            ctx.holds(rule, f, what, node=node, engine=engine)
        elif verdict is False:
            w = ", ".join("%s=%s" % kv for kv in sorted(wit.items()) if kv[0] in names) if wit else ""
            ctx.violated(rule, f, what, "the construct at line %s is reachable with %s%s" % (
                s.lineno, w or "the refusal condition false", (" (" + describe + ")") if describe else ""),
                node=node, engine=engine)
        else:
            ctx.unknown(rule, f, what, "depends on a refusal the rule does not recognise", node=node, engine=engine)


def _expr_path(root, target):
    """list of (ancestor, child) pairs from root down to target"""
    path = []

    def rec(n):
        if n is target:
            return True
        for c in ast.iter_child_nodes(n):
            if rec(c):
                path.append((n, c))
                return True
        return False
    return list(reversed(path)) if rec(root) else None


def _local_guard(fa, s, targets, forms, A):
    """are the sink expressions inside statement s evaluated under assignment A?  True: at least one certainly may be;
    False: every one of them sits behind a short-circuit / conditional guard that A makes false; None: a guard the
    rule cannot interpret decides"""
    if not targets or s.ast is None:
        return True
    verdicts = []
    for tg in targets:
        path = _expr_path(s.ast, tg)
        if path is None:
            verdicts.append(True)
            continue
        local = []
        for anc, child in path:
            if isinstance(anc, ast.BoolOp):
                i = anc.values.index(child) if child in anc.values else 0
                for prev in anc.values[:i]:
                    local.append((prev, isinstance(anc.op, ast.And)))
            elif isinstance(anc, ast.IfExp) and child is not anc.test:
                local.append((anc.test, child is anc.body))
            elif isinstance(anc, (ast.GeneratorExp, ast.ListComp, ast.SetComp)) and child is anc.elt:
                for g in anc.generators:
                    for c in g.ifs:
                        local.append((c, True))
        v = True
        for e, truth in local:
            out = []
            _split_fact(fa.term(e, s), truth, s, out)
            for t, tr, _ in out:
                r = ev(forms.of(t), A)
                if r is None:
                    if any(a.startswith("?") for a in atoms_of(forms.of(t))):
                        v = None if v is True else v
                elif r != tr:
                    v = False
        verdicts.append(v)
    if any(v is True for v in verdicts):
        return True
    if any(v is None for v in verdicts):
        return None
    return False


class _Partial(dict):
    def __missing__(self, k):
        return None


def _helper_pass(ctx, fa, n, targets, forms):
    """(callee cfg, callee exit, {test id: formula}, opaque refusal ids) for the checker called at statement n, with the
    callee's parameters replaced by the argument terms of the call; None when the call cannot be bound"""
    from .terms import subst
    g = targets[0]
    call = fa.term(n.ast.value, n)
    if call.k != "call":
        return None
    ga = ctx.fa(g)
    params = list(g.params)
    mapping = {}
    args = list(call.a[1])
    if g.cls is not None and not g.is_staticmethod and params and call.a[0].k == "attr":
        mapping[params[0]] = call.a[0].a[0]
        params = params[1:]
    if any(a.k == "star" for a in args):
        return None
    for p_, a in zip(params, args):
        mapping[p_] = a
    for k_, v in call.a[2]:
        if k_ in g.params:
            mapping[k_] = v
    gtests, gopaque = {}, set()
    gref = {t.id for t, _ in refusals(ga)}
    for m in ga.cfg.nodes:
        if m.kind == "test" and ga.cfg.is_reachable(m):
            fm = forms.of(subst(ga.term(m.ast, m), mapping))
            gtests[m.id] = fm
            if m.id in gref and any(a.startswith("?") for a in atoms_of(fm)):
                gopaque.add(m.id)
    return (ga.cfg, ga.cfg.exit, gtests, gopaque)


def _feasible_reach(cfg, src, sink, tests, A, avoid, helpers=None, strict=False):
    seen = set()
    stack = [src]
    while stack:
        n = stack.pop()
        if n.id in seen:
            continue
        seen.add(n.id)
        if n is sink:
            return True
        if n.id in avoid and n is not src:
            continue
        if helpers and n.id in helpers and n is not src:
            gcfg, gexit, gtests, gopaque = helpers[n.id]
            # can the checker return normally under A?  (strict: not through a refusal it cannot interpret)
            if not _feasible_reach(gcfg, gcfg.entry, gexit, gtests, A, avoid=gopaque if strict else ()):
                continue
        if n.kind == "test" and n.id in tests:
            v = ev(tests[n.id], A)
            for e in n.succ:
                if e.kind == "edge" and v is not None and e.info[1] != v:
                    continue
                stack.append(e)
            continue
        stack.extend(n.succ)
    return False


# ---------------------------------------------------------------------------
# dtype-class feasibility

def dtype_truth(t, is_subject):
    """set of dtype kinds for which condition t is true, or None when t is not a dtype condition on the
    subject.  is_subject(term) recognises the dtype being tested (x.dtype, x itself for issubdtype(x, K))"""
    ALL = set(npkb.DTYPE_KINDS)
    if t.k == "bool":
        parts = [dtype_truth(x, is_subject) for x in t.a[1]]
        if any(p is None for p in parts):
            return None
        r = parts[0]
        for p in parts[1:]:
            r = (r & p) if t.a[0] == "and" else (r | p)
        return r
    if t.k == "un" and t.a[0] == "not":
        p = dtype_truth(t.a[1], is_subject)
        return None if p is None else ALL - p
    if t.k == "call":
        c = attr_chain(t.a[0])
        if c and c[-1] == "issubdtype" and len(t.a[1]) == 2 and is_subject(t.a[1][0]):
            k = _dtype_name(t.a[1][1])
            if k in npkb.ISSUBDTYPE:
                return set(npkb.ISSUBDTYPE[k])
        return None
    if t.k == "cmp" and t.a[0] in ("==", "!=", "in", "not in"):
        # <subject>.dtype.kind == "f" / in "iub" / in ("i", "u")
        l, r = t.a[1], t.a[2]
        if t.a[0] in ("==", "!=") and r.k == "attr" and r.a[1] == "kind":
            l, r = r, l
        if l.k == "attr" and l.a[1] == "kind" and is_subject(l.a[0]):
            letters = None
            if r.k == "const" and isinstance(r.a[0], str):
                letters = set(r.a[0]) if t.a[0] in ("in", "not in") else {r.a[0]}
            elif r.k in ("tuple", "list", "set") and all(x.k == "const" and isinstance(x.a[0], str) for x in r.a[0]):
                letters = {x.a[0] for x in r.a[0]}
            if letters is not None:
                km = {"b": "bool", "i": "signed", "u": "unsigned", "f": "floating"}
                s = {km[c] for c in letters if c in km}
                return s if t.a[0] in ("==", "in") else ALL - s
    if t.k == "cmp" and t.a[0] in ("==", "!=", "is", "is not"):
        l, r = t.a[1], t.a[2]
        if is_subject(r):
            l, r = r, l
        if is_subject(l):
            k = _dtype_name(r)
            if k in npkb.ISSUBDTYPE and k not in ("integer", "number", "generic", "inexact", "signedinteger", "unsignedinteger", "floating"):
                s = set(npkb.ISSUBDTYPE[k])
                # equality with one concrete dtype: true for *some* members of the kind only -> not decidable per kind
                # except bool, which is a single dtype
                if k in ("bool", "bool_"):
                    return s if t.a[0] in ("==", "is") else ALL - s
        return None
    return None


def _dtype_name(t):
    if t.k == "global":
        return t.a[0]
    c = attr_chain(t)
    if c:
        return c[-1]
    if t.k == "const" and isinstance(t.a[0], str):
        return t.a[0]
    return None


def reachable_under(fa, kind, is_subject, start=None, avoid=(), assume=None):
    """CFG nodes reachable when the subject's dtype is of `kind`: dtype tests are followed only along their
    feasible edge; every other test along both.  assume(term) -> True / False / None fixes the outcome of
    further atoms (and / or / not over dtype tests and assumed atoms are evaluated three-valued)"""
    cfg = fa.cfg
    seen = set()
    av = set(n.id for n in avoid)
    stack = [start or cfg.entry]
    while stack:
        n = stack.pop()
        if n.id in seen or n.id in av:
            continue
        seen.add(n.id)
        if n.kind == "test":
            tr = dtype_truth(fa.term(n.ast, n), is_subject)
            if tr is None and assume is not None:
                v = _truth3(fa.term(n.ast, n), kind, is_subject, assume)
                tr = None if v is None else ({kind} if v else set())
            if tr is not None:
                want = kind in tr
                for e in n.succ:
                    if e.kind == "edge" and e.info[1] == want:
                        stack.append(e)
                    elif e.kind != "edge":
                        stack.append(e)
                continue
        stack.extend(n.succ)
    return seen


def _truth3(t, kind, is_subject, assume):
    tr = dtype_truth(t, is_subject)
    if tr is not None:
        return kind in tr
    v = assume(t)
    if v is not None:
        return v
    if t.k == "un" and t.a[0] == "not":
        v = _truth3(t.a[1], kind, is_subject, assume)
        return None if v is None else not v
    if t.k == "bool":
        vs = [_truth3(x, kind, is_subject, assume) for x in t.a[1]]
        if t.a[0] == "and":
            return False if any(v is False for v in vs) else (True if all(v is True for v in vs) else None)
        return True if any(v is True for v in vs) else (False if all(v is False for v in vs) else None)
    return None


def subject_dtype_of(*names):
    """is_subject for `<name>.dtype` (or `<name>` itself, as numpy accepts arrays in issubdtype) for given
    parameter / attribute chains like 'self', 'values'"""
    want = set(names)

    def strip(a):
        # the dtype of x.ravel() / x.flatten() / x.copy() / np.asarray(x) is the dtype of x
        if a.k == "attr" and a.a[1] == "dtype":
            b = a.a[0]
            for _ in range(4):
                if b.k == "call" and b.a[0].k == "attr" and b.a[0].a[1] in ("ravel", "flatten", "copy") and not b.a[1]:
                    b = b.a[0].a[0]
                elif b.k == "call" and np_call(b, {"asarray", "asanyarray", "ravel"}) and len(b.a[1]) == 1 and not b.a[2]:
                    b = b.a[1][0]
                else:
                    break
            if b is not a.a[0] and len(alts(b)) == 1:
                return T("attr", (b, "dtype"), a.node)
        return a

    def f(t):
        for a in alts(t):
            a = strip(a)
            c = attr_chain(a)
            if c is None:
                return False
            s = ".".join(c)
            if s in want or (s.endswith(".dtype") and s[:-6] in want):
                continue
            return False
        return True
    return f


# ---------------------------------------------------------------------------
# misc path helpers

def stmt_nodes(fa, pred):
    return [n for n in fa.cfg.stmts() if pred(n)]


def calls_in_node(fa, n):
    """[(call term, ast.Call)] for all calls evaluated by CFG node n"""
    from .resolve import _exprs_of_node
    out = []
    for e in _exprs_of_node(n):
        tm = fa.term(e, n)
        for sub in walk(tm):
            if sub.k == "call":
                out.append(sub)
    return out


def find_calls(fa, pred):
    """[(cfg node, call term)] of reachable calls satisfying pred(call term)"""
    out = []
    seen = set()
    for n in fa.cfg.stmts():
        for c in calls_in_node(fa, n):
            if id(c.node) in seen:
                continue
            if pred(c):
                seen.add(id(c.node))
                out.append((n, c))
    return out


def order_atoms(prefix, is_lhs, is_rhs):
    """matcher + constraints for comparisons between a recognised left and right operand class:
    atoms <prefix>.eq / .gt / .lt (lhs relative to rhs), exactly one of which holds"""
    E, G, L = prefix + ".eq", prefix + ".gt", prefix + ".lt"

    def m(t):
        if t.k != "cmp" or t.a[0] not in ("==", "!=", "<", "<=", ">", ">="):
            return None
        op, l, r = t.a
        # (a - b) <op> 0  is  a <op> b
        if l.k == "bin" and l.a[0] == "-" and r.k == "const" and r.a[0] == 0 and len(l.a) >= 3:
            l, r = l.a[1], l.a[2]
        if is_lhs(l) and is_rhs(r):
            pass
        elif is_lhs(r) and is_rhs(l):
            op = {"<": ">", ">": "<", "<=": ">=", ">=": "<="}.get(op, op)
        else:
            return None
        return {"==": (E, True), "!=": (E, False), ">": (G, True), "<": (L, True),
                ">=": (L, False), "<=": (G, False)}[op]
    cons = [("or", [("atom", E), ("atom", G), ("atom", L)]),
            ("not", ("and", [("atom", E), ("atom", G)])),
            ("not", ("and", [("atom", E), ("atom", L)])),
            ("not", ("and", [("atom", G), ("atom", L)]))]
    return m, cons, (E, G, L)


def is_len_of(pred):
    """term is len(x) or x.size / x.shape[0] with pred(x)"""
    def f(t):
        if t.k == "call" and t.a[0].k == "global" and t.a[0].a[0] == "len" and len(t.a[1]) == 1:
            return pred(t.a[1][0])
        if t.k == "attr" and t.a[1] == "size":
            return pred(t.a[0])
        return False
    return f


def aggregate_only(t):
    """a condition built only from scalars (len(), .size, .n_rows, constants, single elements x[0]): finitely many
    scalars cannot establish an element-wise / per-row relation over all rows"""
    if t.k == "cmp":
        return _aggregate(t.a[1]) and _aggregate(t.a[2])
    if t.k == "bool":
        return all(aggregate_only(x) for x in t.a[1])
    if t.k == "un" and t.a[0] == "not":
        return aggregate_only(t.a[1])
    return False


def _aggregate(t):
    if t.k == "const":
        return True
    if t.k == "call" and t.a[0].k == "global" and t.a[0].a[0] in ("len", "int"):
        return True
    if t.k == "attr" and t.a[1] in ("size", "n_rows", "ndim"):
        return True
    if t.k == "bin":
        return _aggregate(t.a[1]) and _aggregate(t.a[2])
    if t.k == "sub" and t.a[1].k == "const" and isinstance(t.a[1].a[0], int):
        return True            # one element of an array is a scalar too: it says nothing about the other elements
    if t.k == "sub" and t.a[1].k == "un" and t.a[1].a[1].k == "const":
        return True
    return False


def _strip_opaque(f):
    """replace opaque atoms by 'free' (unconstrained) inside a formula; None when nothing named remains"""
    if f[0] == "atom":
        return ("free", None) if f[1].startswith("?") else f
    if f[0] == "not":
        x = _strip_opaque(f[1])
        return None if x is None else ("not", x)
    if f[0] in ("and", "or"):
        xs = [_strip_opaque(x) or ("free", None) for x in f[1]]
        if all(x[0] == "free" for x in xs):
            return None
        return (f[0], xs)
    return f


def mentions_param(t, names):
    return any(x.k == "param" and x.a[0] in names for x in walk(t))


def irrelevant_unless(pred):
    """irrelevance test for Formulas: a condition is irrelevant to the rule when it is aggregate-only or does
    not mention the guarded subject at all (pred(term) false)"""
    def f(t):
        return aggregate_only(t) or not pred(t)
    return f
