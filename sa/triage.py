"""Suppressions: one named construct wide, each with a reason; printed in the evidence of every run that uses them."""

# W0b call edges that are outside every property
CALL_EDGES = {
    ("hashtable.zeros_like", "hashtable.HashSet.__init__"):
        "np.zeros_like of a HashSet: a HashSet stores no values, zeros_like/ones_like are defined for HashTable/Counter (C11 names HashTable); "
        "the edge exists only because hash_table.__class__ is resolved to every subclass",
    ("hashtable.ones_like", "hashtable.HashSet.__init__"):
        "np.ones_like of a HashSet: see zeros_like",
}
