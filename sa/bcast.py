"""Rules for the row-broadcast machinery of RaggedShape (shared by C03 and C04)."""
import ast
from .terms import T, alts, attr_chain, walk, is_const, np_call, call_name
from .guards import Formulas, check_guard, find_calls, facts_at
from . import npkb

RS = "raggedshape.RaggedShape."


def width_table(ctx, tk, rule):
    """C04.d: the itemsize -> unsigned dtype table of _raw_broadcast"""
    f = ctx.func(RS + "_raw_broadcast")
    fa = ctx.fa(f)
    table = None
    tnode = None
    for n in fa.cfg.stmts():
        if n.kind == "stmt" and isinstance(n.ast, ast.Assign) and isinstance(n.ast.value, ast.Dict):
            d = n.ast.value
            if all(isinstance(k, ast.Constant) and isinstance(k.value, int) for k in d.keys):
                table, tnode = d, n
    what = "each entry k -> T of the bit-reinterpretation table is an unsigned dtype of exactly k bytes"
    if table is None:
        ctx.unknown(rule, f, what, "width table not found", engine="E6")
        return
    bad = []
    keys = set()
    for k, v in zip(table.keys, table.values):
        name = v.attr if isinstance(v, ast.Attribute) else (v.value if isinstance(v, ast.Constant) else (v.id if isinstance(v, ast.Name) else None))
        keys.add(k.value)
        if name not in npkb.ITEMSIZE:
            continue
        if npkb.ITEMSIZE[name] != k.value:
            bad.append("%d -> %s (itemsize %d)" % (k.value, name, npkb.ITEMSIZE[name]))
        elif name not in npkb.UNSIGNED:
            bad.append("%d -> %s (not an unsigned integer type: XOR is not defined bit-wise on it)" % (k.value, name))
    ctx.decide(rule, f, what, not bad, "; ".join(bad), node=table, key="table-entries", engine="E6")
    missing = sorted({1, 2, 4, 8} - keys)
    ctx.decide(rule, f, "the table covers the item sizes 1, 2, 4 and 8 of the supported dtypes", not missing,
               "missing item sizes %s" % missing, node=table, key="table-keys", engine="E6")
    # the values are reinterpreted through the table keyed by their own itemsize, and viewed back as the original dtype
    vp = f.params[1]
    reint = None
    for n in fa.cfg.stmts():
        if n.kind == "stmt" and isinstance(n.ast, ast.Assign):
            tm = fa.term(n.ast.value, n)
            if tm.k == "call" and tm.a[0].k == "attr" and tm.a[0].a[1] == "view" and tm.a[1] and tm.a[1][0].k == "sub":
                idx = tm.a[1][0].a[1]
                reint = (tm, n)
                ok = idx.k == "attr" and idx.a[1] == "itemsize" and any(x.k == "param" and x.a[0] == vp for x in walk(idx))
                ctx.decide(rule, f, "values are reinterpreted with the table entry of their own itemsize", True if ok else None,
                           node=n.ast, key="reinterpret", engine="E6")
    for r in fa.cfg.returns():
        tm = fa.term(r.ast.value, r)
        ok = None
        if tm.k == "call" and tm.a[0].k == "attr" and tm.a[0].a[1] == "view" and tm.a[1]:
            d = tm.a[1][0]
            ok = d.k == "attr" and d.a[1] == "dtype" and d.a[0].k == "param" and d.a[0].a[0] == vp
        elif not any(x.k == "call" and x.a[0].k == "attr" and x.a[0].a[1] == "view" for x in walk(tm)) and reint is not None:
            ok = False
            # a buffer allocated in the values' own dtype (filled through an unsigned view of it) needs no reinterpretation
            base = tm
            while base.k in ("sub", "upd"):
                base = base.a[0]
            if np_call(base, {"zeros", "empty", "zeros_like", "empty_like"}):
                d = dict(base.a[2]).get("dtype")
                if d is not None and d.k == "attr" and d.a[1] == "dtype" and d.a[0].k == "param" and d.a[0].a[0] == vp:
                    ok = True
                elif np_call(base, {"zeros_like", "empty_like"}) and d is None and base.a[1] and base.a[1][0].k == "param" and base.a[1][0].a[0] == vp:
                    ok = True
        ctx.decide(rule, f, "the broadcast result is viewed back as the values' original dtype", ok,
                   "the unsigned bit pattern is returned without reinterpretation as the original dtype", node=r.ast, key="view-back", engine="E6")


def xor_scatter(ctx, tk, rule):
    """C04.e: with buffered ^= at indices that can repeat (empty rows share boundaries) the `ends` scatter runs
    in reversed row order, the `starts` scatter in forward order, values reversed in step; entry 0 is reset
    between them (a leading empty row has end 0)"""
    f = ctx.func(RS + "_raw_broadcast")
    fa = ctx.fa(f)
    selfn = f.params[0]
    ends_s = starts_s = reset = None
    for n in fa.cfg.stmts():
        st = n.ast
        if n.kind != "stmt":
            continue
        if isinstance(st, ast.AugAssign) and isinstance(st.op, ast.BitXor) and isinstance(st.target, ast.Subscript):
            idx = fa.term(st.target.slice, n)
            val = fa.term(st.value, n)
            base, rev = _strip_rev(idx)
            c = attr_chain(base)
            if c == (selfn, "ends"):
                ends_s = (n, rev, _strip_rev(val)[1])
            elif c == (selfn, "starts"):
                starts_s = (n, rev, _strip_rev(val)[1])
        if isinstance(st, ast.Assign) and isinstance(st.targets[0], ast.Subscript) and isinstance(st.targets[0].slice, ast.Constant) \
                and st.targets[0].slice.value == 0 and isinstance(st.value, ast.Constant) and st.value.value == 0:
            reset = n
    what = "the XOR scatter at row ends runs in reversed row order with reversed values; at row starts in forward order"
    if ends_s is None or starts_s is None:
        ctx.unknown(rule, f, what, "XOR scatter statements not recognised", engine="KB")
        return
    ok = ends_s[1] and ends_s[2] and (not starts_s[1]) and (not starts_s[2])
    detail = []
    if not ends_s[1] or not ends_s[2]:
        detail.append("ends scatter: index reversed=%s, values reversed=%s (both must be reversed: for rows sharing an end the first row's value must win)" % (ends_s[1], ends_s[2]))
    if starts_s[1] or starts_s[2]:
        detail.append("starts scatter: index reversed=%s, values reversed=%s (must be forward: the last row sharing a start owns the cells)" % (starts_s[1], starts_s[2]))
    ctx.decide(rule, f, what, ok, "; ".join(detail), node=ends_s[0].ast, key="co-reversal", engine="KB")
    whatr = "entry 0 of the builder is reset between the ends scatter and the starts scatter (a leading empty row ends at 0)"
    if reset is None:
        ctx.violated(rule, f, whatr, "no `builder[0] = 0` between the two scatters: the value of a leading empty row is XOR-ed into every later row",
                     node=starts_s[0].ast, key="reset", engine="E1")
    else:
        order_ok = fa.cfg.must_pass([reset], starts_s[0], start=ends_s[0]) and fa.cfg.can_reach(ends_s[0], [starts_s[0]])
        ctx.decide(rule, f, whatr, True if order_ok else False, "the reset is not on every path from the ends scatter to the starts scatter",
                   node=reset.ast, key="reset", engine="E1")
    # builder extent size+1, result drops the extra entry, accumulation is xor
    for n in fa.cfg.stmts():
        if n.kind == "stmt" and isinstance(n.ast, ast.Assign):
            tm = fa.term(n.ast.value, n)
            if np_call(tm, {"zeros"}) and tm.a[1]:
                ext = tm.a[1][0]
                if any(attr_chain(x) == (selfn, "size") for x in walk(ext)):
                    ok = ext.k == "bin" and ext.a[0] == "+" and is_const(ext.a[2], 1)
                    ctx.decide(rule, f, "the XOR builder has size+1 entries (row ends of trailing rows equal size)", ok, "extent %s" % (ext,),
                               node=n.ast, key="extent", engine="E5")
    for r in fa.cfg.returns():
        tm = fa.term(r.ast.value, r)
        acc = [x for x in walk(tm) if x.k == "call" and any(y.k == "attr" and y.a[1] == "accumulate" for y in alts(x.a[0]))]
        if acc:
            fnc = acc[0].a[0]
            names = set()
            for y in alts(fnc):
                c = attr_chain(y)
                if c:
                    names.add(c[-2] if len(c) >= 2 else "?")
            ctx.decide(rule, f, "the scattered differences are integrated by a prefix XOR", names == {"bitwise_xor"},
                       "accumulation uses %s" % sorted(names), node=r.ast, key="accumulate", engine="E6")
            arg = acc[0].a[1][0] if acc[0].a[1] else None
            if arg is not None:
                ok = arg.k == "sub" and arg.a[1].k == "slice" and is_const(arg.a[1].a[0], None) and is_const(arg.a[1].a[1], -1)
                ctx.decide(rule, f, "the extra builder entry is dropped before integration", True if ok else None, node=r.ast, key="drop-last", engine="E5")


def _strip_rev(t):
    """(term without a trailing [::-1], was_reversed)"""
    if t.k == "sub" and t.a[1].k == "slice" and is_const(t.a[1].a[0], None) and is_const(t.a[1].a[1], None) and is_const(t.a[1].a[2], -1):
        return t.a[0], True
    return t, False


def column_guard(ctx, tk, rule):
    """C04.f: broadcast_values refuses unless values.shape == (n_rows, 1); fast path only under empty_rows_removed()"""
    f = ctx.func(RS + "broadcast_values")
    fa = ctx.fa(f)
    selfn = f.params[0]
    sinks = [(n, c) for n, c in find_calls(fa, lambda c: c.a[0].k == "attr" and c.a[0].a[1] in ("_raw_broadcast", "_broadcast_values_fast"))]
    what = "values are broadcast over rows only after refusing unless their shape is (n_rows, 1)"

    def m(t):
        if t.k == "cmp" and t.a[0] in ("==", "!="):
            for l, r in ((t.a[1], t.a[2]), (t.a[2], t.a[1])):
                if l.k == "attr" and l.a[1] == "shape" and r.k == "tuple" and len(r.a[0]) == 2:
                    a, b = r.a[0]
                    if attr_chain(a) == (selfn, "n_rows") and is_const(b, 1):
                        return ("column_shape", t.a[0] == "==")
                    if attr_chain(b) == (selfn, "n_rows") and is_const(a, 1):
                        return ("row_shape", t.a[0] == "==")
        return None
    check_guard(ctx, rule, f, sinks, Formulas([m]), lambda A: A["column_shape"], ["column_shape"], what, fa=fa,
                describe="a value array of another shape would be spread over the rows")
    fast = [n for n, c in find_calls(fa, lambda c: c.a[0].k == "attr" and c.a[0].a[1] == "_broadcast_values_fast")]

    def e(t):
        if t.k == "call" and t.a[0].k == "attr" and t.a[0].a[1] == "empty_rows_removed" and attr_chain(t.a[0].a[0]) == (selfn,):
            return ("empty_rows_removed", True)
        return None
    if fast:
        check_guard(ctx, rule, f, fast, Formulas([e]), lambda A: A["empty_rows_removed"], ["empty_rows_removed"],
                    "the difference-scatter fast path (which needs distinct row starts) is entered only when the geometry is known to have no empty rows",
                    fa=fa, describe="with empty rows two rows share a start and the plain scatter loses a value")


def flat_result(ctx, tk, rule):
    """RaggedShape.broadcast_values hands back the flat data buffer of the result: every return is 1-D.  A return of
    the (possibly (1, 1)-shaped) column vector itself keeps its rank; the function compares `values.shape` with a
    2-tuple, so a 2-D operand does reach it."""
    f = ctx.func("raggedshape.RaggedShape.broadcast_values")
    fa = ctx.fa(f)
    vp = f.params[1]
    two_d = any(isinstance(x, ast.Compare) and any(isinstance(y, ast.Attribute) and y.attr == "shape" for y in ast.walk(x.left))
                and any(isinstance(c, ast.Tuple) and len(c.elts) == 2 for c in x.comparators) for x in ast.walk(f.node))
    what = "the broadcast column vector is returned as a flat (1-D) buffer on every path"
    for r in fa.cfg.returns():
        tm = fa.term(r.ast.value, r)
        verdicts = []
        for a in alts(tm):
            if a.k == "call" and a.a[0].k == "attr" and a.a[0].a[1] in ("ravel", "flatten"):
                verdicts.append(True)
            elif a.k == "call" and a.a[0].k == "attr" and a.a[0].a[1] == "reshape" and a.a[1] and is_const(a.a[1][0], -1) and len(a.a[1]) == 1:
                verdicts.append(True)
            elif a.k == "call" and a.a[0].k == "attr" and a.a[0].a[1] in ("_broadcast_values_fast", "_raw_broadcast"):
                verdicts.append(True)
            else:
                # the operand itself (through asanyarray / astype, which keep the rank)
                core = a
                while core.k == "call" and (np_call(core, {"asanyarray", "asarray", "array"}) or (core.a[0].k == "attr" and core.a[0].a[1] == "astype")):
                    core = core.a[1][0] if np_call(core, {"asanyarray", "asarray", "array"}) else core.a[0].a[0]
                verdicts.append(False if (core.k == "param" and core.a[0] == vp and two_d) else None)
        ok = False if False in verdicts else (True if all(v is True for v in verdicts) else None)
        ctx.decide(rule, f, what, ok, "`%s` returns the operand with its own rank: a (1, 1) column vector on a one-row array becomes a 2-D data buffer" % ast.unparse(r.ast),
                   node=r.ast, key="rank:%d" % r.lineno if hasattr(r, "lineno") else None, engine="E5")
