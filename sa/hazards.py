"""Hazard rules from the numpy knowledge base (DESIGN 3.2 'hazards'): constructs whose documented
numpy semantics silently differ from what the surrounding code needs.  Each is a deviance rule: it only
speaks when the hazardous shape is present, and a site is a violation only when nothing licenses it.

H1  buffered in-place update through an integer-array index:  x[I] op= v  applies once per *distinct*
    index; with repeated indices contributions are lost (numpy docs: "Assigning values to indexed arrays").
H2  np.argmax(mask) returns 0 for an all-False mask: used as "position of the match" it needs a
    dominating existence check.
H3  change detection by arithmetic difference (np.diff(x) != 0 / > 0) instead of comparison: wrong for
    unsigned wrap-around, signed overflow, inf - inf and NaN.
H4  ndarray.take / np.take / np.put treat a boolean index as integers 0/1.
H5  np.append / np.concatenate / np.insert with a Python int list operand promote by value kind
    (uint64 + [0] -> float64).
"""
import ast
from .terms import T, alts, walk, attr_chain, np_call, is_const, call_name
from . import npkb
from .guards import facts_at, find_calls


def unique_by_construction(t):
    """index terms whose elements are pairwise distinct by construction"""
    for a in alts(t):
        if np_call(a, {"flatnonzero", "arange", "unique", "argsort", "lexsort"}):
            continue
        if a.k == "item" and a.a[0].k == "call" and np_call(a.a[0], {"nonzero", "where"}):
            # one axis of nonzero() alone is not unique
            return False
        if a.k == "const" or a.k == "slice":
            continue
        if a.k == "sub" and unique_by_construction(a.a[0]) and (a.a[1].k == "slice"):
            continue
        return False
    return True


def is_mask_or_basic(t, fa, R):
    k = npkb.index_kind(t)
    if k in ("basic",):
        return True
    for a in alts(t):
        if a.k == "cmp" or (a.k == "un" and a.a[0] == "~"):
            continue
        if a.k == "bin" and a.a[0] in ("&", "|") :
            continue
        if a.k in ("slice",) or (a.k == "const"):
            continue
        if a.k == "tuple" and all(is_mask_or_basic(x, fa, R) for x in a.a[0]):
            continue
        return False
    return True


def h1_buffered_updates(ctx, tk, rule, funcs, licensed=()):
    """licensed: set of function quals whose repeated-index updates are decided by a dedicated rule"""
    for f in funcs:
        if f.qual in licensed:
            continue
        fa = ctx.fa(f)
        for n in fa.cfg.stmts():
            st = n.ast
            if n.kind == "stmt" and isinstance(st, ast.AugAssign) and isinstance(st.target, ast.Subscript):
                idx = fa.term(st.target.slice, n)
                what = "an in-place update through an index array is only used when the indices cannot repeat"
                if is_mask_or_basic(idx, fa, tk.R):
                    continue
                if unique_by_construction(idx):
                    ctx.holds(rule, f, what, node=st, engine="KB")
                    continue
                tt = tk.R.typeof(fa.term(st.target.value, n), fa)
                if tt and tt[0] == "inst":
                    continue        # __setitem__ of a repo class, not a numpy buffered update
                ctx.violated(rule, f, what,
                             "`%s` is a buffered update: every distinct index is updated once, repeated indices "
                             "(e.g. the same key hit twice in one batch, rows sharing a boundary) lose contributions; "
                             "use np.bincount / ufunc.at" % ast.unparse(st), node=st, engine="KB")


def h2_argmax_of_mask(ctx, tk, rule, funcs):
    for f in funcs:
        fa = ctx.fa(f)
        for n, c in find_calls(fa, lambda c: np_call(c, {"argmax", "argmin"}) or (c.a[0].k == "attr" and c.a[0].a[1] in ("argmax",) and not c.a[1])):
            arg = c.a[1][0] if c.a[1] else c.a[0].a[0]
            if not any(a.k == "cmp" for a in alts(arg)):
                continue
            what = "np.argmax of a match mask is only used as 'position of the match' under an existence check"
            guarded = False
            for t, truth, _ in facts_at(fa, n):
                for x in walk(t):
                    if x.k == "call" and (np_call(x, {"any", "count_nonzero", "sum"}) or call_name(x) == "any") and x.a[1] \
                            and any(y == arg for y in walk(x.a[1][0])):
                        guarded = True
            ctx.decide(rule, f, what, True if guarded else False,
                       "np.argmax(%s) is 0 when nothing matches: an absent key resolves to the first candidate" % (arg,),
                       node=c.node, engine="KB")


def h3_diff_as_comparison(ctx, tk, rule, funcs):
    for f in funcs:
        fa = ctx.fa(f)
        seen = set()
        for n in fa.cfg.stmts():
            for e in _exprs(n):
                tm = fa.term(e, n)
                for x in walk(tm):
                    if x.k == "cmp" and x.a[0] in ("!=", "==", ">", "<") and id(x.node) not in seen:
                        for side, other in ((x.a[1], x.a[2]), (x.a[2], x.a[1])):
                            if np_call(side, {"diff", "ediff1d"}) and is_const(other, 0):
                                seen.add(id(x.node))
                                ctx.violated(rule, f, "neighbouring elements are compared with == / !=, not through their arithmetic difference",
                                             "`%s`: the difference wraps for unsigned values, overflows for extreme signed values and is NaN "
                                             "for inf - inf, so equal/unequal neighbours are misclassified" % (x,), node=x.node, engine="KB")


def h4_take_with_unknown_index(ctx, tk, rule, funcs):
    for f in funcs:
        fa = ctx.fa(f)
        for n, c in find_calls(fa, lambda c: (c.a[0].k == "attr" and c.a[0].a[1] in ("take", "put")) or np_call(c, {"take", "put"})):
            idx = c.a[1][0] if c.a[0].k == "attr" and not np_call(c, {"take", "put"}) else (c.a[1][1] if len(c.a[1]) > 1 else None)
            if idx is None:
                continue
            caller_controlled = any(a.k == "param" for a in alts(idx))
            what = "a row selector that may be a boolean mask is applied by subscripting, not by take()"
            if caller_controlled:
                ctx.violated(rule, f, what, "`%s`: take() casts a boolean mask to the integers 0/1 and selects rows 0 and 1 repeatedly" % (c,),
                             node=c.node, engine="KB")


def h5_python_list_promotion(ctx, tk, rule, funcs):
    for f in funcs:
        fa = ctx.fa(f)
        for n, c in find_calls(fa, lambda c: np_call(c, {"append", "concatenate", "hstack", "insert"})):
            nm = np_call(c, {"append", "concatenate", "hstack", "insert"})
            ops = []
            if nm == "append" and len(c.a[1]) >= 2:
                ops = [c.a[1][0], c.a[1][1]]
            elif nm == "insert" and len(c.a[1]) >= 3:
                ops = [c.a[1][0], c.a[1][2]]
            elif c.a[1] and c.a[1][0].k in ("tuple", "list"):
                ops = list(c.a[1][0].a[0])
            arrays = [o for o in ops if any(a.k == "param" for a in alts(o))]
            lists = [o for o in ops if _is_int_list(o)]
            if arrays and lists:
                ctx.violated(rule, f, "padding joined to a typed array carries that array's dtype",
                             "`%s` joins the array with a Python int list: numpy promotes uint64 with int to float64, "
                             "so large values are rounded" % (c,), node=c.node, engine="KB")
            elif arrays and len(ops) >= 2:
                other = [o for o in ops if o not in arrays]
                if other and all(_same_dtype_as(o, arrays[0]) for o in other):
                    ctx.holds(rule, f, "padding joined to a typed array carries that array's dtype", node=c.node, engine="KB")


def _is_int_list(t):
    for a in alts(t):
        if a.k == "list" and all(x.k == "const" and isinstance(x.a[0], int) for x in a.a[0]):
            continue
        if a.k == "bin" and a.a[0] == "*" and (_is_int_list(a.a[1]) or _is_int_list(a.a[2])):
            continue
        return False
    return True


def _same_dtype_as(o, arr):
    for a in alts(o):
        nm = np_call(a, {"zeros_like", "ones_like", "empty_like", "full_like"})
        if nm and a.a[1] and a.a[1][0] == arr and "dtype" not in dict(a.a[2]):
            continue
        nm2 = np_call(a, {"zeros", "ones", "empty", "full"})
        if nm2:
            dt = dict(a.a[2]).get("dtype")
            if dt is not None and dt.k == "attr" and dt.a[1] == "dtype" and dt.a[0] == arr:
                continue
        return False
    return True


def _exprs(n):
    from .resolve import _exprs_of_node
    return _exprs_of_node(n)
