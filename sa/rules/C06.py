"""C06 - a derived array behaves exactly like a freshly built equal array.

Decided: in every function handling RaggedArray-like objects, row geometry is only interpreted against the
buffer it describes (E2: VC1-VC4, quantified over *programs* by abstracting every chain of selections into
the two-point state {materialised, maybe-lazy-view}); view-of-view composition carries start, length and
column step with consistent units (E5); which APIs hand out storage shared with another array (E3/EF4); the
materialisation step replaces buffer, geometry and flag together.  Not decided: compounding arithmetic that
is well-typed, values.
"""
import ast
from ..terms import is_const as is_const_
from ..lib import Toolkit
from ..terms import alts, attr_chain, walk, is_const
from ..coherence import Coherence, report, report_raw_access
from .. import viewrules
from . import C10

LEVEL_TEXT = ("view-coherence typestate analysis (E2) over every function of the package that reads a RaggedArray's "
              "geometry (interprocedural entry states, Python evaluation order), unit/field-propagation rules for "
              "RaggedView2 (E5), alias-exposure analysis (E3) and a shape rule for the materialisation step; the state "
              "space of all selection chains is collapsed into a two-point lattice, so the verdict covers every program")
ASSUMPTIONS = ["RaggedArray-valued fields of HashTable (_keys, _values) hold materialised arrays (built by the table itself)",
               "numpy-dispatch handlers run after __array_function__ materialised the dispatching operand, which is their first parameter",
               "layout-independent geometry reads: lengths, n_rows, view, view_rows, col_slice, get_flat_indices, get_shape"]
MIN_OBLIGATIONS = 60


def check(ctx, tier):
    tk = Toolkit(ctx)
    coh = ctx.cached("coherence", lambda: Coherence(tk))
    report(coh, "C06.a")
    report_raw_access(coh, "C06.b")
    viewrules.column_units(ctx, tk, "C06.c")
    viewrules.step_propagation(ctx, tk, "C06.c")
    viewrules.slice_normalisation(ctx, tk, "C06.c")
    viewrules.empty_row_rule(ctx, tk, "C06.f")
    viewrules.col_slice_model(ctx, tk, "C06.f")
    viewrules.int_column_model(ctx, tk, "C06.f")
    viewrules.scalar_column_is_python_int(ctx, tk, "C06.f")
    alias_exposure(ctx, tk)
    materialisation_step(ctx, tk, coh)
    from .. import hazards as _hz, scopes as _sc
    _hz.generic(ctx, tk, "C06.z", _sc.scope(tk, "C06", depth=1))
    return {"materialising_methods": sorted(coh.ts.materialisers()),
            "entry_states": {q: sorted(v) for q, v in coh.entry.items() if v}}


def alias_exposure(ctx, tk):
    ra = ctx.program.cls("raggedarray.RaggedArray")
    what = "objects returned by an operation share no buffer with their operands (only a[...] / a[()] and the lazy selection itself do)"

    def allow_getitem(tm, fr):
        return C10_allow(tm)
    for name in ["astype", "sort", "cumsum", "__array_ufunc__", "subset", "_row_accumulate", "__getitem__"]:
        m = ra.lookup(name)
        if m is not None:
            tk.returns_fresh_field("C06.d", m, "__data", what, allow=(lambda tm, fr: C10_allow(tm) or _lazy(tm)) if name == "__getitem__" else None)
    for fq in ["arrayfunctions.concatenate", "arrayfunctions.diff", "arrayfunctions.where", "arrayfunctions.unique",
               "arrayfunctions.zeros_like", "arrayfunctions.ones_like", "raggedarray.raggedslice.ragged_slice"]:
        tk.returns_fresh_field("C06.d", ctx.func(fq), "__data", what)


def _lazy(tm):
    for a in alts(tm):
        if a.k == "call" and a.a[0].k == "attr" and a.a[0].a[1] == "_change_view":
            return "the lazy selection shares its parent's buffer by design; child writes materialise first (C06.b); the read-order dependence is C10's known finding"
    return None


def C10_allow(tm):
    for a in alts(tm):
        if a.k == "call" and a.a[1]:
            d = a.a[1][0]
            if d.k == "sub" and any(x.k == "slice" and all(is_const(y, None) for y in x.a) for x in alts(d.a[1])):
                return "a[...] / a[()] alias the whole array, as in numpy"
    return None


def _stored_term(fa, n, selfn, attr):
    """term of the value stored into self.<attr> by assignment statement n (tuple targets unpacked)"""
    from ..terms import T
    for tg in n.ast.targets:
        if isinstance(tg, ast.Attribute) and tg.attr == attr and isinstance(tg.value, ast.Name) and tg.value.id == selfn:
            return fa.term(n.ast.value, n)
        if isinstance(tg, (ast.Tuple, ast.List)):
            for i, e in enumerate(tg.elts):
                if isinstance(e, ast.Attribute) and e.attr == attr and isinstance(e.value, ast.Name) and e.value.id == selfn:
                    if isinstance(n.ast.value, (ast.Tuple, ast.List)) and len(n.ast.value.elts) == len(tg.elts):
                        return fa.term(n.ast.value.elts[i], n)
                    return T("item", (fa.term(n.ast.value, n), i), n.ast.value)
    return fa.term(n.ast.value, n)


def materialisation_step(ctx, tk, coh):
    # the function that replaces buffer, geometry and flag is found by what it does, not by its name (it may have been
    # inlined into ravel() or delegate the gather to a helper)
    cores = coh.ts.core_materialisers()
    if not cores:
        from ..model import AnalysisError
        raise AnalysisError("no function of the RaggedBase hierarchy stores buffer, geometry and contiguity flag (materialisation step not found)")
    f = cores[0]
    fa = ctx.fa(f)
    selfn = f.params[0]
    stores = {}
    for n in fa.cfg.stmts():
        if n.kind == "stmt" and isinstance(n.ast, ast.Assign):
            tgs = []
            for tg in n.ast.targets:
                tgs += list(tg.elts) if isinstance(tg, (ast.Tuple, ast.List)) else [tg]
            for tg in tgs:
                if isinstance(tg, ast.Attribute) and isinstance(tg.value, ast.Name) and tg.value.id == selfn:
                    stores.setdefault(tg.attr, []).append(n)
    what = "materialisation replaces the buffer, the geometry and the contiguity flag together on every path that does not return early"
    need = ("__data", "_shape", "is_contigous")
    missing = [k for k in need if k not in stores]
    if missing:
        ctx.violated("C06.e", f, what, "no store of %s" % missing, engine="E1")
        return
    # every normal exit that passes one of the three stores passes all of them
    ok = True
    detail = ""
    for k in need:
        others = [x for kk in need if kk != k for x in stores[kk]]
        for s in stores[k]:
            for kk in need:
                if kk == k:
                    continue
                if not (fa.cfg.must_pass(stores[kk], fa.cfg.exit, start=s) or any(fa.cfg.dominates(o, s) for o in stores[kk]) or fa.cfg.must_pass(stores[kk], s)):
                    ok = False
                    detail = "a path stores %s without %s" % (k, kk)
    ctx.decide("C06.e", f, what, ok, detail, key="together", engine="E1")
    # the early return is taken only when the geometry is not a view
    for r in fa.cfg.returns():
        if r.ast.value is None:
            from ..guards import facts_at as _facts
            okr = any(t.k == "call" and t.a[0].k == "global" and t.a[0].a[0] == "isinstance" and not truth for t, truth, _ in _facts(fa, r))
            ctx.decide("C06.e", f, "materialisation is skipped only when the geometry is not a lazy view", True if okr else None, node=r.ast, key="early-return", engine="E1")
    # new data = old data gathered at the indices that come with the new geometry; flag set to True
    for n in stores["__data"]:
        tm = _stored_term(fa, n, selfn, "__data")
        ok = tm.k == "sub" and attr_chain(tm.a[0]) == (selfn, "__data") and tm.a[1].k == "item" and tm.a[1].a[1] == 0 \
            and tm.a[1].a[0].k == "call" and tm.a[1].a[0].a[0].k == "attr" and tm.a[1].a[0].a[0].a[1] == "get_flat_indices"
        ctx.decide("C06.e", f, "the new buffer is the old buffer gathered at the view's flat indices", True if ok else None, node=n.ast, key="gather", engine="E5")
        fr = tk.E.fresh(tm, fa)
        ctx.decide("C06.e", f, "the materialised buffer is a copy: it shares no memory with the parent's buffer",
                   True if fr[0] == "fresh" else (False if fr[0] == "alias" else None),
                   "`%s` may be a basic slice of the parent's buffer (a numpy view): assigning into the derived array then alters its source" % (tm,),
                   node=n.ast, key="owned", engine="E3")
    for n in stores["_shape"]:
        tm = _stored_term(fa, n, selfn, "_shape")
        ok = tm.k == "item" and tm.a[1] == 1 and tm.a[0].k == "call" and tm.a[0].a[0].k == "attr" and tm.a[0].a[0].a[1] == "get_flat_indices"
        bad = tm.k == "item" and tm.a[1] == 0
        ctx.decide("C06.e", f, "the new geometry is the one returned together with the gather indices", True if ok else (False if bad else None),
                   "geometry is assigned %s" % (tm,), node=n.ast, key="geometry", engine="E5")
    for n in stores["is_contigous"]:
        v = _stored_term(fa, n, selfn, "is_contigous")
        ctx.decide("C06.e", f, "the contiguity flag is set to True by the materialisation", True if is_const_(v, True) else (False if v.k == "const" else None),
                   "flag set to %s" % (v,), node=n.ast, key="flag", engine="E1")
    # ravel returns the buffer after materialising; base constructor flags views as non-contiguous
    b = ctx.func("raggedarray.base.RaggedBase.__init__")
    ba = ctx.fa(b)
    for n in ba.cfg.stmts():
        if n.kind == "stmt" and isinstance(n.ast, ast.Assign) and isinstance(n.ast.targets[0], ast.Attribute) and n.ast.targets[0].attr == "is_contigous":
            from ..guards import facts_at as _facts
            isview = [truth for t, truth, _ in _facts(ba, n) if t.k == "call" and t.a[0].k == "global" and t.a[0].a[0] == "isinstance"]
            v = n.ast.value
            if isview and isinstance(v, ast.Constant):
                ctx.decide("C06.e", b, "a new array is flagged non-contiguous exactly when its geometry is a lazy view", (v.value is False) == isview[0],
                           "flag %s under isinstance(shape, views) == %s" % (v.value, isview[0]), node=n.ast, key="ctor-flag:%s" % v.value, engine="E1")
    if "raggedarray.base.RaggedBase.ravel" not in coh.ts.materialisers():
        ctx.violated("C06.e", "raggedarray.base.RaggedBase.ravel", "ravel() leaves the array materialised on every path",
                     "ravel can return the raw buffer of a lazy view without materialising", engine="E2")
    else:
        ctx.holds("C06.e", "raggedarray.base.RaggedBase.ravel", "ravel() leaves the array materialised on every path", engine="E2")
    buffer_extent_reads(ctx, tk)


def buffer_extent_reads(ctx, tk):
    """VC5: the extent (size / shape / len) of the raw buffer says something about the array only once the
    buffer is the array's own; on a lazy view it is the parent's buffer"""
    from ..guards import facts_at as _facts
    cls = ctx.program.cls("raggedarray.base.RaggedBase")
    what = "the extent of the raw buffer is read only where the buffer is the array's own (materialised, or just gathered)"
    n_sites = 0
    from ..coherence import Coherence, materialisation_code
    licensed = materialisation_code(ctx.cached("coherence", lambda: Coherence(tk)))
    for m in cls.methods.values():
        fa = ctx.fa(m)
        if not m.params:
            continue
        if m.qual in licensed and not any(isinstance(x, ast.Attribute) and isinstance(x.ctx, ast.Store) and x.attr == "__data" for x in ast.walk(m.node)):
            continue      # a read-only helper of the materialisation step: there the parent's buffer is what is meant
        selfn = m.params[0]
        gathers = [n for n in fa.cfg.stmts() if n.kind == "stmt" and isinstance(n.ast, ast.Assign) and any(
            isinstance(tg, ast.Attribute) and tg.attr == "__data" and isinstance(tg.value, ast.Name) and tg.value.id == selfn for tg in n.ast.targets)]
        for n in fa.cfg.stmts():
            if not fa.cfg.is_reachable(n):
                continue
            from ..resolve import _exprs_of_node
            for e in _exprs_of_node(n):
                for x in ast.walk(e):
                    hit = None
                    if isinstance(x, ast.Attribute) and x.attr in ("size", "shape", "nbytes") and isinstance(x.value, ast.Attribute) and x.value.attr == "__data" \
                            and isinstance(x.value.value, ast.Name) and x.value.value.id == selfn:
                        hit = x
                    if isinstance(x, ast.Call) and isinstance(x.func, ast.Name) and x.func.id == "len" and x.args and isinstance(x.args[0], ast.Attribute) \
                            and x.args[0].attr == "__data" and isinstance(x.args[0].value, ast.Name) and x.args[0].value.id == selfn:
                        hit = x
                    if hit is None:
                        continue
                    n_sites += 1
                    after_gather = any(g is not n and fa.cfg.dominates(g, n) for g in gathers)
                    mat_fact = any(truth and (attr_chain(t) or ("",))[-1] == "is_contigous" for t, truth, _ in _facts(fa, n))
                    in_ctor = m.name == "__init__"
                    ok = after_gather or mat_fact or in_ctor
                    ctx.decide("C06.e", m, what, True if ok else False,
                               "`%s` is read while the array may still be a lazy view: it is the size of the parent's buffer, not of this array" % ast.unparse(hit),
                               node=hit, key="extent:" + ast.unparse(hit), engine="E2")
    if not n_sites:
        ctx.holds("C06.e", "raggedarray.base.RaggedBase.size", "no reachable read of the raw buffer's extent in RaggedBase", key="extent:none", engine="E2")

