"""C04 - element-wise ufuncs act row by row, with column broadcasting.

Decided: the different-row-lengths refusal (E1, polarity, complete geometry comparison); operand order and
weak-scalar preservation (E4); result carries the receiver's post-materialisation geometry (E2); operands are
not written (E3); integrity of the bit-reinterpretation / XOR scatter used for column broadcasting (E6/KB);
result-dtype plumbing into the broadcast.  Not decided: per-row values, numpy's promotion table.
"""
import ast
from ..lib import Toolkit
from ..guards import Formulas, check_guard, find_calls, facts_at, aggregate_only, ev, irrelevant_unless
from ..terms import alts, attr_chain, walk, is_const, call_name, np_call
from ..coherence import Coherence, report
from ..opflow import value_roots, param_names, converts_scalar
from .. import bcast

LEVEL_TEXT = ("static path/guard analysis (E1), operand-flow (E4), effect analysis (E3), typestate (E2) and table/idiom "
              "agreement (E6/KB) over RaggedArray.__array_ufunc__ and the row-broadcast routines; structural necessary "
              "conditions of C04 on all paths")
ASSUMPTIONS = ["_safe_mode analysed at its default (refusals may be conditional on it)",
               "Python numbers have no `dtype` attribute; numpy (NEP 50) treats them as weak scalars and 0-d arrays as strong",
               "buffered `x[idx] ^= v` applies the last value per repeated index (numpy indexing documentation)"]
MIN_OBLIGATIONS = 20
RA = "raggedarray.RaggedArray."


def check(ctx, tier):
    tk = Toolkit(ctx)
    f = ctx.func(RA + "__array_ufunc__")
    shape_guard(ctx, tk, f)
    operand_flow(ctx, tk, f)
    dtype_plumbing(ctx, tk, f)
    result_by_ufunc(ctx, tk, f)
    geometry_equality(ctx, tk)
    safe_mode_store(ctx, tk)
    tk.purity("C04.c", [f, ctx.func(RA + "_broadcast_rows"), ctx.func("raggedshape.RaggedShape.broadcast_values"),
                         ctx.func("raggedshape.RaggedShape._raw_broadcast"), ctx.func("raggedshape.RaggedShape._broadcast_values_fast")],
              "ufunc operands are not modified", content_only=True)
    bcast.width_table(ctx, tk, "C04.d")
    bcast.xor_scatter(ctx, tk, "C04.e")
    bcast.column_guard(ctx, tk, "C04.f")
    bcast.flat_result(ctx, tk, "C04.f")
    coh = ctx.cached("coherence", lambda: Coherence(tk))
    report(coh, "C04.a", funcs=[f.qual, RA + "_broadcast_rows"])
    from .. import hazards as _hz, scopes as _sc
    _hz.generic(ctx, tk, "C04.z", _sc.scope(tk, "C04", depth=1))
    return {}


def _loop_parts(fa):
    """the `for x in inputs` loop of __array_ufunc__: (for node, body edge, append sites)"""
    for n in fa.cfg.nodes:
        if n.kind == "for" and fa.cfg.is_reachable(n):
            body = [e for e in n.succ if e.kind == "edge" and e.info[1] is True]
            return n, (body[0] if body else None)
    return None, None


def shape_guard(ctx, tk, f):
    fa = ctx.fa(f)
    what = ("a RaggedArray operand's buffer is combined only after refusing when its row geometry differs from the "
            "receiver's (unless safe_mode is off)")
    forn, body = _loop_parts(fa)
    if forn is None:
        ctx.unknown("C04.a", f, what, "operand loop not recognised")
        return
    selfn = f.params[0]

    def m(t):
        if t.k == "cmp" and t.a[0] in ("==", "!="):
            cs = [attr_chain(x) for x in (t.a[1], t.a[2])]
            shapes = [c for c in cs if c and c[-1] == "_shape"]
            if len(shapes) == 2 and any(c[0] == selfn for c in shapes) or \
                    (len(shapes) == 1 and any(x.k == "attr" and x.a[1] == "_shape" and x.a[0].k == "elem" for x in (t.a[1], t.a[2]))):
                return ("same_geometry", t.a[0] == "==")
        if t.k == "call" and t.a[0].k == "attr" and t.a[0].a[1] == "equals":
            return None
        return None

    def safe(t):
        c = attr_chain(t)
        if c and c[-1] == "_safe_mode":
            return ("safe_mode", True)
        return None
    forms = Formulas([m, safe], irrelevant=irrelevant_unless(lambda t: any(x.k == "elem" for x in walk(t))))
    starts = []
    for n, c in find_calls(fa, lambda c: c.a[0].k == "attr" and c.a[0].a[1] == "append" and c.a[1]):
        arg = c.a[1][0]
        # the RaggedArray branch: appended value is <loop element>.ravel()
        if arg.k == "call" and arg.a[0].k == "attr" and arg.a[0].a[1] == "ravel" and arg.a[0].a[0].k == "elem":
            starts.append(n)
    if not starts:
        ctx.unknown("C04.a", f, what, "RaggedArray operand branch not recognised")
        return
    for a in starts:
        e = fa.cfg.nearest_edge(a) or a
        check_guard(ctx, "C04.a", f, [forn], forms, lambda A: A["same_geometry"] or not A["safe_mode"],
                    ["same_geometry", "safe_mode"], what, fa=fa, start=e,
                    describe="two ragged arrays with different row lengths would be combined cell by cell")
    # the final call exists only after the loop
    calls = find_calls(fa, lambda c: c.a[0].k == "param" and c.a[0].a[0] == f.params[1] and any(x.k == "star" for x in c.a[1]))
    ctx.decide("C04.a", f, "the ufunc is applied once, after every operand has been classified",
               True if calls and all(fa.cfg.must_pass([forn], n) for n, _ in calls) else None, key="after-loop", engine="E1")


def operand_flow(ctx, tk, f):
    fa = ctx.fa(f)
    forn, body = _loop_parts(fa)
    inputs_p = f.vararg
    what = "operand k of the ufunc call derives from input k (list built in input order, one entry per input)"
    if forn is None or body is None or inputs_p is None:
        ctx.unknown("C04.b", f, what, "operand loop not recognised", engine="E4")
        return
    # (i) the loop iterates the inputs in order: param itself or an unfiltered, unreversed comprehension over it
    it = fa.term(forn.ast.iter, forn)
    ok = None
    for a in alts(it):
        if a.k == "param" and a.a[0] == inputs_p:
            ok = True if ok is not False else False
        elif a.k == "comp" and len(a.a[2]) == 1 and a.a[2][0].k == "param" and a.a[2][0].a[0] == inputs_p:
            ok = (not a.a[3]) if ok is not False else False
        elif a.k == "sub" and a.a[1].k == "slice" and is_const(a.a[1].a[2], -1):
            ok = False
        else:
            ok = None if ok is not False else False
    ctx.decide("C04.b", f, "operands are visited in input order, unfiltered", ok, "loop iterates %s" % (it,), node=forn.ast, key="order", engine="E4")
    # (ii) every iteration appends exactly one value derived from the current operand
    appends = find_calls(fa, lambda c: c.a[0].k == "attr" and c.a[0].a[1] == "append" and c.a[1])
    anodes = [n for n, _ in appends]
    listnames = set()
    for n, c in appends:
        if isinstance(c.node.func.value, ast.Name):
            listnames.add(c.node.func.value.id)
        arg = c.a[1][0]
        roots = _roots_through_broadcast(arg)
        good = bool(roots) and all(r[0] == "elem" for r in roots)
        ctx.decide("C04.b", f, "the value appended for an operand derives from that operand", True if good else (False if roots and not any(r[0] == "other" for r in roots) else None),
                   "appended value derives from %s" % sorted(param_names(roots)), node=c.node, engine="E4")
    if anodes:
        zero = not fa.cfg.must_pass(anodes, forn, start=body)
        # a path around the loop body without append that still continues the loop drops an operand
        skip = fa.cfg.can_reach(body, [forn], avoid=anodes)
        two = any(fa.cfg.can_reach(s, [o for o in anodes if o is not a], avoid=[forn]) for a in anodes for s in a.succ)
        ctx.decide("C04.b", f, "every operand contributes exactly one entry to the argument list", not skip and not two,
                   "an operand can be %s" % ("skipped" if skip else "added twice"), node=forn.ast, key="one-per-operand", engine="E4")
    # (iii) the call forwards that list
    for n, c in find_calls(fa, lambda c: c.a[0].k == "param" and c.a[0].a[0] == f.params[1]):
        st = [a for a in c.node.args if isinstance(a, ast.Starred) and isinstance(a.value, ast.Name)]
        okc = bool(st) and st[0].value.id in listnames and len(c.node.args) == 1
        ctx.decide("C04.b", f, "the ufunc receives exactly the operand list, in order", True if okc else None, node=c.node, key="forward", engine="E4")
    # (iv) weak scalars: a Python number must reach the call unconverted
    whatw = "a Python number operand reaches the ufunc unconverted (numpy then applies its weak-scalar promotion)"
    decided = False
    for a in alts(it):
        if a.k == "comp":
            elt = a.a[1]
            decided = True
            sel = _select_for_number(elt)
            if sel is None:
                ctx.unknown("C04.b", f, whatw, "conversion expression not recognised: %s" % (elt,), node=forn.ast, key="weak", engine="E4")
            else:
                ctx.decide("C04.b", f, whatw, not converts_scalar(sel),
                           "for a Python number the operand list holds %s: a 0-d array is a strong type, so e.g. uint8 + 2 is computed in int64" % (sel,),
                           node=forn.ast, key="weak", engine="E4")
    if not decided:
        ctx.holds("C04.b", f, whatw + " [operands are not pre-converted]", node=forn.ast, key="weak", engine="E4")
    for n, c in appends:
        arg = c.a[1][0]
        e = fa.cfg.nearest_edge(n)
        if e is None or e.info[1] is not True:
            continue
        cond = fa.term(e.info[0].ast, e.info[0])
        if _mentions_number(cond):
            # the scalar branch: the appended value must be the operand itself, not a conversion of it
            conv = arg.k == "call" and np_call(arg, {"asanyarray", "asarray", "array"})
            ctx.decide("C04.b", f, "the scalar branch forwards the operand itself", not conv, "appends %s" % (arg,),
                       node=c.node, key="weak-branch", engine="E4")


def _mentions_number(t):
    return any(x.k == "call" and x.a[0].k == "global" and x.a[0].a[0] == "isinstance" and len(x.a[1]) == 2
               and any(y.k == "global" and y.a[0] == "Number" for y in walk(x.a[1][1])) for x in walk(t))


def _select_for_number(elt):
    """which branch of the (possibly nested) conditional expression is taken for a Python number
    (isinstance(x, Number) true, hasattr(x, 'dtype') false)"""
    if elt.k != "ifexp":
        return elt
    test, a, b = elt.a

    def m(t):
        if t.k == "call" and t.a[0].k == "global" and t.a[0].a[0] == "isinstance" and len(t.a[1]) == 2:
            names = {y.a[0] for y in walk(t.a[1][1]) if y.k == "global"}
            if "Number" in names:
                return ("number", True)
            return ("otherclass", True)
        if t.k == "call" and t.a[0].k == "global" and t.a[0].a[0] == "hasattr" and len(t.a[1]) == 2 and is_const(t.a[1][1], "dtype"):
            return ("hasdtype", True)
        return None
    fm = Formulas([m]).of(test)
    v = ev(fm, _D({"number": True, "hasdtype": False, "otherclass": False}))
    if v is None:
        return None
    return _select_for_number(a if v else b)


class _D(dict):
    def __missing__(self, k):
        return None


def _roots_through_broadcast(t):
    for a in alts(t):
        x = a
        # <something>.ravel() of self._broadcast_rows(operand, ...)
        while x.k == "call" and x.a[0].k == "attr" and x.a[0].a[1] in ("ravel", "astype"):
            x = x.a[0].a[0]
        if x.k == "call" and x.a[0].k == "attr" and x.a[0].a[1] == "_broadcast_rows" and x.a[1]:
            return value_roots(x.a[1][0])
    return value_roots(t)


def dtype_plumbing(ctx, tk, f):
    fa = ctx.fa(f)
    what = "a column-vector operand is broadcast in the common result type of all operands"
    calls = find_calls(fa, lambda c: c.a[0].k == "attr" and c.a[0].a[1] == "_broadcast_rows")
    if not calls:
        ctx.unknown("C04.g", f, what, "broadcast call not found", engine="E6")
    for n, c in calls:
        kw = dict(c.a[2])
        dt = kw.get("dtype", c.a[1][1] if len(c.a[1]) > 1 else None)
        if dt is None:
            ctx.violated("C04.g", f, what, "`%s` passes no dtype: the column is cast to the receiver's dtype (a wider column operand is truncated, the result dtype is wrong)" % (c,),
                         node=c.node, engine="E6")
            continue
        ok = any(np_call(x, {"result_type", "promote_types"}) for x in walk(dt))
        # ... or in the column's own element type, leaving the promotion to the ufunc itself (exact for int64 against uint64)
        own = dt.k == "attr" and dt.a[1] == "dtype" and c.a[1] and str(dt.a[0]) == str(c.a[1][0])
        recv = dt.k == "attr" and dt.a[1] == "dtype" and dt.a[0].k == "param" and f.params and dt.a[0].a[0] == f.params[0]
        ctx.decide("C04.g", f, what + " (or in its own element type)", True if (ok or own) else (False if recv else None),
                   "the column is cast to the receiver's element type before the operation", node=c.node, engine="E6")
    g = ctx.func(RA + "_broadcast_rows")
    ga = ctx.fa(g)
    for n, c in find_calls(ga, lambda c: c.a[0].k == "attr" and c.a[0].a[1] == "broadcast_values"):
        kw = dict(c.a[2])
        dt = kw.get("dtype", c.a[1][1] if len(c.a[1]) > 1 else None)
        if dt is None:
            ctx.violated("C04.g", g, "the requested dtype is handed on to the row broadcast", "`%s` drops the dtype" % (c,), node=c.node, engine="E6")
        else:
            roots = {x.a[0] for x in walk(dt) if x.k == "param"}
            ctx.decide("C04.g", g, "the requested dtype is handed on to the row broadcast", True if "dtype" in roots else None, node=c.node, engine="E6")


def geometry_equality(ctx, tk, rule="C04.h"):
    f = ctx.func("raggedshape.ViewBase.__eq__")
    fa = ctx.fa(f)
    what = "geometry equality compares the complete (start, length) codes of both objects (row lengths of every row)"
    for r in fa.cfg.returns():
        tm = fa.term(r.ast.value, r)
        cmpd = set()
        for x in walk(tm):
            ops = ()
            if x.k == "cmp" and x.a[0] == "==":
                ops = (x.a[1], x.a[2])
            elif np_call(x, {"array_equal", "array_equiv"}) and len(x.a[1]) >= 2:
                ops = (x.a[1][0], x.a[1][1])
            for o in ops:
                c = attr_chain(o)
                if c and len(c) == 2:
                    cmpd.add(c[1])
        if not cmpd:
            ctx.unknown(rule, f, what, node=r.ast, engine="E6")
            continue
        full = bool(cmpd & {"_codes", "lengths"}) or {"starts", "ends"} <= cmpd
        partial = cmpd <= {"starts", "ends", "n_rows", "size"} and not full
        ctx.decide(rule, f, what, True if full else (False if partial else None),
                   "only %s are compared: geometries differing in the last row's length (or only in lengths) compare equal, so the "
                   "different-row-lengths refusal does not fire" % sorted(cmpd), node=r.ast, engine="E6")


def safe_mode_store(ctx, tk):
    """the checking flag every refusal is conditional on is the constructor's parameter, on every path"""
    f = ctx.func(RA + "__init__")
    fa = ctx.fa(f)
    found = False
    for n in fa.cfg.stmts():
        if n.kind == "stmt" and isinstance(n.ast, ast.Assign) and isinstance(n.ast.targets[0], ast.Attribute) and n.ast.targets[0].attr == "_safe_mode":
            found = True
            tm = fa.term(n.ast.value, n)
            ok = all(a.k == "param" and a.a[0] == "safe_mode" for a in alts(tm))
            forced = [a for a in alts(tm) if a.k == "const" and a.a[0] is False]
            ctx.decide("C04.a", f, "the safe_mode flag stored on a new array is the constructor's argument (default True) on every path",
                       True if ok else (False if forced else None),
                       "a constructor path stores safe_mode = False regardless of the argument: every array built that way (ufunc results, astype, slices) skips the "
                       "different-row-lengths refusal", node=n.ast, key="safe-mode-store", engine="E4")
    if not found:
        ctx.unknown("C04.a", f, "safe_mode flag store", engine="E4")
    d = f.defaults.get("safe_mode")
    ctx.decide("C04.a", f, "refusals are on by default (safe_mode defaults to True)", isinstance(d, ast.Constant) and d.value is True,
               "default is %s" % (ast.unparse(d) if d is not None else None), key="safe-mode-default", engine="E6")


def result_by_ufunc(ctx, tk, f):
    """every array handed back by __array_ufunc__ holds data computed by the ufunc (or is a delegation / NotImplemented):
    a result allocated any other way does not follow the ufunc's type rules (comparisons -> bool, true_divide -> float)"""
    fa = ctx.fa(f)
    up = f.params[1] if len(f.params) > 1 else "ufunc"
    what = "a result array is built from what the ufunc returned, on every path"
    for r in fa.cfg.returns():
        if r.ast.value is None:
            continue
        tm = fa.term(r.ast.value, r)
        for a in alts(tm):
            if a.k == "global" and a.a[0] == "NotImplemented":
                continue
            if a.k != "call":
                continue
            ctor = (a.a[0].k == "global" and a.a[0].a[0] in ("RaggedArray",)) or (a.a[0].k == "attr" and a.a[0].a[1] == "__class__")
            if not ctor or not a.a[1]:
                continue           # delegations (self._reduce(...), getattr(ufunc, method)(...)) are judged in their callee
            data = a.a[1][0]
            via = any((x.k == "call" and any(y.k == "param" and y.a[0] == up for y in walk(x.a[0]))) for x in walk(data))
            ctx.decide("C04.h", f, what, True if via else False,
                       "`%s`: the data of this result is not computed by the ufunc, so its dtype is whatever was allocated (np.equal on an int8 array without "
                       "cells comes back int8 instead of bool) and no operand check has run" % (a,), node=r.ast, key="by-ufunc:%d" % getattr(r, "lineno", 0), engine="E4")
