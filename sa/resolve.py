"""E0 - light type inference over terms, callee resolution, call graph, reachability.

Types:  ("inst", frozenset[Class]) | ("class", frozenset[Class]) | ("func", frozenset[Func]) |
        ("tuple", (types...)) | ("module", Module) | ("ext", dotted) | ("registry", module, name) |
        ("nd",) numpy array | ("num",) | None (unknown)
"""
import ast
from .model import Class, Func, Module, dotted_name, AnalysisError
from .terms import T, alts, attr_chain, walk

# attribute-type table (filled from constructor assignments, confirmed by reading; used only for
# call resolution).  (class short qual, attribute) -> list of class short quals | "nd"
ATTR_TYPES = {
    ("raggedarray.base.RaggedBase", "_shape"): ["raggedshape.RaggedShape", "raggedshape.RaggedView", "raggedshape.RaggedView2"],
    ("hashtable.HashTable", "_keys"): ["raggedarray.RaggedArray"],
    ("hashtable.HashTable", "_values"): ["raggedarray.RaggedArray"],
    ("runlengtharray.RunLength2dArray", "_indices"): ["raggedarray.RaggedArray"],
    ("runlengtharray.RunLength2dArray", "_values"): ["raggedarray.RaggedArray"],
    ("runlengtharray.RunLengthArray", "_events"): "nd",
    ("runlengtharray.RunLengthArray", "_values"): "nd",
    ("runlengtharray.RunLengthArray", "_starts"): "nd",
    ("runlengtharray.RunLengthArray", "_ends"): "nd",
    ("raggedshape.ViewBase", "_codes"): "nd",
    ("bitarray.BitArray", "_data"): "nd",
    ("raggedarray.base.RaggedBase", "__data"): "nd",
}

NP_NOT_ARRAY = {"result_type", "issubdtype", "dtype", "iinfo", "finfo", "isscalar", "ndim", "shape", "size",
                "array_equal", "allclose", "savez", "save", "load", "errstate", "set_printoptions"}

# parameters whose type is fixed by the library's calling convention (confirmed by reading)
PARAM_TYPES = {
    ("arrayfunctions.concatenate", "ragged_arrays"): ("listof", "raggedarray.RaggedArray"),
    ("arrayfunctions.diff", "ragged_array"): "raggedarray.RaggedArray",
    ("arrayfunctions.zeros_like", "ragged_array"): "raggedarray.RaggedArray",
    ("arrayfunctions.ones_like", "ragged_array"): "raggedarray.RaggedArray",
    ("arrayfunctions.empty_like", "ragged_array"): "raggedarray.RaggedArray",
    ("arrayfunctions.where", "ragged_mask"): "raggedarray.RaggedArray",
    ("arrayfunctions.where", "x"): "raggedarray.RaggedArray",
    ("arrayfunctions.where", "y"): "raggedarray.RaggedArray",
    ("arrayfunctions.unique", "ragged_array"): "raggedarray.RaggedArray",
    ("raggedarray.RaggedArray._reduce", "ra"): "raggedarray.RaggedArray",
    ("raggedarray.RaggedArray._accumulate", "ra"): "raggedarray.RaggedArray",
    ("raggedarray.indexablearray.IndexableArray.subset", "indexes"): "raggedarray.RaggedArray",
    ("hashtable.zeros_like", "hash_table"): "hashtable.HashTable",
    ("hashtable.ones_like", "hash_table"): "hashtable.HashTable",
    ("hashtable.HashTable.__add__", "other"): "hashtable.HashTable",
    ("hashtable.HashTable.__iadd__", "other"): "hashtable.HashTable",
    ("hashtable.HashTable.__eq__", "other"): "hashtable.HashTable",
    ("runlengtharray.histogram", "rla"): "runlengtharray.RunLengthArray",
    ("runlengtharray.concatenate", "rl_arrays"): ("listof", "runlengtharray.RunLengthArray"),
    ("runlengtharray.RunLengthArray._apply_binary_func", "first"): "runlengtharray.RunLengthArray",
    ("runlengtharray.RunLengthArray._apply_binary_func", "other"): "runlengtharray.RunLengthArray",
    ("runlengtharray.RunLengthArray._getitem_bool", "idx"): "runlengtharray.RunLengthArray",
    ("runlengtharray.rlra_concatenate", "rl_ragged_arrays"): ("listof", "runlengtharray.RunLengthRaggedArray"),
    ("runlengtharray.RunLength2dArray.join_runs", "values"): "raggedarray.RaggedArray",
    ("runlengtharray.RunLength2dArray.join_runs", "indices"): "raggedarray.RaggedArray",
    ("runlengtharray.RunLengthRaggedArray.remove_empty_intervals", "values"): "raggedarray.RaggedArray",
    ("runlengtharray.RunLengthRaggedArray.remove_empty_intervals", "events"): "raggedarray.RaggedArray",
    ("runlengtharray.RunLengthRaggedArray.from_ragged_array", "ragged_array"): "raggedarray.RaggedArray",
    ("raggedarray.raggedslice.ragged_slice", "array"): "raggedarray.RaggedArray",
    ("raggedshape.build_indices", "view"): ["raggedshape.RaggedView", "raggedshape.RaggedView2"],
    ("raggedshape.build_indices", "to_shape"): "raggedshape.RaggedShape",
    ("raggedarray.indexablearray.IndexableArray._get_view", "view"): ["raggedshape.RaggedView", "raggedshape.RaggedView2"],
}

OPERATOR_DUNDERS = {"+", "-", "*", "/", "//", "%", "**", "<<", ">>", "|", "^", "&", "==", "!=", "<", "<=", ">", ">=", "~"}
UFUNC_MIXIN = "numpy.lib.mixins.NDArrayOperatorsMixin"


class Resolver:
    def __init__(self, ctx):
        self.ctx = ctx
        self.p = ctx.program
        self._ret = {}
        self._ret_stack = set()
        self._edges = None
        self.unresolved = []
        self._registry = {}

    # -- helpers -----------------------------------------------------------
    def _cls(self, short):
        return self.p.classes.get(short)

    def inst(self, classes):
        cs = frozenset(c for c in classes if c is not None)
        return ("inst", cs) if cs else None

    def _table_type(self, spec):
        if spec == "nd":
            return ("nd",)
        if isinstance(spec, tuple) and spec[0] == "listof":
            return ("listof", self._table_type(spec[1]))
        if isinstance(spec, str):
            spec = [spec]
        return self.inst([self._cls(s) for s in spec])

    def has_mixin(self, c):
        return any(any("NDArrayOperatorsMixin" in b for b in k.ext_bases) for k in c.mro())

    # -- type of a term -------------------------------------------------------
    def typeof(self, t, fa, depth=0):
        if depth > 12 or t is None:
            return None
        k = t.k
        f = fa.func
        if k == "param":
            name = t.a[0]
            if f.cls is not None and f.parent is None and f.params and name == f.params[0] and not f.is_staticmethod:
                return ("class", frozenset([f.cls])) if f.is_classmethod else ("inst", frozenset([f.cls]))
            spec = PARAM_TYPES.get((f.qual, name))
            if spec is not None:
                return self._table_type(spec)
            dyn = getattr(self, "dyn_param", None)
            if dyn and (f.qual, name) in dyn:
                return dyn[(f.qual, name)]
            return self._isinstance_type(t, fa)
        if k in ("global", "free"):
            r = self.p.resolve_expr_static(f.module, ast.Name(id=t.a[0]), f)
            return self._sym_type(r)
        if k == "localdef":
            g = f.nested.get(t.a[0])
            if isinstance(g, Func):
                return ("func", frozenset([g]))
            if isinstance(g, Class):
                return ("class", frozenset([g]))
            return None
        if k == "phi":
            return self._join([self.typeof(x, fa, depth + 1) for x in t.a[0]])
        if k == "ifexp":
            return self._join([self.typeof(t.a[1], fa, depth + 1), self.typeof(t.a[2], fa, depth + 1)])
        if k == "attr":
            return self._attr_type(t, fa, depth)
        if k == "call":
            return self._call_type(t, fa, depth)
        if k == "tuple":
            return ("tuple", tuple(self.typeof(x, fa, depth + 1) for x in t.a[0]))
        if k == "item":
            bt = self.typeof(t.a[0], fa, depth + 1)
            if bt and bt[0] == "tuple" and isinstance(t.a[1], int) and t.a[1] < len(bt[1]):
                return bt[1][t.a[1]]
            return None
        if k == "elem":
            bt = self.typeof(t.a[0], fa, depth + 1)
            if bt and bt[0] == "listof":
                return bt[1]
            return None
        if k == "sub":
            bt = self.typeof(t.a[0], fa, depth + 1)
            if bt and bt[0] == "listof" and t.a[1].k == "const":
                return bt[1]
            if bt and bt[0] == "tuple" and t.a[1].k == "const" and isinstance(t.a[1].a[0], int) and -len(bt[1]) <= t.a[1].a[0] < len(bt[1]):
                return bt[1][t.a[1].a[0]]
            if bt and bt[0] == "registry":
                return ("func", frozenset(self.registry_funcs(bt[1], bt[2])))
            if bt == ("nd",):
                return ("nd",)
            if bt and bt[0] == "inst":
                # __getitem__ of a repo class
                outs = []
                for c in bt[1]:
                    m = c.lookup("__getitem__")
                    if m is not None:
                        outs.append(self.return_type(m, bt))
                return self._join(outs) if outs else None
            return None
        if k == "bin" or k == "cmp" or k == "un":
            # operators on RaggedArray-like objects yield the same class (through __array_ufunc__)
            ops = [x for x in t.a[1:] if isinstance(x, T)]
            ots = [self.typeof(o, fa, depth + 1) for o in ops]
            for ot in ots:
                if ot and ot[0] == "inst" and any(self.has_mixin(c) for c in ot[1]):
                    return ot
            if any(ot == ("nd",) for ot in ots):
                return ("nd",)
            return None
        if k == "const":
            return ("num",) if isinstance(t.a[0], (int, float)) and not isinstance(t.a[0], bool) else None
        if k == "upd":
            return self.typeof(t.a[0], fa, depth + 1)
        return None

    def isinstance_types_at(self, fa, n):
        """{param name: ("inst", classes)} from the `isinstance(param, RepoClass)` facts that dominate cfg node n"""
        out = {}
        try:
            facts = list(fa.cfg.facts_at(n))
        except Exception:
            return out
        for test, truth in facts:
            if not truth or test.kind != "test" or not isinstance(test.ast, ast.Call):
                continue
            call = test.ast
            if not (isinstance(call.func, ast.Name) and call.func.id == "isinstance" and len(call.args) == 2 and isinstance(call.args[0], ast.Name)
                    and isinstance(call.args[1], (ast.Name, ast.Attribute))):
                continue
            r = self.p.resolve_expr_static(fa.func.module, call.args[1], fa.func)
            if isinstance(r, Class):
                out[call.args[0].id] = ("inst", frozenset([r] + list(self.p.subclasses(r))))
        return out

    def _isinstance_type(self, t, fa):
        """a parameter used under a dominating `isinstance(param, RepoClass)` fact is an instance of that class"""
        if t.node is None:
            return None
        try:
            n = fa.node_of(t.node)
        except Exception:
            n = None
        if n is None:
            return None
        key = ("isinst", fa.func.qual, n.id, t.a[0])
        c = self.ctx._cache.setdefault("isinst", {})
        if key in c:
            return c[key]
        out = None
        try:
            for test, truth in fa.cfg.facts_at(n):
                if not truth or test.kind != "test" or not isinstance(test.ast, ast.Call):
                    continue
                call = test.ast
                if not (isinstance(call.func, ast.Name) and call.func.id == "isinstance" and len(call.args) == 2 and isinstance(call.args[0], ast.Name)
                        and call.args[0].id == t.a[0] and isinstance(call.args[1], (ast.Name, ast.Attribute))):
                    continue
                r = self.p.resolve_expr_static(fa.func.module, call.args[1], fa.func)
                if isinstance(r, Class):
                    out = ("inst", frozenset([r] + list(self.p.subclasses(r))))
        except Exception:
            out = None
        c[key] = out
        return out

    def _sym_type(self, r):
        if isinstance(r, Class):
            return ("class", frozenset([r]))
        if isinstance(r, Func):
            return ("func", frozenset([r]))
        if isinstance(r, tuple):
            if r[0] == "module":
                return ("module", r[1])
            if r[0] == "ext":
                return ("ext", r[1])
            if r[0] == "const":
                mod, node = r[1], r[2]
                if isinstance(node, (ast.Dict, ast.DictComp)):
                    for nm, v in mod.assigns.items():
                        if v is node:
                            return ("registry", mod, nm)
                if isinstance(node, ast.Call):
                    rr = self.p.resolve_expr_static(mod, node.func)
                    if isinstance(rr, Class):
                        d = self._delegate_of(rr)
                        if d is not None:
                            return d
                        return ("inst", frozenset([rr]))
        return None

    def _delegate_of(self, c):
        """a wrapper class whose __getattr__ forwards every attribute to an external module held in a
        field set by __init__ (util.NpWrapper -> numpy) is typed as that module"""
        ga, init = c.methods.get("__getattr__"), c.methods.get("__init__")
        if ga is None or init is None:
            return None
        for st in ast.walk(init.node):
            if isinstance(st, ast.Assign) and len(st.targets) == 1 and isinstance(st.targets[0], ast.Attribute) \
                    and isinstance(st.value, ast.Name):
                imp = c.module.imports.get(st.value.id)
                if imp and imp[0] == "module" and imp[1] not in self.p.modules:
                    return ("ext", imp[1])
        return None

    def _join(self, ts):
        ts = [x for x in ts if x is not None]
        if not ts:
            return None
        if all(x[0] == ts[0][0] for x in ts) and ts[0][0] in ("inst", "class", "func"):
            s = frozenset()
            for x in ts:
                s |= x[1]
            return (ts[0][0], s)
        if all(x == ts[0] for x in ts):
            return ts[0]
        if all(x[0] == "tuple" and len(x[1]) == len(ts[0][1]) for x in ts):
            return ("tuple", tuple(self._join([x[1][i] for x in ts]) for i in range(len(ts[0][1]))))
        return None

    def _attr_type(self, t, fa, depth):
        base, name = t.a
        if name == "__class__":
            bt = self.typeof(base, fa, depth + 1)
            if bt and bt[0] == "inst":
                return ("class", bt[1])
            return None
        bt = self.typeof(base, fa, depth + 1)
        if bt is None:
            return None
        if bt == ("nd",):
            if name in ("ravel", "reshape", "astype", "copy", "view", "flatten", "cumsum", "nonzero", "argsort", "squeeze"):
                return ("ndmethod",)
            if name == "T":
                return ("nd",)
            return None
        if bt[0] == "module":
            return self._sym_type(self.p.resolve_global(bt[1], name))
        if bt[0] == "ext":
            return ("ext", bt[1] + "." + name)
        if bt[0] in ("inst", "class"):
            outs = []
            for c in bt[1]:
                for k in c.mro():
                    spec = ATTR_TYPES.get((k.qual, name))
                    if spec is not None:
                        outs.append(self._table_type(spec))
                        break
                else:
                    m = self.lookup_virtual(c, name, bt[0] == "inst" and self._is_self(base, fa))
                    for g in m:
                        if g.is_property:
                            outs.append(self.return_type(g, ("inst", frozenset([c]))))
                        else:
                            outs.append(("bound", frozenset([g]), bt))
            return self._join_bound(outs)
        return None

    def _join_bound(self, outs):
        outs = [o for o in outs if o is not None]
        if not outs:
            return None
        if all(o[0] == "bound" for o in outs):
            fs = frozenset()
            for o in outs:
                fs |= o[1]
            return ("bound", fs, outs[0][2])
        return self._join(outs)

    def _is_self(self, t, fa):
        f = fa.func
        return t.k == "param" and f.cls is not None and f.params and t.a[0] == f.params[0]

    def lookup_virtual(self, c, name, virtual):
        """methods `name` may resolve to on an instance whose static class is c"""
        out = []
        m = c.lookup(name)
        if m is not None:
            out.append(m)
        if virtual:
            for s in self.p.subclasses(c):
                g = s.lookup(name)
                if g is not None and g not in out:
                    out.append(g)
        return out

    def _call_type(self, t, fa, depth):
        fn = t.a[0]
        # super().m(...)
        ft = self.callee_type(fn, fa, depth)
        if ft is None:
            return None
        if ft[0] == "class":
            return ("inst", ft[1])
        if ft[0] in ("func", "bound"):
            recv = ft[2] if ft[0] == "bound" else None
            cands = list(ft[1])
            if len(cands) > 1:
                cands = [g for g in cands if _arity_ok(g, t, bound=(ft[0] == "bound"))] or cands
            return self._join([self.return_type(g, recv) for g in cands])
        if ft[0] == "ext":
            parts = ft[1].split(".")
            if parts[0] in ("numpy", "np") and parts[-1] not in NP_NOT_ARRAY:
                return ("nd",)
        if ft[0] == "ndmethod":
            return ("nd",)
        return None

    def callee_type(self, fn, fa, depth=0):
        f = fa.func
        if fn.k == "attr" and fn.a[0].k == "call" and fn.a[0].a[0].k == "global" and fn.a[0].a[0].a[0] == "super":
            owner = f.cls
            if owner is None:
                return None
            outs = set()
            for s in self.p.subclasses(owner):
                g = s.lookup_after(owner, fn.a[1])
                if g is not None:
                    outs.add(g)
            if outs:
                return ("bound", frozenset(outs), ("inst", frozenset([owner])))
            return None
        tt = self.typeof(fn, fa, depth + 1)
        if tt is None:
            return None
        if tt[0] == "inst":
            # calling an instance: __call__ not used in the repo
            return None
        return tt

    # -- return types -------------------------------------------------------
    def return_type(self, g, recv=None):
        key = g.qual
        if key in self._ret:
            return self._ret[key]
        if key in self._ret_stack:
            return None
        self._ret_stack.add(key)
        try:
            fa = self.ctx.fa(g)
            outs = []
            for n in fa.cfg.returns():
                if n.ast.value is None:
                    continue
                tm = fa.term(n.ast.value, n)
                outs.append(self.typeof(tm, fa, 1))
            r = self._join(outs) if outs and all(o is not None for o in outs) else self._join([o for o in outs if o is not None and o[0] in ("inst", "tuple")])
        except RecursionError:
            r = None
        finally:
            self._ret_stack.discard(key)
        self._ret[key] = r
        return r

    # -- registries --------------------------------------------------------
    def registry_funcs(self, mod, name):
        key = (mod.dotted, name)
        if key in self._registry:
            return self._registry[key]
        out = []
        # decorated functions: @implements(np.X) where implements writes <name>[np_function] = func
        for f in mod.functions.values():
            for d in f.decorators:
                if isinstance(d, ast.Call) and isinstance(d.func, ast.Name):
                    dec = mod.functions.get(d.func.id)
                    if dec is not None and _writes_registry(dec, name):
                        out.append(f)
        # also earlier same-named definitions shadowed at module level but still registered
        for st in mod.tree.body:
            if isinstance(st, ast.FunctionDef) and mod.functions.get(st.name) is not None and mod.functions[st.name].node is not st:
                pass
        node = mod.assigns.get(name)
        names = registry_method_names(mod, node)
        for cls_short, nm in names:
            c = self.p.classes.get(cls_short)
            if c is not None:
                m = c.lookup(nm)
                if m is not None:
                    out.append(m)
        self._registry[key] = out
        return out

    # -- call graph ---------------------------------------------------------
    def callees(self, fa):
        """list of (call term, [Func]) for every call in the function (reachable code)"""
        key = fa.func.qual
        c = self.ctx._cache.setdefault("callees", {})
        if key in c:
            return c[key]
        out = []
        seen = set()
        for n in fa.cfg.nodes:
            if not fa.cfg.is_reachable(n) or n.ast is None:
                continue
            for e in _exprs_of_node(n):
                tm = fa.term(e, n)
                for sub in walk(tm):
                    if id(sub.node) in seen:
                        continue
                    targets = None
                    if sub.k == "call":
                        targets = self.resolve_call(sub, fa)
                    elif sub.k in ("bin", "cmp", "un") and sub.a[0] in OPERATOR_DUNDERS:
                        targets = self.resolve_operator(sub, fa)
                    elif sub.k == "sub":
                        targets = self.resolve_subscript(sub, fa)
                    elif sub.k == "attr":
                        targets = self.resolve_property(sub, fa)
                    if targets:
                        seen.add(id(sub.node))
                        out.append((sub, targets))
        c[key] = out
        return out

    def resolve_property(self, t, fa):
        bt = self.typeof(t.a[0], fa)
        if bt and bt[0] in ("inst",):
            out = []
            for c in bt[1]:
                for g in self.lookup_virtual(c, t.a[1], self._is_self(t.a[0], fa)):
                    if g.is_property and g not in out:
                        out.append(g)
            return out
        return None

    def resolve_subscript(self, t, fa):
        bt = self.typeof(t.a[0], fa)
        if bt and bt[0] == "inst":
            out = []
            for c in bt[1]:
                for g in self.lookup_virtual(c, "__getitem__", self._is_self(t.a[0], fa)):
                    if g not in out:
                        out.append(g)
            return out
        return None

    def resolve_operator(self, t, fa):
        out = []
        for o in t.a[1:]:
            if not isinstance(o, T):
                continue
            ot = self.typeof(o, fa)
            if ot and ot[0] == "inst":
                for c in ot[1]:
                    if self.has_mixin(c):
                        m = c.lookup("__array_ufunc__")
                        if m is not None and m not in out:
                            out.append(m)
                    if t.a[0] == "==" and c.lookup("__eq__") is not None and c.lookup("__eq__") not in out and not self.has_mixin(c):
                        out.append(c.lookup("__eq__"))
        return out

    def resolve_call(self, t, fa):
        fn = t.a[0]
        ft = self.callee_type(fn, fa)
        out = []
        if ft is not None:
            if ft[0] == "class":
                for c in ft[1]:
                    cands = [c]
                    if fn.k == "param" or (fn.k == "attr" and fn.a[1] in ("__class__", "_cls")):
                        cands = self.p.subclasses(c)     # cls(...) / self.__class__(...) : dynamic class
                    for k in cands:
                        m = k.lookup("__init__")
                        if m is not None and m not in out:
                            out.append(m)
                        pi = k.lookup("__post_init__")
                        if pi is not None and pi not in out:
                            out.append(pi)
                return out
            if ft[0] in ("func", "bound"):
                cands = list(ft[1])
                if len(cands) > 1:
                    ok = [g for g in cands if _arity_ok(g, t, bound=(ft[0] == "bound"))]
                    if ok:
                        cands = ok
                return cands
            if ft[0] == "ext":
                return self._numpy_protocol(t, ft[1], fa)
        # getattr(x, name)(...) / registry[...](...)
        if fn.k == "call" and fn.a[0].k == "global" and fn.a[0].a[0] == "getattr" and len(fn.a[1]) >= 2:
            obj, nm = fn.a[1][0], fn.a[1][1]
            ot = self.typeof(obj, fa)
            if ot and ot[0] in ("inst", "class") and nm.k == "const" and isinstance(nm.a[0], str):
                for c in ot[1]:
                    out += [g for g in self.lookup_virtual(c, nm.a[0], True) if g not in out]
                return out
            if ot and ot[0] in ("inst", "class"):
                # getattr(obj, TABLE[key]) / TABLE.get(key): a dispatch table of method names (class attribute or module constant)
                names = self._table_strings(nm, ot[1], fa)
                if names:
                    for c in ot[1]:
                        for nm_ in names:
                            out += [g for g in self.lookup_virtual(c, nm_, True) if g not in out]
                    return out
            if ot and ot[0] == "ext":
                return self._numpy_protocol(t, ot[1] + ".<dynamic>", fa)
        return out

    def _table_strings(self, nm, classes, fa):
        """string values of the dict literal a name expression is looked up in: TABLE[key], TABLE.get(key[, default])"""
        base = None
        if nm.k == "sub":
            base = nm.a[0]
        elif nm.k == "call" and nm.a[0].k == "attr" and nm.a[0].a[1] == "get":
            base = nm.a[0].a[0]
        elif nm.k in ("phi", "ifexp"):
            parts = list(nm.a[0]) if nm.k == "phi" else [nm.a[1], nm.a[2]]
            out = []
            for x in parts:
                if x.k == "const" and isinstance(x.a[0], str):
                    out.append(x.a[0])
                else:
                    out += self._table_strings(x, classes, fa)
            return out
        if base is None:
            return []
        d = None
        if base.k == "attr" and base.a[0].k == "param":
            for c in classes:
                for k_ in c.mro():
                    v = k_.attrs.get(base.a[1])
                    if isinstance(v, ast.Dict):
                        d = v
                        break
                if d is not None:
                    break
        elif base.k in ("global", "free"):
            v = fa.func.module.assigns.get(base.a[0])
            if isinstance(v, ast.Dict):
                d = v
        if d is None:
            return []
        return [v.value for v in d.values if isinstance(v, ast.Constant) and isinstance(v.value, str)]

    def _numpy_protocol(self, t, dotted, fa):
        """np.f(x, ...) with x a repo object -> its __array_function__ handler;
        np.ufunc.reduce/accumulate/at(x) and np.ufunc(x) -> __array_ufunc__"""
        out = []
        parts = dotted.split(".")
        if parts[0] not in ("numpy", "np"):
            return out
        args = list(t.a[1]) + [v for _, v in t.a[2]]
        flat = []
        for a in args:
            if a.k in ("list", "tuple"):
                flat += list(a.a[0])
            elif a.k == "star":
                flat.append(a.a[0])
            else:
                flat.append(a)
        for a in flat:
            at = self.typeof(a, fa)
            if at and at[0] == "listof":
                at = at[1]
            if at and at[0] == "inst":
                for c in at[1]:
                    for proto in ("__array_function__", "__array_ufunc__", "__array__"):
                        m = c.lookup(proto)
                        if m is not None and m not in out:
                            out.append(m)
        return out

    def edges(self):
        """whole-program call graph: qual -> set of callee quals"""
        if self._edges is not None:
            return self._edges
        E = {}
        for q, f in self.p.funcs.items():
            try:
                fa = self.ctx.fa(f)
            except RecursionError:
                continue
            s = set()
            for _, targets in self.callees(fa):
                for g in targets:
                    s.add(g.qual)
            # nested functions are reachable from their definer (closures returned / called)
            for g in f.nested.values():
                if isinstance(g, Func):
                    s.add(g.qual)
                elif isinstance(g, Class):
                    for m in g.methods.values():
                        s.add(m.qual)
            # decorated function: the decorator's wrapper calls it; calling the name runs the wrapper
            E[q] = s
        # decorator wrappers: a call edge to a decorated function also reaches the wrapper chain
        for q, f in self.p.funcs.items():
            for d in f.decorators:
                dn = d.func if isinstance(d, ast.Call) else d
                r = self.p.resolve_expr_static(f.module, dn, f.parent)
                if isinstance(r, Func):
                    E[q].add(r.qual)
                    for w in self._all_nested(r):
                        E[q].add(w.qual)
        # protocol fan-out: __array_function__ -> every registered handler (through the registry call, already
        # resolved by typeof("registry")), __array_ufunc__ handled by direct calls.
        self._edges = E
        return E

    def call_sites(self, g):
        """[(caller FuncAnalysis, call term)] for every call term that may resolve to g"""
        idx = self.ctx._cache.get("call_sites")
        if idx is None:
            idx = {}
            for q, f in self.p.funcs.items():
                try:
                    fa = self.ctx.fa(f)
                except RecursionError:
                    continue
                for tm, targets in self.callees(fa):
                    if tm.k != "call":
                        continue
                    for h in targets:
                        idx.setdefault(h.qual, []).append((fa, tm))
            self.ctx._cache["call_sites"] = idx
        return idx.get(g.qual, [])

    def _all_nested(self, f):
        out = []
        for g in f.nested.values():
            if isinstance(g, Func):
                out.append(g)
                out += self._all_nested(g)
        return out

    def reachable(self, roots):
        E = self.edges()
        seen = set()
        stack = [r for r in roots if r in self.p.funcs]
        while stack:
            q = stack.pop()
            if q in seen:
                continue
            seen.add(q)
            stack.extend(E.get(q, ()))
        return seen


def _writes_registry(dec, name):
    for sub in ast.walk(dec.node):
        if isinstance(sub, ast.Assign):
            for t in sub.targets:
                if isinstance(t, ast.Subscript) and isinstance(t.value, ast.Name) and t.value.id == name:
                    return True
    return False


def registry_method_names(mod, node):
    """(class short qual, method name) pairs registered through get_ra_func(name) in a registry literal"""
    out = []
    if node is None:
        return out
    owner = "raggedarray.RaggedArray" if mod.short == "arrayfunctions" else (
        "runlengtharray.RunLengthArray" if mod.short == "runlengtharray" else None)
    if owner is None:
        return out
    if isinstance(node, ast.Dict):
        for v in node.values:
            if isinstance(v, ast.Call) and isinstance(v.func, ast.Name) and v.func.id == "get_ra_func" and v.args \
                    and isinstance(v.args[0], ast.Constant):
                out.append((owner, v.args[0].value))
    elif isinstance(node, ast.DictComp):
        v = node.value
        if isinstance(v, ast.Call) and isinstance(v.func, ast.Name) and v.func.id == "get_ra_func":
            for nm in static_str_list(mod, node.generators[0].iter):
                out.append((owner, nm))
    return out


def static_str_list(mod, e):
    """evaluate list(X.values()) + list(Y.values()) + LITERAL_LIST statically to a list of strings"""
    if isinstance(e, ast.BinOp) and isinstance(e.op, ast.Add):
        return static_str_list(mod, e.left) + static_str_list(mod, e.right)
    if isinstance(e, (ast.List, ast.Tuple)):
        return [x.value for x in e.elts if isinstance(x, ast.Constant) and isinstance(x.value, str)]
    if isinstance(e, ast.Name) and e.id in mod.assigns:
        return static_str_list(mod, mod.assigns[e.id])
    if isinstance(e, ast.Call) and isinstance(e.func, ast.Name) and e.func.id == "list" and e.args:
        return static_str_list(mod, e.args[0])
    if isinstance(e, ast.Call) and isinstance(e.func, ast.Attribute) and e.func.attr == "values" \
            and isinstance(e.func.value, ast.Name) and e.func.value.id in mod.assigns:
        d = mod.assigns[e.func.value.id]
        if isinstance(d, ast.Dict):
            return [v.value for v in d.values if isinstance(v, ast.Constant) and isinstance(v.value, str)]
    return []


def _exprs_of_node(n):
    st = n.ast
    if n.kind == "test":
        return [st]
    if n.kind == "for":
        return [st.iter]
    if n.kind == "with":
        return [it.context_expr for it in st.items]
    if n.kind == "handler":
        return []
    if n.kind != "stmt":
        return []
    if isinstance(st, (ast.FunctionDef, ast.AsyncFunctionDef, ast.ClassDef)):
        return list(st.decorator_list)
    out = []
    for fld in ("value", "test", "exc", "msg", "cause"):
        v = getattr(st, fld, None)
        if isinstance(v, ast.expr):
            out.append(v)
    if isinstance(st, (ast.Assign,)):
        for t in st.targets:
            out += _target_exprs(t)
    if isinstance(st, (ast.AugAssign, ast.AnnAssign)):
        out += _target_exprs(st.target)
    if isinstance(st, ast.Delete):
        for t in st.targets:
            out += _target_exprs(t)
    return out


def _target_exprs(t):
    """sub-expressions evaluated by a store target"""
    if isinstance(t, ast.Subscript):
        return [t.value, t.slice]
    if isinstance(t, ast.Attribute):
        return [t.value]
    if isinstance(t, (ast.Tuple, ast.List)):
        r = []
        for e in t.elts:
            r += _target_exprs(e)
        return r
    if isinstance(t, ast.Starred):
        return _target_exprs(t.value)
    return []


def _arity_ok(g, t, bound):
    """can callable g accept the positional/keyword shape of call term t (no star-args reasoning)"""
    args, kws = t.a[1], t.a[2]
    if any(a.k == "star" for a in args) or any(n == "**" for n, _ in kws):
        return True
    params = list(g.params)
    if bound and g.cls is not None and not g.is_staticmethod and params:
        params = params[1:]
    if len(args) > len(params) and not g.vararg:
        return False
    names = set(params) | set(g.kwonly)
    for n, _ in kws:
        if n not in names and not g.kwarg:
            return False
    given = set(params[:len(args)]) | {n for n, _ in kws}
    for p in params:
        if p not in given and p not in g.defaults:
            return False
    return True
